#!/bin/sh
# Nothing to build: the checkers are Python over clang-14 output. Verify the toolchain only.
set -e
for t in clang-14 opt-14 python3; do command -v $t >/dev/null || { echo "missing tool: $t" >&2; exit 1; }; done
python3 -c 'import sys; assert sys.version_info >= (3,8)'
mkdir -p /verif/evidence
echo "setup ok"

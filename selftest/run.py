#!/usr/bin/env python3
"""Seeded-fault battery: applies each semantic edit of mutants.json to a scratch copy of /repo's sources,
runs the checker of the stated property on the copy and requires exit 1 with the expected rule in a
VIOLATION report.  An edit whose anchor text no longer exists is skipped and counted (the working tree may
have been refactored); an edit that no longer compiles is reported as stale.

  run.py [--only NAME_SUBSTR] [--prop Cxx] [-j N] [--list]
exit 0: all applicable mutants killed; 1: some survived.
"""
import sys, os, json, shutil, subprocess, tempfile, argparse, re
from concurrent.futures import ThreadPoolExecutor

HERE = os.path.dirname(os.path.abspath(__file__))
VERIF = os.path.dirname(HERE)
REPO = os.environ.get('VERIF_REPO_ROOT', '/repo')


def apply_edit(root, m):
    if 'patch' in m:
        pf = os.path.join(VERIF, m['patch'])
        r = subprocess.run(['patch', '-p1', '-s', '-d', root, '-i', pf], capture_output=True, text=True)
        return r.returncode == 0
    p = os.path.join(root, m['file'])
    s = open(p).read()
    edits = m['edits'] if 'edits' in m else [m]
    for e in edits:
        p = os.path.join(root, e.get('file', m['file']))
        s = open(p).read()
        if e.get('regex'):
            s2, n = re.subn(e['find'], e['replace'], s, count=1, flags=re.S)
            if n == 0:
                return False
        else:
            if s.count(e['find']) < 1:
                return False
            s2 = s.replace(e['find'], e['replace'], 1)
        open(p, 'w').write(s2)
    return True


def run_one(m):
    d = tempfile.mkdtemp(prefix='vpmut.', dir=os.environ.get('TMPDIR', '/tmp'))
    try:
        shutil.copytree(os.path.join(REPO, 'src'), os.path.join(d, 'src'))
        shutil.copy(os.path.join(REPO, 'CMakeLists.txt'), d)
        if os.path.isdir(os.path.join(REPO, 'tests')):
            os.symlink(os.path.join(REPO, 'tests'), os.path.join(d, 'tests'))
        if os.path.isdir(os.path.join(REPO, 'man')):
            os.symlink(os.path.join(REPO, 'man'), os.path.join(d, 'man'))
        if not apply_edit(d, m):
            return m, 'skipped', 'anchor text not found'
        env = dict(os.environ, VERIF_NO_EVIDENCE='1', VERIF_REPO_ROOT=d)
        r = subprocess.run([os.path.join(VERIF, 'check'), m['property'], '--root', d, '--tier', 'quick'],
                           capture_output=True, text=True, env=env)
        out = r.stdout + r.stderr
        if m.get('expect') == 'known-miss':
            # a change outside what these rules can decide (documented in DESIGN.md): recorded, not required
            if r.returncode == 1:
                return m, 'killed', 'caught (was recorded as a known miss)'
            return m, 'skipped', 'known miss: ' + m.get('why', '')
        if m.get('expect') == 'pass':
            # behaviour-preserving variant: the check must stay silent
            if r.returncode == 0:
                return m, 'killed', 'silent on a behaviour-preserving variant, as required'
            return m, 'FALSE-ALARM', out[-700:]
        if r.returncode == 2:
            if 'compile failed' in out:
                return m, 'stale', 'mutant does not compile'
            if m.get('expect') == 'broken':
                return m, 'killed', 'analysis broken as expected'
            return m, 'broken', out[-600:]
        if r.returncode == 1 and 'VIOLATION property=%s' % m['property'] in out:
            want = m.get('expect_rule')
            if want and ('rule=' + want) not in out:
                return m, 'wrong-rule', out[-800:]
            return m, 'killed', [l for l in out.split('\n') if l.startswith('  rule=')][:2]
        return m, 'SURVIVED', out[-400:]
    finally:
        shutil.rmtree(d, ignore_errors=True)


def main():
    ap = argparse.ArgumentParser()
    ap.add_argument('--only')
    ap.add_argument('--prop')
    ap.add_argument('-j', type=int, default=8)
    ap.add_argument('--list', action='store_true')
    ap.add_argument('--json')
    a = ap.parse_args()
    muts = json.load(open(os.path.join(HERE, 'mutants.json')))
    if a.only:
        muts = [m for m in muts if a.only in m['name']]
    if a.prop:
        muts = [m for m in muts if m['property'] == a.prop]
    if a.list:
        for m in muts:
            print(m['property'], m['name'])
        return 0
    bad = 0
    res = []
    with ThreadPoolExecutor(max_workers=a.j) as ex:
        for m, st, info in ex.map(run_one, muts):
            res.append({'name': m['name'], 'property': m['property'], 'status': st,
                        'expect_rule': m.get('expect_rule')})
            print('%-10s %-4s %-45s %s' % (st, m['property'], m['name'], info if st not in ('killed',) else info))
            if st not in ('killed', 'skipped'):
                bad += 1
    print('%d mutants: %d killed, %d skipped, %d not killed' % (
        len(res), sum(1 for r in res if r['status'] == 'killed'), sum(1 for r in res if r['status'] == 'skipped'), bad))
    if a.json:
        json.dump(res, open(a.json, 'w'), indent=1)
    return 1 if bad else 0


if __name__ == '__main__':
    sys.exit(main())

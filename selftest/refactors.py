#!/usr/bin/env python3
"""Silence test: applies each behaviour-preserving refactoring of selftest/refactors/*.diff to a scratch copy of
/repo's sources and runs every claimed check on it.  Required outcome: exit 0 everywhere.  An exit 1 is a FALSE
ALARM of the checker; an exit 2 means the rule no longer recognises the code (tolerated, listed).

  refactors.py [--only SUBSTR] [-j N] [--props C05,C10]
"""
import sys, os, json, shutil, subprocess, tempfile, argparse, glob
from concurrent.futures import ThreadPoolExecutor

HERE = os.path.dirname(os.path.abspath(__file__))
VERIF = os.path.dirname(HERE)
REPO = os.environ.get('VERIF_REPO_ROOT', '/repo')


def run_one(args):
    patch, props = args
    d = tempfile.mkdtemp(prefix='vpref.', dir='/tmp')
    out = {}
    try:
        shutil.copytree(os.path.join(REPO, 'src'), os.path.join(d, 'src'))
        shutil.copy(os.path.join(REPO, 'CMakeLists.txt'), d)
        for sub in ('tests', 'man'):
            if os.path.isdir(os.path.join(REPO, sub)):
                os.symlink(os.path.join(REPO, sub), os.path.join(d, sub))
        r = subprocess.run(['patch', '-p1', '-s', '-d', d, '-i', patch], capture_output=True, text=True)
        if r.returncode != 0:
            return patch, {'_': 'patch does not apply'}
        env = dict(os.environ, VERIF_NO_EVIDENCE='1', VERIF_REPO_ROOT=d)
        for p in props:
            r = subprocess.run([os.path.join(VERIF, 'check'), p, '--root', d], capture_output=True, text=True, env=env)
            info = {'exit': r.returncode}
            if r.returncode == 1:
                info['rules'] = [l.strip()[:300] for l in r.stdout.split('\n') if l.startswith('  rule=')][:3]
            if r.returncode == 2:
                info['broken'] = [l[:300] for l in r.stdout.split('\n') if 'ANALYSIS-BROKEN' in l][:1]
            out[p] = info
    finally:
        shutil.rmtree(d, ignore_errors=True)
    return patch, out


def main():
    ap = argparse.ArgumentParser()
    ap.add_argument('--only')
    ap.add_argument('-j', type=int, default=6)
    ap.add_argument('--props')
    a = ap.parse_args()
    claimed = [c['property_id'] for c in json.load(open(os.path.join(VERIF, 'MANIFEST.json')))['checks']]
    props = a.props.split(',') if a.props else claimed
    patches = sorted(glob.glob(os.path.join(HERE, 'refactors', '*.diff')))
    if a.only:
        patches = [p for p in patches if a.only in os.path.basename(p)]
    alarms = broken = 0
    with ThreadPoolExecutor(max_workers=a.j) as ex:
        for patch, out in ex.map(run_one, [(p, props) for p in patches]):
            fa = {p: v for p, v in out.items() if isinstance(v, dict) and v.get('exit') == 1}
            br = {p: v for p, v in out.items() if isinstance(v, dict) and v.get('exit') == 2}
            alarms += len(fa)
            broken += len(br)
            print('%-28s %s' % (os.path.basename(patch), 'silent' if not fa and not br and '_' not in out else ''),
                  ('FALSE-ALARM %s' % {p: v['rules'] for p, v in fa.items()}) if fa else '',
                  ('exit2 %s' % {p: v['broken'] for p, v in br.items()}) if br else '', out.get('_', ''))
            sys.stdout.flush()
    print('%d refactorings x %d checks: %d false alarms, %d not-recognised (exit 2)' % (len(patches), len(props), alarms, broken))
    return 1 if alarms else 0


if __name__ == '__main__':
    sys.exit(main())

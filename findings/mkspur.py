import sys, subprocess
from mkdelta import BW, crc32_bz
def block(w, nrep):
    data=b'a'; bc=crc32_bz(data)
    w.put(24,0x314159);w.put(24,0x265359); w.put(32,bc)
    w.put(1,0); w.put(24,0)
    w.put(16,1<<(15-6)); w.put(16,1<<(15-1))
    P=format(0x314159265359,'048b')+'0'*32
    surplus=P*nrep
    nsel=1+surplus.count('0')
    assert nsel<=32767 and '111' not in surplus and surplus.endswith('0')
    w.put(3,3); w.put(15,nsel)
    w.puts('0'); w.puts(surplus)
    for t in range(3):
        w.put(5,1); w.puts('0'); w.puts('100'); w.puts('0')
    w.puts('0'); w.puts('11')
    return bc
def stream(nblocks,nrep):
    w=BW(); w.put(8,0x42);w.put(8,0x5a);w.put(8,0x68);w.put(8,0x39)
    comb=0
    for i in range(nblocks):
        bc=block(w,nrep); comb=(((comb<<1)&0xFFFFFFFF)|(comb>>31))^bc
    w.put(24,0x177245);w.put(24,0x385090); w.put(32,comb)
    return w.bytes()
if __name__=='__main__':
    nb,nr=int(sys.argv[1]),int(sys.argv[2])
    s=stream(nb,nr); open('spur.bz2','wb').write(s)
    p=subprocess.run(['/repo/_build/lbzip2','-d','-n','4'],input=s,capture_output=True)
    print(len(s),'bytes; lbzip2 rc',p.returncode,len(p.stdout),p.stdout[:10],p.stderr[:100])
    q=subprocess.run(['/repo/_build/minbzcat'],input=s,capture_output=True)
    print('minbzcat rc',q.returncode,len(q.stdout),q.stderr[:80])

import sys, bz2, subprocess
def crc32_bz(data):
    tab=[]
    for i in range(256):
        c=i<<24
        for _ in range(8):
            c=((c<<1)^0x04C11DB7)&0xFFFFFFFF if c&0x80000000 else (c<<1)&0xFFFFFFFF
        tab.append(c)
    crc=0xFFFFFFFF
    for b in data: crc=((crc<<8)&0xFFFFFFFF)^tab[(crc>>24)^b]
    return crc^0xFFFFFFFF
class BW:
    def __init__(s): s.bits=[]
    def put(s,n,v):
        for i in range(n-1,-1,-1): s.bits.append((v>>i)&1)
    def puts(s,str_):
        for ch in str_: s.bits.append(int(ch))
    def bytes(s):
        b=s.bits+[0]*((-len(s.bits))%8)
        return bytes(int(''.join(map(str,b[i:i+8])),2) for i in range(0,len(b),8))
def make(first_sym_delta):
    data=b'a'
    w=BW()
    w.put(8,0x42);w.put(8,0x5a);w.put(8,0x68);w.put(8,0x39)
    w.put(24,0x314159);w.put(24,0x265359)
    bc=crc32_bz(data); w.put(32,bc)
    w.put(1,0); w.put(24,0)
    # bitmap: 'a'=0x61 -> big bit 6, small bit 1
    w.put(16,1<<(15-6)); w.put(16,1<<(15-1))
    w.put(3,2); w.put(15,1)
    w.puts('0')            # selector
    for t in range(2):
        w.put(5,1)
        w.puts(first_sym_delta if t==0 else '0')   # sym0 len1
        w.puts('100')      # sym1 len2
        w.puts('0')        # sym2 len2
    w.puts('0'); w.puts('11')  # RUNA, EOB
    w.put(24,0x177245);w.put(24,0x385090)
    w.put(32,bc)  # combined = (0<<1 ^ 0>>31) ^ bc
    return w.bytes()
if __name__=="__main__":
    for name,d in (('ok','0'),('dip','11100')):
        s=make(d); open(f'delta_{name}.bz2','wb').write(s)
        try: r=bz2.decompress(s)
        except Exception as e: r=repr(e)
        p=subprocess.run(['/repo/_build/lbzip2','-d','-n','2'],input=s,capture_output=True)
        q=subprocess.run(['/repo/_build/minbzcat'],input=s,capture_output=True)
        print(name,'libbz2:',r,'| lbzip2 rc',p.returncode,p.stdout,p.stderr,'| minbzcat rc',q.returncode,q.stdout,q.stderr[:60])

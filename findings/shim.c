#define _GNU_SOURCE
#include <dlfcn.h>
#include <stdio.h>
#include <stdlib.h>
#include <string.h>
#include <unistd.h>
#include <pthread.h>
static void *(*real_malloc)(size_t); static void (*real_free)(void*); static void (*real_exit)(int);
#define N 1000000
static void *live[N]; static int nlive; static long nalloc, nfree;
static pthread_mutex_t mu = PTHREAD_MUTEX_INITIALIZER;
static size_t target;
static void init(void){ if(!real_malloc){ real_malloc=dlsym(RTLD_NEXT,"malloc"); real_free=dlsym(RTLD_NEXT,"free"); real_exit=dlsym(RTLD_NEXT,"_exit"); const char*t=getenv("SHIM_SIZE"); target=t?atoi(t):64; } }
void *malloc(size_t n){ init(); void*p=real_malloc(n); if(n==target){ pthread_mutex_lock(&mu); nalloc++; if(nlive<N) live[nlive++]=p; pthread_mutex_unlock(&mu);} return p; }
void free(void*p){ init(); if(p){ pthread_mutex_lock(&mu); for(int i=nlive-1;i>=0;i--) if(live[i]==p){ live[i]=live[--nlive]; nfree++; break;} pthread_mutex_unlock(&mu);} real_free(p); }
void _exit(int c){ init(); char b[128]; int n=snprintf(b,sizeof b,"SHIM size=%zu alloc=%ld freed=%ld live=%d\n",target,nalloc,nfree,nlive); write(2,b,n); real_exit(c); for(;;); }

#!/usr/bin/env python3
"""Prints the markdown table of confirmed seeds (seeded/<id>/) with the result recorded in seeded/MATRIX.json."""
import json, os, re
V = os.path.dirname(os.path.dirname(os.path.abspath(__file__)))
M = json.load(open(os.path.join(V, 'seeded', 'MATRIX.json')))
print('| seed | property | what it changes (from the seed\'s README) | result on the seeded tree | rule(s) that fire |')
print('|---|---|---|---|---|')
for n in sorted(os.listdir(os.path.join(V, 'seeded'))):
    mp = os.path.join(V, 'seeded', n, 'meta.json')
    if not os.path.exists(mp):
        continue
    meta = json.load(open(mp))
    if not meta.get('confirmed'):
        continue
    own = meta['property']
    desc = ''
    for rn in ('README.txt', 'README', 'README.md'):
        rp = os.path.join(V, 'seeded', n, rn)
        if os.path.exists(rp):
            lines = [l.strip() for l in open(rp, errors='replace') if l.strip()]
            for l in lines:
                l2 = re.sub(r'^(\/\d\s*--\s*|Seed\s*\d*\s*[-:(]*\s*(C\d\d)?\)?\s*[-:]*|Change:|What( it changes)?:)\s*', '', l, flags=re.I)
                if len(l2) > 25:
                    desc = l2
                    break
            break
    desc = desc.replace('|', '/')[:150]
    v = M.get(n, {}).get(own, {})
    st = {1: 'caught', 0: 'MISSED', 2: 'exit 2 (not decidable here)'}.get(v.get('exit'), 'not run')
    print('| %s | %s | %s | %s | %s |' % (n, own, desc, st, ', '.join(v.get('rules', [])[:3])))

#!/usr/bin/env python3
"""Adds every confirmed seed (seeded/<id>/meta.json) that is not yet an entry of selftest/mutants.json."""
import json, os
V = os.path.dirname(os.path.dirname(os.path.abspath(__file__)))
mp = os.path.join(V, 'selftest', 'mutants.json')
m = json.load(open(mp))
names = {x['name'] for x in m}
add = []
for d in sorted(os.listdir(os.path.join(V, 'seeded'))):
    p = os.path.join(V, 'seeded', d, 'meta.json')
    if os.path.exists(p):
        meta = json.load(open(p))
        if meta.get('confirmed') and 'seed ' + d not in names:
            add.append({'name': 'seed ' + d, 'property': meta['property'], 'patch': 'seeded/%s/patch.diff' % d})
m += add
json.dump(m, open(mp, 'w'), indent=1)
print('added', [a['name'] for a in add], 'total', len(m))

#!/usr/bin/env python3
"""Runs every confirmed seeded change (seeded/<id>/patch.diff) against the checks, in scratch copies of /repo's sources.

  seedmatrix.py [--all-checks] [-j N] [--only ID_SUBSTR]

Default: each seed against the check of the property it was written for.  --all-checks: against every claimed check.
Writes seeded/MATRIX.json and prints one line per seed.  Nothing is applied to /repo."""
import sys, os, json, shutil, subprocess, tempfile, argparse
from concurrent.futures import ThreadPoolExecutor

VERIF = os.path.dirname(os.path.dirname(os.path.abspath(__file__)))
REPO = '/repo'


def run_seed(args):
    name, props = args
    d = tempfile.mkdtemp(prefix='vpseedm.', dir='/tmp')
    out = {}
    try:
        shutil.copytree(os.path.join(REPO, 'src'), os.path.join(d, 'src'))
        shutil.copy(os.path.join(REPO, 'CMakeLists.txt'), d)
        for sub in ('tests', 'man'):
            if os.path.isdir(os.path.join(REPO, sub)):
                os.symlink(os.path.join(REPO, sub), os.path.join(d, sub))
        r = subprocess.run(['patch', '-p1', '-s', '-d', d, '-i', os.path.join(VERIF, 'seeded', name, 'patch.diff')],
                           capture_output=True, text=True)
        if r.returncode != 0:
            return name, {'_': 'patch does not apply'}
        env = dict(os.environ, VERIF_NO_EVIDENCE='1', VERIF_REPO_ROOT=d)
        for p in props:
            r = subprocess.run([os.path.join(VERIF, 'check'), p, '--root', d], capture_output=True, text=True, env=env)
            rules = sorted({l.split('rule=')[1].split(' ')[0] for l in r.stdout.split('\n') if l.startswith('  rule=')})
            out[p] = {'exit': r.returncode, 'rules': rules}
            if r.returncode == 2:
                out[p]['broken'] = [l for l in r.stdout.split('\n') if 'ANALYSIS-BROKEN' in l][:1]
    finally:
        shutil.rmtree(d, ignore_errors=True)
    return name, out


def main():
    ap = argparse.ArgumentParser()
    ap.add_argument('--all-checks', action='store_true')
    ap.add_argument('-j', type=int, default=6)
    ap.add_argument('--only')
    a = ap.parse_args()
    claimed = [c['property_id'] for c in json.load(open(os.path.join(VERIF, 'MANIFEST.json')))['checks']]
    seeds = []
    for name in sorted(os.listdir(os.path.join(VERIF, 'seeded'))):
        mp = os.path.join(VERIF, 'seeded', name, 'meta.json')
        if not os.path.exists(mp) or (a.only and a.only not in name):
            continue
        meta = json.load(open(mp))
        if not meta.get('confirmed'):
            continue
        own = meta['property']
        props = claimed if a.all_checks else ([own] if own in claimed else [])
        seeds.append((name, props))
    res = {}
    with ThreadPoolExecutor(max_workers=a.j) as ex:
        for name, out in ex.map(run_seed, seeds):
            res[name] = out
            own = json.load(open(os.path.join(VERIF, 'seeded', name, 'meta.json')))['property']
            caught = [p for p, v in out.items() if isinstance(v, dict) and v.get('exit') == 1]
            brk = [p for p, v in out.items() if isinstance(v, dict) and v.get('exit') == 2]
            print('%-8s own=%s  %s  caught_by=%s broken=%s %s' % (
                name, own, 'CAUGHT' if own in caught else ('broken' if own in brk else ('MISSED' if own in out else 'unclaimed')),
                caught, brk, out.get(own, {}).get('rules', '')[:3] if own in out else ''))
            sys.stdout.flush()
    mp = os.path.join(VERIF, 'seeded', 'MATRIX.json')
    old = json.load(open(mp)) if os.path.exists(mp) else {}
    old.update(res)
    json.dump(old, open(mp, 'w'), indent=1, sort_keys=True)


if __name__ == '__main__':
    main()

#!/bin/bash
# Sequential confirmation daemon: processes lines "PROP SRCDIR DESTNAME" appended to /tmp/seedq.txt
touch /tmp/seedq.txt
n=0
while true; do
  total=$(wc -l < /tmp/seedq.txt)
  if [ "$n" -lt "$total" ]; then
    n=$((n+1)); line=$(sed -n "${n}p" /tmp/seedq.txt)
    [ -z "$line" ] && continue
    [ "$line" = "quit" ] && exit 0
    python3 /verif/tools/confirm_seed.py $line >> /tmp/seedq.log 2>&1
  else
    sleep 10
  fi
done

#!/usr/bin/env python3
"""Confirms a sub-agent's seeded change and files it under /verif/seeded/<PROP>-<n>/.

  confirm_seed.py <PROP> <src seed dir> <dest name e.g. C06-1> ["what it needs to manifest"]

In a scratch worktree of /repo HEAD (removed afterwards): build clean -> demo must pass; apply patch -> must build
without new warnings -> full test suite must pass -> demo must fail.  Writes meta.json with what was run and seen.
Nothing is ever applied to /repo itself."""
import sys, os, subprocess, shutil, json, tempfile, time

VERIF = os.path.dirname(os.path.dirname(os.path.abspath(__file__)))


def sh(cmd, cwd=None, timeout=1800):
    t = time.time()
    r = subprocess.run(cmd, shell=True, cwd=cwd, capture_output=True, text=True, timeout=timeout)
    return r.returncode, (r.stdout + r.stderr), round(time.time() - t, 1)


def main():
    prop, src, name = sys.argv[1:4]
    needs = sys.argv[4] if len(sys.argv) > 4 else ''
    dest = os.path.join(VERIF, 'seeded', name)
    if os.path.abspath(src) != os.path.abspath(dest):
        if os.path.exists(dest):
            shutil.rmtree(dest)
        shutil.copytree(src, dest)
    wt = tempfile.mkdtemp(prefix='vpseed.', dir='/tmp')
    os.rmdir(wt)
    log = {}
    try:
        rc, out, _ = sh('git -C /repo worktree add -q --detach %s HEAD' % wt)
        assert rc == 0, out
        build = 'cmake -G Ninja -S . -B _build -DCMAKE_BUILD_TYPE=RelWithDebInfo >/dev/null && cmake --build _build 2>&1'
        rc, out, t = sh(build, cwd=wt)
        assert rc == 0, out
        base_warn = out.count('warning:')
        demo = os.path.join(dest, 'demo.sh')
        os.chmod(demo, 0o755)
        rc, out, t = sh('bash %s %s/_build/lbzip2' % (demo, wt), cwd=dest, timeout=600)
        log['demo_without_change'] = {'exit': rc, 'seconds': t, 'tail': out[-600:]}
        rc, out, _ = sh('git apply %s' % os.path.join(dest, 'patch.diff'), cwd=wt)
        assert rc == 0, 'patch does not apply: ' + out
        rc, out, t = sh('cmake --build _build 2>&1', cwd=wt)
        log['build_with_change'] = {'exit': rc, 'new_warnings': out.count('warning:') - 0, 'seconds': t}
        assert rc == 0, out
        rc, out, t = sh('ctest --test-dir _build -j16 --timeout 900 2>&1 | tail -5', cwd=wt, timeout=3600)
        log['suite_with_change'] = {'exit': rc, 'seconds': t, 'tail': out[-300:]}
        suite_ok = '100% tests passed' in out
        rc, out, t = sh('bash %s %s/_build/lbzip2' % (demo, wt), cwd=dest, timeout=600)
        log['demo_with_change'] = {'exit': rc, 'seconds': t, 'tail': out[-600:]}
        ok = (log['demo_without_change']['exit'] == 0 and suite_ok and log['demo_with_change']['exit'] != 0)
    finally:
        sh('git -C /repo worktree remove --force %s' % wt)
        shutil.rmtree(wt, ignore_errors=True)
    readme = ''
    for n in ('README.txt', 'README', 'README.md'):
        p = os.path.join(dest, n)
        if os.path.exists(p):
            readme = open(p).read()
            break
    meta = {
        'property': prop,
        'origin': 'independent sub-agent given only the property text and a scratch worktree',
        'needs_to_manifest': needs or readme[:1200],
        'confirmed': ok,
        'what_was_run': {
            'build': 'cmake -G Ninja -S . -B _build -DCMAKE_BUILD_TYPE=RelWithDebInfo && cmake --build _build',
            'suite': 'ctest --test-dir _build -j16 --timeout 900 (with the change applied)',
            'demo': 'bash demo.sh <worktree>/_build/lbzip2 (without and with the change)',
        },
        'results': log,
        'repo_head': subprocess.run('git -C /repo rev-parse --short HEAD', shell=True, capture_output=True,
                                    text=True).stdout.strip(),
    }
    json.dump(meta, open(os.path.join(dest, 'meta.json'), 'w'), indent=1)
    print(name, 'CONFIRMED' if ok else 'NOT CONFIRMED', json.dumps({k: v.get('exit') for k, v in log.items()}))
    return 0 if ok else 1


if __name__ == '__main__':
    sys.exit(main())

#!/usr/bin/env python3
"""Regenerates /verif/MANIFEST.json from the table below (kept valid at all times)."""
import json, os, sys
VERIF = os.path.dirname(os.path.dirname(os.path.abspath(__file__)))

TRUST = ('clang-14 front end and -O0 code generation render the C source faithfully (the shipped binary is built '
         'with cc -O2; the rules concern source-level structure that optimisation preserves); opt-14 mem2reg; the '
         'Python IR reader (exits 2 on anything it does not understand); the hand-written specifications in the '
         'checker (format constants, documented option/suffix maps, token/ownership tables)')

CLAIMED = {
    'C14': dict(cat='proof', tech='exhaustive table equivalence + CFG/provenance rules on LLVM IR',
                text='mini_dfa/big_dfa are proved equal, entry by entry (12 640 obligations), to the string-matching '
                     'automaton of 0x314159265359 computed independently; scan() is checked structurally (byte order, '
                     'state replay and data rewind on ACCEPT, 32-bit trailer, index closure). Does not decide the skip '
                     'arithmetic of scan() on bit streams.', ref='5 (C14)'),
}

CLAIMED.update({
    'C11': dict(cat='other', tech='finite-domain tabulation of the deque ring arithmetic (head/index modulo modulus, 32-bit arithmetic as compiled); interprocedural lock typestate, path-sensitive conservation-law dataflow, symbolic capacity comparison, CFG cut rules on LLVM IR',
                text='Every new deque head stays in the ring and moves by one position, every index computed from head/size stays below modulus; an object released at a site no law knows is a violation. Decides the safety skeleton the termination argument rests on, on every path and in every calling '
                     'context: monitor discipline (no double lock / unlock of unheld mutex, role contracts of tasks, '
                     'predicates and callbacks, acyclic lock order), conservation of worker/input/output tokens on every '
                     'path of every task, callback and I/O loop in all three modes, queue capacities versus token totals '
                     'and threshold reservations, wake-up discipline, reservation thresholds, stale-tolerant head-of-line '
                     'tests. Liveness under every interleaving is NOT decided (needs interleaving exploration).',
                ref='5 (C11)'),
    'C12': dict(cat='other', tech='struct assignments (memcpy) as accesses to the heap objects involved; static lockset (Eraser) rule over a derived thread/phase model + ownership typestate for heap blocks',
                text='Struct copies through pointers count as a read of the source object and a write of the destination object in the lockset and ownership rules. Every pair of conflicting accesses to a mutable global that may run in parallel (thread classes, '
                     'multiplicities and create/join phases are derived from the IR) shares a mutex; the parse-token baton '
                     'protecting `par` is verified structurally; unlocked accesses to heap blocks are legal only while the '
                     'task exclusively owns the block. Sound for file-scope state under the stated, checked assumptions; '
                     'codec-internal heap state is covered only through ownership of its container.', ref='5 (C12)'),
})

CLAIMED.update({
    'C13': dict(cat='other', tech='allocation-size provenance, object conservation laws, owned-field must-pass rule, sibling init/free agreement on LLVM IR',
                text='Every run-time allocation has a size drawn only from constants, the level, the I/O granularities, '
                     'slot counters (shown affine in the worker count) or an encoder-reported size; every object class '
                     '(blocks, encoders, decoders, I/O buffers, scan tasks) is conserved against the queue that holds it on '
                     'every path of every task, callback and I/O loop; the unord_blk two-party protocol is run before every '
                     'free of a retrieve job; decoder_free releases what decoder_init allocates; token-less queues are '
                     'drained when parsing ends. Does not measure resident memory.', ref='5 (C13)'),
})

CLAIMED.update({
    'C18': dict(cat='other', tech='cross-mode must-definition (what the run code of any mode writes must be re-initialised in the prefix of the mode that reads it next); cli()/sti() pairing (shared with C16); must-definition dataflow over the per-operand initialisation prefix vs. run-written/read global locations (per mode), who-may-read/write rules',
                text='State written by the run code of one mode and read by that of another (decompress one operand, copy the next) is covered; the signal window is closed on every path through the operand loop. Decides the state carry-over clause: every global location that run-time code of a mode writes and '
                     'reads upward-exposed is stored on every path of the next run\'s initialisation prefix (main-level '
                     'input_init/output_init, work(), schedule()/copy(), primary_thread up to init_io incl. the mode\'s '
                     'init callback), or is restored by construction / in a structurally verified exception table; no '
                     'function-local static is written; exit status is warned ? 4 : 0, warned is only set by warn* and only '
                     'read for the exit status. Does not decide equality of outputs with separate invocations.',
                ref='5 (C18)'),
})

CLAIMED.update({
    'C19': dict(cat='other', tech='cross-mode must-definition for the copy pseudo-process; guard-cut and interval extraction over the CFG of work(), provenance of call arguments, conservation law and must-definition analysis for copy mode',
                text='Flags left by a preceding decompression run (request_close, ...) must be re-initialised before the threads of the copy start. Decides: the decompressor is entered exactly for a full 4-byte header in BZh1..BZh9 (interval derived '
                     'from the comparisons guarding the call); copy() is reachable only with -f and standard output and '
                     'everything else fails; the sniffed 0-4 bytes are written first with their true length; copy-mode '
                     'slot constants agree; the copy pipeline conserves buffers and output slots on every path; '
                     'termination is signalled exactly on eof && all slots returned; buffers are written unchanged with '
                     'the byte count read; copy-mode state is re-initialised per operand. Does not decide pipe behaviour.',
                ref='5 (C19)'),
})

CLAIMED.update({
    'C16': dict(cat='other', tech='CFG must-pass rule for the cli()/sti() window; dominance, must-pass-through, who-may-call and must-definition rules on the CFGs of main.c, signals.c, process.c',
                text='Every path from cli() to the next operand or out of main() passes sti(). Decides the ordering facts that leave only the two allowed end states: the input is removed only '
                     'after work(), metadata calls, a successful close() and the clearing of the output name; outputs are '
                     'created exclusively and their name recorded before anything else can fail; every abnormal exit of '
                     'the main thread passes cleanup(); sub-threads cannot reach _exit/unlink; signals are deliverable only '
                     'inside halt() and are unblocked at start-up after the set is filled; the success signal is the '
                     'primary thread\'s last action. Does not model the kernel or decide that work() wrote everything.',
                ref='5 (C16)'),
    'C17': dict(cat='other', tech='guard-cut rules over input_init/output_init/main, table comparison of suffix[], argument provenance',
                text='Decides: each admission test (regular file, link count, compressed suffix) guards open() on every '
                     'path not exempted by exactly the documented options, and a skipped operand warns and is never '
                     'opened; suffix[] equals the documented map; outputs are created O_CREAT|O_EXCL with mode & 0600, '
                     'pre-unlink only with -f; fchown/fchmod(&0777)/futimens(atime,mtime) are applied as documented, '
                     'fchmod on every path where fchown succeeded; the input removal is guarded by exactly outmode==REGF '
                     'and !keep. Does not decide file-system effects themselves.', ref='5 (C17)'),
})

CLAIMED.update({
    'C21': dict(cat='other', tech='error-discipline rule at every system-call site (failure edge must reach fail*/warn*), loop-exit and must-pass-through rules on xread/xwrite/fail*/bailout, signal-table comparison',
                text='Decides: the failure value of every read/write/close/open/stat/unlink/fchown/fchmod/futimens/'
                     'fclose/printf/pthread_create result is tested and its failure edge reaches a fatal fail* (read, '
                     'write, close) or a documented warn*/info*; xread/xwrite leave their loops only at EOF / chunk '
                     'full / all written and advance by what the call returned; fail* never return and suppress only '
                     'the message, only for EPIPE/EFBIG; log_generic failures reach bailout; bailout unblocks exactly '
                     'SIGPIPE/SIGXFSZ before _exit(1) on the main thread and raises SIGUSR1 from sub-threads, which '
                     'halt() turns into bailout; main exits 0/4 only past a checked close(stdout). Promptness and '
                     'absence of hangs are NOT decided.', ref='5 (C21)'),
})

CLAIMED.update({
    'C05': dict(cat='other', tech='abstract interpretation of emit() against the un-RLE automaton of the format (disjunctive interval/partition/typestate domain, fixpoint over the resume states); exhaustive finite-domain tabulation of table-driven IR fragments (delta code, selector code, header automaton) against the reference rule; path-sensitive abstract exploration of the decompressor tasks; guard/dominance rules',
                text='emit() is walked abstractly against the expander automaton for every amount of input/output space, every count value and every pattern of equal bytes, from the state decode() leaves and from every state a MORE return saves: stores only at the cursor and within the space offered; outside a repeat the byte stored is the next input byte; after four equal bytes the next byte is a count and exactly that many copies follow; ERR_RUNLEN exactly when the input ends between the fourth byte and its count; OK/MORE only in the right situations with a saved state that describes where the expander stands. Decides: (a) the delta-code step of retrieve() (tables L/R/RH/RL + range test + update) agrees with the '
                     'bzip2 1.0.x step-by-step rule on all 4608 (position, length, 6-bit pattern) cases - consumed bits, '
                     'resulting length, accept/reject - and the selector unary code on all 320 cases; (b) every result of '
                     'retrieve()/emit()/parse() is carried unchanged to do_reorder()/do_parse(), where every value other '
                     'than OK/MORE(/FINISH) ends in failf(err2str(code)); a block reaches the writer only if it is within '
                     'its own stream\'s declared size and, when finished, its 32-bit CRC matches; (c) a stream ending '
                     'inside the zero padding is ERR_EOF; (d) the header automaton of parse() equals the container format '
                     'automaton on every (state, word class, mode) incl. trailing-data rule, byte alignment, CRC assembly '
                     'bit by bit, end-of-input results; run-length accumulation is bounded. Does NOT decide that the bytes '
                     'written equal the reference decoding (BWT/Huffman arithmetic).', ref='5 (C05)'),
    'C15': dict(cat='other', tech='path-sensitive abstract exploration of do_reorder/do_emit/do_parse, provenance chain of both compared fields, per-block fold/store pairing in emit(), table equivalence, bit-by-bit tabulation of the CRC states of parse()',
                text='Decides: a finished block reaches the writer only when the unmasked 32-bit comparison oblk->crc != '
                     'ord.hdr.crc is false, whatever its position, and a mismatch ends in failf(); the stored side is what '
                     'parse() assembled from two full 16-bit words and do_parse() queued; the computed side is emit()\'s '
                     's ^ 0xFFFFFFFF copied on all 32 bits, s starting at 0xFFFFFFFF per block, surviving suspension, and '
                     'folding every output byte through crc_table == CRC-32/BZIP2; the stream CRC comparison and the '
                     'combination rotl1(c)^crc are tabulated from parse(): every single-bit difference of the stored or '
                     'computed value yields ERR_STRMCRC, which do_parse() turns into failf(). Does not decide that emit() '
                     'reproduces the right bytes.', ref='5 (C15)'),
})

CLAIMED.update({
    'C07': dict(cat='other', tech='abstract interpretation of emit() against the un-RLE automaton of the format (disjunctive interval/partition/typestate domain, fixpoint over the resume states) (runlen/space/read rules); path-sensitive abstract exploration of the decompressor tasks (error-code chain), tabulation of parse() end-of-input results, guard cuts in work(), must-pass/never-return rules on fail*/bailout/halt/cleanup, call-closure deny-list on the abnormal exit path',
                text='emit(): a block ending right after four equal bytes is rejected with ERR_RUNLEN on every path (abstract walk). Decides that every DETECTED error ends in a diagnostic and exit status 1 with the partial output '
                     'removed: results of retrieve()/emit()/parse() travel unchanged to do_reorder()/do_parse(), where every '
                     'value but OK/MORE/FINISH reaches failf(err2str(code)); truncation inside a stream (incl. inside the '
                     'zero padding) is ERR_EOF; a first header other than BZh1..BZh9 fails unless -f with stdout; fail* '
                     'never return and reach bailout(); bailout() = cleanup() + _exit(1) on the main thread, SIGUSR1 from '
                     'other threads, which halt() turns into bailout(); cleanup() unlinks the partial output; nothing on '
                     'the abnormal exit path takes the stderr lock (a failed thread dies holding it). Does NOT decide that '
                     'every malformed stream is detected, nor absence of crashes/hangs in the codec.', ref='5 (C07)'),
    'C10': dict(cat='other', tech='conservation laws of the expansion pipeline (shared with C11); path-sensitive abstract exploration over position-comparison facts (LT/EQ/GT relation sets) and candidate bookkeeping flags; who-writes and call-closure rules',
                text='A speculative task gives back its work unit on every path (token laws). Decides that output and failure are determined only where the sequential parser\'s position is '
                     'matched: order_q is fed only by do_parse() with the parser\'s own position; do_reorder() takes the '
                     'order head, writes and fails only for a block not behind it, discards (silently, freed) exactly the '
                     'blocks behind it; can_reorder() is tabulated against its specification; do_scan() creates candidates '
                     'only strictly ahead of the parser; do_parse() adopts a candidate only at exactly its position and '
                     'skips to its end only then; do_retrieve() moves the parser / returns the token only as own job or '
                     'adopted candidate; speculative tasks raise no diagnostic for candidates. Does not decide that equal '
                     'positions imply equal bit offsets (detach() arithmetic).', ref='5 (C10)'),
})

CLAIMED.update({
    'C22': dict(cat='other', tech='effect-set extraction per strcmp literal / switch case over the CFG of opts_setup() compared with the documented option table; ordering (can-follow) rules; provenance of helper semantics; table comparison for the environment variables',
                text='Decides the whole (finite) mapping: every long option, short option letter and invocation name has '
                     'exactly the documented effect set (stores of constants to option variables, opts_outmode/'
                     'opts_decompress with their argument, parser state); the name defaults run once before any option is '
                     'processed; opts_decompress() sets decompress = (ch == \'d\') unconditionally (last wins); -t implies '
                     'decompression; LBZIP2, BZIP2, BZIP in this order, split by strtok at blanks/tabs, each token one '
                     'argument, linked before argv[1..]; --small forced off before the first operand; -S sets a variable '
                     'nothing reads; documented no-ops have the empty effect set. A hand-written replacement of the strtok '
                     'idiom makes the check exit 2 (not decidable here) rather than pass.', ref='5 (C22)'),
    'C09': dict(cat='other', tech='abstract interpretation of emit() against the un-RLE automaton of the format (disjunctive interval/partition/typestate domain, fixpoint over the resume states) (resume-state rules); conservation laws of the expansion pipeline; purity/effect analysis of the decoder units, provenance leaves of codec call arguments, forward slice of scheduler counters in task bodies, SSA re-entry-merge rule for resumable functions, SSA definite-assignment rule, who-reads rule for the output mode',
                text='The resume switch of emit() is checked against the suspension points of its main loop by the abstract walk (what a MORE return saves is exactly what the next call needs), and the token laws of the expansion pipeline (shared with C11) show that no task keeps a work unit or slot: a leak stalls the run only for some worker counts/schedules. Decides the structural reasons the result cannot depend on configuration or schedule: decode.c/parse.c/'
                     'crctab.c keep no state outside what they are handed, store to no global, read only constant tables and '
                     'call nothing outside the codec; arguments of retrieve/decode/emit/parse/scan have no schedule-dependent '
                     'leaf and task bodies neither branch on scheduler counters nor let them flow into block data; every '
                     'local of retrieve() that is live across a suspension point is re-established on re-entry, every '
                     'suspension saves position + the state whose label follows it, emit() restores all carried locals from '
                     'the decoder state, parse() carries no local across words; no local is read before assignment; the output '
                     'mode/descriptor is invisible to pipeline and codec; output order = parser order (C10 rules). Does NOT '
                     'decide attach/detach bit arithmetic or the state numbers of emit().', ref='5 (C09)'),
    'C03': dict(cat='other', tech='polynomial provenance of the chunk size, loop-exit classification of xread()/reader/xwrite(), who-writes rules, purity/effect analysis of the encoder units, forward slice of scheduler counters, path-sensitive tabulation of can_reorder() over position facts, dominance ordering of header/trailer',
                text='Decides the structural reasons the output cannot depend on schedule, worker count or read '
                     'fragmentation: compression chunk size == bs100k*100000 with no other leaf; xread() leaves its loop '
                     'only on read()==0 or a full chunk and the reader stops exactly after a short chunk; chunk numbers '
                     'come from next_id++ in a function only the single reader thread calls; encode.c/divbwt.c/crctab.c '
                     'are pure and their call sites see only the level; task bodies never branch on scheduler counters; '
                     'only do_reorder() feeds the writer, enabled exactly when the lowest queued position equals `order`, '
                     'which only it advances; header before the writer thread exists, trailer after it is joined; xwrite() '
                     'retries short writes. Does NOT decide the position-chain arithmetic.', ref='5 (C03)'),
})

CLAIMED.update({
    'C02': dict(cat='other', tech='abstract interpretation of collect()/encode() against the run-length packer (rules capacity/fourth/data/count/carry/consumed/crc/flush, shared with C04); loop-guard bound of the code lengths; provenance of header/trailer bytes and encoder capacities, per-block advance/fold pairing and write-back (must-store) rule in collect(), who-writes rule and formula of the combined CRC, finite-domain tabulation of the dummy second table from the IR, compile-time witnesses',
                text='What goes into a block is decided by the abstract walk of collect()/encode() built for C04: stores only at the fill cursor and with room, a fourth copy only with its count, counts equal to run length - 4, no block closed with a run of four open, the owed count written by encode(), the saved CRC covering exactly the bytes in the block; every code length assign_codes() stores is bounded by 20 through the loop guards. Decides: header = "BZh" + (\'0\'+level), trailer = 0x177245385090 + combined_crc msb first; every '
                     'encoder_init/encoder_alloc_size site (both collecting tasks) and the input chunk use level*100000; in '
                     'collect() every consumed input byte is folded into the block CRC in the same step, the single un-get '
                     'restores the CRC saved before that fold, an advanced copy of the run state is written back on every '
                     'path to the exit; combined_crc is reset per stream and updated only by do_reorder() as rotl1(c) ^ ~raw, '
                     'with the same inversion transmit() applies; the dummy second table of single-table blocks is a complete '
                     'prefix code with lengths 1..20 for all 256 alphabet sizes; selector/table buffers are sized for the '
                     'format maxima. Does NOT decide table correctness of real blocks, the primary index or the N*100000 '
                     'bound (C04 arithmetic), nor that libbz2 decodes the output.', ref='5 (C02)'),
    'C06': dict(cat='other', tech='abstract interpretation of emit() against the un-RLE automaton of the format (disjunctive interval/partition/typestate domain, fixpoint over the resume states); finite-domain tabulation of delta/selector steps and the header automaton, field-width and limit comparisons read from the IR of retrieve(), table equivalence (rand_table, crc_table), compile-time witnesses, path-sensitive size test in do_reorder()',
                text='emit(): ERR_RUNLEN only when the count is really missing, and every resume state continues exactly where the suspension stopped (abstract walk, lib/unrle.py). Decides that the decoder\'s hard limits are not stricter than the format and that its tables agree with '
                     'it: delta/selector steps equal the reference rule on all cases; the header automaton accepts every '
                     'valid header sequence (concatenated streams of any level, byte alignment, trailing data); field widths '
                     '1/24/16/16/3/15/5; 2..6 tables; 1..32767 selectors with surplus clamped no lower than 18001; primary '
                     'index rejected only when >= block size; the declared-size test uses each stream\'s own level; '
                     'rand_table equals the reference copies under tests/, crc_table the CRC-32/BZIP2 table; buffers hold '
                     'the format maxima. Does NOT decide acceptance of arbitrary valid streams (decoding arithmetic).',
                ref='5 (C06)'),
    'C08': dict(cat='other', tech='abstract interpretation of emit() against the un-RLE automaton of the format (disjunctive interval/partition/typestate domain, fixpoint over the resume states) (space/read rules); finite-domain tabulation of the deque ring arithmetic; SSA definite-assignment rule with constant-phi edge threading, re-entry merge rule for resumable functions, compile-time witnesses, index-closure by structural upper bounds (table maxima, store-side field invariants), symbolic queue capacities, guard rules',
                text='emit() stores only inside the space the caller offered and follows the chain only while input is left; every deque index/head computed from head/size/modulus stays below modulus (tabulated with 32-bit arithmetic). Decides: no local is read before assignment on any path of any function; locals live across suspension '
                     'points of retrieve()/emit() are re-established; every buffer whose size is a function of format '
                     'constants is large enough; every index into a constant table (L/R/RH/RL/table, crc_table, rand_table, '
                     'lg_table, big_dfa columns, ...) is provably below its dimension, the scanner never indexes mini_dfa '
                     'in state ACCEPT; queue capacities cover the token totals; run length and its shift count are bounded; '
                     'the primary index is < block size before tt[] is indexed; input blocks are freed only by the holder '
                     'of the last reference. NO claim about indices computed from stream contents (perm, base, tt, divbwt '
                     'stacks), other shifts or signed overflow.', ref='5 (C08)'),
})

CLAIMED.update({
    'C04': dict(cat='proof', tech='abstract interpretation of collect() and of encode()\'s prologue over a disjunctive domain (intervals for room / input left / carried run length, split at the code\'s own comparisons and never widened; a partition domain for equalities between input bytes; a typestate automaton of the greedy run-length packer advanced by the code\'s stores), fixpoint over the run state carried between calls; block-local symbolic store forwarding and guard/dominance rules for compress.c; polynomial provenance of chunk size and capacity',
                text='Decides, for every block capacity, buffer length, way of splitting the input over calls, run length and '
                     'pattern of equal bytes: collect() stores only at the fill cursor and only with room; takes the fourth '
                     'copy of a run only when its count byte fits too; writes counts equal to run length - 4 and closes a '
                     'run only at 259 or in front of a different byte; declares the block full only with no slot left, or '
                     'with one slot left after three copies when the next byte exists and continues the run; returns "not '
                     'full" only with the buffer exhausted; reports as consumed exactly the bytes that are in the block (a '
                     'byte read ahead is given back, and taken out of the CRC); saves a run state that describes the run '
                     'in progress (with a slot reserved for an owed count); encode() writes the owed count before sorting. '
                     'compress.c: default mode packs every visit of a bs100k*100000-byte chunk into a fresh encoder of '
                     'bs100k*100000 bytes, advances the chunk by what was consumed, re-queues the rest, always finishes the '
                     'block; --sequential never re-initialises a carried encoder, finishes a block only when collect() said '
                     'full or no chunk was left, saves it otherwise. Proof-level for collect()/encode() relative to the '
                     'abstract semantics of lib/rleabs.py; the compress.c part is rule-based. Does NOT decide that the '
                     'reader delivers full chunks (C03) nor anything downstream of the packer.', ref='5 (C04), 13.9'),
})

NA = {
    'C01': 'round-trip equality is a numerical fact about RLE/BWT/MTF/Huffman and its inverse over all byte strings; '
           'no sound static argument in reach bounds it (DESIGN.md section 6); its shape-level fragments are decided '
           'under C02/C03',
    'C20': 'optimality of the Package-Merge/Huffman output is a numerical result (DESIGN.md section 6)',
}
PENDING = 'check not built yet (build round in progress); see DESIGN.md section 5'


def main():
    props = [json.loads(l) for l in open(os.path.join(VERIF, 'properties.jsonl'))]
    checks = []
    na = []
    for p in props:
        pid = p['id']
        if pid in CLAIMED:
            c = CLAIMED[pid]
            checks.append({
                'property_id': pid,
                'quick_cmd': './check %s --tier quick' % pid,
                'thorough_cmd': './check %s --tier thorough' % pid,
                'evidence_file': 'evidence/%s.json' % pid,
                'replay_cmd_template': './check replay {path}',
                'engine': 'static-rules',
                'level_claimed': {'category': c['cat'], 'text': c['text'], 'design_ref': 'DESIGN.md section ' + c['ref']},
                'level_note': TRUST,
                'technique': 'static analysis: ' + c['tech'],
            })
        else:
            na.append({'property_id': pid, 'reason': NA.get(pid, PENDING)})
    m = {
        'version': 1,
        'setup_cmd': './setup.sh',
        'hooks': {
            'guard': 'KJN_LBZIP2_VERIF',
            'enable': 'checks pass -DKJN_LBZIP2_VERIF to every clang invocation; no hook exists in /repo '
                      '(none is needed: static analysis reads the unmodified sources)',
            'baseline_off_cmd': 'cmake -G Ninja -S /repo -B /repo/_build -DCMAKE_BUILD_TYPE=RelWithDebInfo >/dev/null '
                                '&& cmake --build /repo/_build && ctest --test-dir /repo/_build -j8 --timeout 900',
            'source_commits': [],
            'add_only': True,
        },
        'engines': [{'name': 'static-rules', 'path': 'lib/', 'serves_properties': sorted(CLAIMED),
                     'kind_free_text': 'custom static checkers over clang-14 LLVM IR (-O0 and mem2reg form) of the '
                                       'working tree: CFG cuts/dominance, value provenance, lock typestate, lockset '
                                       'race rule, conservation laws, table equivalence, compile-time witnesses'}],
        'checks': checks,
        'not_applicable': na,
        'notes': 'Static analysis only; every check rebuilds IR from /repo (or $VERIF_REPO_ROOT) on each run. exit 0 '
                 'pass, 1 VIOLATION, 2 analysis broken. Genuine defects found: known_findings.json (three, all fixed '
                 'by fix: commits in /repo). selftest/run.py is the seeded-fault battery.',
    }
    json.dump(m, open(os.path.join(VERIF, 'MANIFEST.json'), 'w'), indent=1)
    print('claimed', len(checks), 'n/a', len(na))


if __name__ == '__main__':
    main()

"""Shared helpers for CFG rules (R5): guards of a block, failure edges of a call result, must-reach."""
import cfg
from prov import strip_casts, strip_ext, peel_cond, render, addr_key

FATAL = {'fail', 'failf', 'failx', 'failfx', 'bailout', 'abort'}
WARN = {'warn', 'warnf', 'warnx', 'warnfx'}
INFO = {'info', 'infof', 'infox', 'infofx'}


def guards(f, P, target_block):
    """branch edges every path from entry to target_block must take: [(block, cond expr, polarity)]"""
    out = []
    if not cfg.reaches(f, f.entry.name, target_block):
        return out
    for b in f.blocks.values():
        t = b.term
        if t.op == 'br' and len(t.extra['targets']) == 2:
            tt, ft = t.extra['targets']
            if tt == ft:
                continue
            for pol, edge_t in ((True, tt), (False, ft)):
                if not cfg.reaches(f, f.entry.name, target_block, removed_edges=[(b.name, edge_t)]):
                    out.append((b, P.expr(t.ops[0]), pol))
    # short-circuit lowering: `a && b` branches on phi [false, lhs], [b, rhs]; taking its true edge implies b
    # (and `a || b`: phi [true, lhs], [b, rhs]; taking the false edge implies !b)
    extra = []
    for b, e, pol in out:
        c, p2 = peel_cond(e)
        c = strip_casts(c)
        if c[0] != 'phi' or c[2].block is not b:
            continue
        eff = pol == p2
        nonconst = []
        ok = True
        for v, src in c[2].extra['incoming']:
            if v[0] == 'int':
                if bool(v[1]) == eff:
                    ok = False      # a constant incoming edge already decides the branch our way
            else:
                nonconst.append((v, src))
        if ok and len(nonconst) == 1:
            v, src = nonconst[0]
            extra.append((f.blocks[src], P.expr(v), eff))
    return out + extra


def guard_holds(gs, pred):
    """is there a guard (cond, polarity) such that pred(core_expr, effective_polarity) is true; effective polarity:
    True means 'core is non-zero/true on the path'"""
    for b, e, pol in gs:
        c, p2 = peel_cond(e)
        if pred(strip_casts(c), pol == p2):
            return True
    return False


def is_gload(c, gkey, path=''):
    return c[0] == 'load' and addr_key(c[1]) == 'G:' + gkey + path


def result_tests(f, P, call_ins):
    """branches testing the result of call_ins against a constant: [(block, pred, const, true_target, false_target)]"""
    out = []
    # locations the result is stored to (`ospec.fd = open(...)`; `if (-1 == ospec.fd)`)
    stored_to = []
    for i in f.insns():
        if i.op == 'store':
            v = strip_casts(P.expr(i.ops[0]))
            if v[0] == 'call' and v[2] is call_ins:
                stored_to.append(P.addr(i.ops[1]))

    def is_res(x):
        return (x[0] == 'call' and x[2] is call_ins) or (x[0] == 'load' and x[1] in stored_to)
    for b in f.blocks.values():
        t = b.term
        if t.op != 'br' or len(t.extra['targets']) != 2:
            continue
        c, pol = peel_cond(P.expr(t.ops[0]))
        c = strip_casts(c)
        conds = [(c, pol)]
        if c[0] == 'phi' and c[2].block is b:
            # materialised short-circuit (`bool bad = a || r != 0; if (bad)`): the non-constant inputs of the phi
            # are tests in their own right, decided on the same branch
            conds = []
            for v, src in c[2].extra['incoming']:
                if v[0] != 'int':
                    c2, p2 = peel_cond(P.expr(v))
                    conds.append((strip_casts(c2), pol == p2))
        for c, pol in conds:
          tt, ft = t.extra['targets'] if pol else t.extra['targets'][::-1]
          if c[0] == 'icmp':
            x, y = strip_casts(c[2]), strip_casts(c[3])
            pred = c[1]
            if x[0] == 'const' and y[0] != 'const':
                x, y = y, x
                pred = {'sgt': 'slt', 'slt': 'sgt', 'sge': 'sle', 'sle': 'sge', 'ugt': 'ult', 'ult': 'ugt',
                        'uge': 'ule', 'ule': 'uge'}.get(pred, pred)
            if is_res(x) and y[0] in ('const', 'null'):
                out.append((b, pred, y[1] if y[0] == 'const' else 0, tt, ft))
          elif is_res(c):
            out.append((b, 'ne', 0, tt, ft))
    return out


def failure_edge(f, P, call_ins, kind):
    """(block, failure target, success target) for the usual failure tests: kind '-1' (== -1), 'neg' (< 0),
    'nonzero' (!= 0), 'null' (== NULL)"""
    for b, pred, k, tt, ft in result_tests(f, P, call_ins):
        if kind == '-1' and k == -1 and pred in ('eq', 'ne'):
            return (b, tt, ft) if pred == 'eq' else (b, ft, tt)
        if kind == 'neg' and k == 0 and pred in ('slt', 'sge'):
            return (b, tt, ft) if pred == 'slt' else (b, ft, tt)
        if kind == 'nonzero' and k == 0 and pred in ('ne', 'eq'):
            return (b, tt, ft) if pred == 'ne' else (b, ft, tt)
        if kind == 'null' and k == 0 and pred in ('eq', 'ne'):
            return (b, tt, ft) if pred == 'eq' else (b, ft, tt)
    return None


def must_reach_call(f, start_block, names, stop_at_ret=True):
    """every path from start_block to a return passes a call to one of `names` (paths ending in `unreachable`
    are fine)"""
    blocks = cfg.blocks_calling(f, names)
    if start_block in blocks:
        return True
    rets = [b.name for b in f.blocks.values() if b.term.op == 'ret']
    # constant-phi edge threading: `bool bad = a || b; if (bad) fail();` -- the edge that carries `true` into the
    # phi continues on the true side of the branch
    sm, _ = cfg.threaded_successors(f)
    r = cfg.reachable(f, start_block, removed_blocks=blocks, succ_fn=lambda b: sm.get(b, []))
    return not any(x in r for x in rets)


def calls_between(f, a, b):
    """call instructions that can execute after a and before b"""
    out = []
    for ins in f.calls():
        if ins is a or ins is b:
            continue
        if _after(f, a, ins) and _after(f, ins, b):
            out.append(ins)
    return out


def _after(f, a, b):
    if a.block is b.block and a.idx < b.idx:
        return True
    return any(cfg.reaches(f, s, b.block.name) for s in a.block.succs)


def can_follow(f, a, b):
    """can instruction b execute after instruction a"""
    return _after(f, a, b)


def const_arg(P, ins, k):
    e = strip_casts(P.expr(ins.ops[k]))
    return e[1] if e[0] == 'const' else None


def global_ints(prog, unit, name):
    from irdb import init_ints
    g = prog.glob(unit, name)
    return init_ints(g.init)


def value_dispatch(f, P, is_scrutinee):
    """A dispatch on the value of one expression, written as a `switch` or as a chain of `if (x == K) ... else if`:
    returns (cases {K: target block}, default target block, scrutinee expr, anchor insn) or None."""
    from prov import cmp_norm
    for i in f.insns():
        if i.op == 'switch':
            sv = strip_casts(P.expr(i.ops[0]))
            if is_scrutinee(sv):
                return dict(i.extra['cases']), i.extra['default'], sv, i
    # chain of equality tests
    tests = {}
    for b in f.blocks.values():
        t = b.term
        if t.op == 'br' and len(t.extra['targets']) == 2:
            c, pol = peel_cond(P.expr(t.ops[0]))
            cn = cmp_norm(c)
            if cn and cn[0] in ('eq', 'ne') and cn[2][0] == 'const' and is_scrutinee(strip_casts(cn[1])):
                eq_t = t.extra['targets'][0] if (cn[0] == 'eq') == pol else t.extra['targets'][1]
                ne_t = t.extra['targets'][1] if (cn[0] == 'eq') == pol else t.extra['targets'][0]
                tests[b.name] = (cn[2][1], eq_t, ne_t, t, strip_casts(cn[1]))
    if not tests:
        return None
    # the chain: a test block whose not-equal successor is the next test block; default = last not-equal target
    heads = [bn for bn in tests if not any(tests[o][2] == bn for o in tests)]
    if len(heads) != 1:
        return None
    cases = {}
    bn = heads[0]
    anchor = tests[bn][3]
    scr = tests[bn][4]
    seen = set()
    while bn in tests and bn not in seen:
        seen.add(bn)
        k, eq_t, ne_t, t, _ = tests[bn]
        cases.setdefault(k, eq_t)
        bn = ne_t
    return cases, bn, scr, anchor

"""C09 Decompression result is independent of configuration and schedule -- structural clauses.

 (a) decoder code (decode.c, parse.c, crctab.c) has no memory outside the per-block state it is handed and sees no
     scheduler state; the arguments expand.c passes to it depend on nothing schedule-dependent;
 (b) resuming retrieve()/emit()/parse() after a suspension (which happens wherever an input or output buffer
     boundary falls) re-establishes every local it uses; every suspension saves the position and the right state;
     no local is read before assignment on any path;
 (c) the output mode and descriptor are invisible to the pipeline (read only in main.c and by the writer);
 (d) blocks reach the writer in parser order only (rules shared with C10).
Does not decide the attach/detach bit arithmetic or the state numbers of emit() (numerical)."""
import cfg, codecrules
from irdb import broken
from prov import Prov, addr_key
from props import c10, c05

LEVEL = 'other'


def outmode_invisible(ctx, prog):
    bad = []
    n = 0
    for unit in ('expand', 'decode', 'parse', 'compress', 'encode', 'divbwt'):
        m = prog.module(unit)
        for f in m.funcs.values():
            P = Prov(prog, f)
            for i in f.insns():
                if i.op == 'load':
                    n += 1
                    k = addr_key(P.addr(i.ops[0]))
                    if k.startswith('G:ospec') or k.startswith('G:main:outmode') or k == 'G:outmode':
                        bad.append('%s reads %s at %s' % (f.name, k, f.loc(i)))
    ctx.ob('C09.outmode_invisible', 'neither the decompression pipeline nor the codec reads the output mode or the '
           'output descriptor (output goes through sink_write_buffer only)', 'src/expand.c', not bad, '; '.join(bad[:4]) or
           '%d loads examined' % n, evals=n)


def run(ctx):
    prog = ctx.prog('ssa')
    ctx.explain('C09: purity of decode.c/parse.c/crctab.c, isolation of their call sites in expand.c, re-establishment '
                'of locals across suspension points of retrieve()/emit()/parse(), definite assignment in SSA form, '
                'invisibility of the output mode, parser-order output (shared with C10).')
    codecrules.purity(ctx, prog, 'C09', units=('decode', 'parse', 'crctab'))
    codecrules.call_site_isolation(ctx, prog, 'C09', 'expand', {'retrieve', 'decode', 'emit', 'parse', 'scan',
                                                                'decoder_init', 'decoder_free', 'parser_init'},
                                   allowed_globals={'bs100k', 'in_granul', 'out_granul'})
    codecrules.schedule_values_confined(ctx, prog, 'C09', ('expand',))
    codecrules.resume(ctx, prog, 'C09')
    codecrules.unrle_walk(ctx, prog, 'C09')
    c05.parse_fsm_rule(ctx, prog, pfx='C09', crc_bits=False)
    codecrules.uninit(ctx, prog, 'C09', units=('decode', 'parse', 'expand'))
    outmode_invisible(ctx, prog)
    c10.order_feed(ctx, prog)
    c10.reorder_cut(ctx, prog)
    c10.can_reorder_rule(ctx, prog)
    # the result includes terminating: a work unit / slot that is not given back stalls the pipeline for some worker
    # counts and schedules only (token conservation laws of the expansion pipeline, shared with C11)
    import conc
    from props import c11
    c11.r3(ctx, prog, conc.Analysis(prog), only_modes=('expan',), floor=10)

"""C02 Compressed output is a strictly well-formed bzip2 stream -- structural clauses.

 (a) the level N is what the stream is built from wherever the format needs it: header digit '0'+bs100k, encoder
     capacity bs100k*100000 at every encoder_init/encoder_alloc_size site (both sibling tasks), input chunk size;
     header and trailer magic bytes; the trailer carries the four bytes of combined_crc, most significant first;
 (b) the block CRC is folded over exactly the bytes consumed into the block: in collect(), every advance of the
     input pointer is paired with one fold through crc_table in the same step, the single un-get restores the CRC
     saved before the matching fold; the run state cached from *s is written back on every path to the exit; block
     CRCs are combined only by do_reorder (in stream order, C03) and the combination starts from 0 for every stream;
 (c) the dummy second table generated for single-table blocks is a complete prefix code with lengths in 1..20 for
     every alphabet size 3..258 (tabulated from the IR over the whole finite domain);
 (d) selector / table buffers are sized for the format maxima (compile-time witnesses).
Does not decide that real blocks carry correct tables, an in-range primary index or at most N*100000 bytes (C04's
arithmetic), nor that libbz2 decodes them."""
import cfg, conc, rules, witness, codecrules
from frag import Frag, Ptr, Unknown
from irdb import broken, reg_var_names, enumerators, var_roles
from prov import Prov, strip_casts, strip_ext, addr_key, path_key, render, poly, peel_cond, cmp_norm
from props import c03, c15

LEVEL = 'other'


def _bytes_written(prog, fname, globals_):
    """tabulate a straight-line writer: the bytes it hands to xwrite(), for given values of the globals it reads"""
    f = prog.func('compress', fname)
    out = []

    def oracle(key, ins):
        root, path = key
        if root[0] == 'G' and root[1] in globals_ and not path:
            return globals_[root[1]]
        raise Unknown('load of %r' % (key,))
    fr = Frag(prog, f, oracle=oracle)

    def xwrite(ptr, size):
        if not isinstance(ptr, Ptr) or isinstance(size, Ptr):
            raise Unknown('xwrite with unexpected operands')
        bs = []
        for i in range(size):
            path = list(ptr.path)
            if path and isinstance(path[-1], int):
                path[-1] += i
            else:
                path.append(i)
            k = (ptr.root, tuple(path))
            if k not in fr.mem:
                raise Unknown('byte %d of the buffer passed to xwrite was never written' % i)
            bs.append(fr.mem[k] & 0xFF)
        out.append(bytes(bs))
        return None
    fr.intrinsics['xwrite'] = xwrite
    r = fr.run(f.entry.name)
    return out


def level_plumbing(ctx, prog):
    f = prog.func('compress', 'write_header')
    bad = []
    try:
        for lvl in range(1, 10):
            got = _bytes_written(prog, 'write_header', {'bs100k': lvl})
            if got != [b'BZh' + bytes([0x30 + lvl])]:
                bad.append('level %d: %r' % (lvl, got))
    except Unknown as e:
        broken('write_header() could not be tabulated: %s' % e)
    ctx.ob('C02.header', 'the stream header is the four bytes "BZh" and \'0\' + level, for every level 1..9 (tabulated)',
           f.loc(), not bad, '; '.join(bad[:3]) or '9 levels', evals=9)
    g = prog.func('compress', 'write_trailer')
    bad = []
    n = 0
    try:
        for crc in [0, 0xFFFFFFFF, 0x12345678, 0x80000001] + [1 << k for k in range(32)]:
            n += 1
            got = _bytes_written(prog, 'write_trailer', {'combined_crc': crc})
            want = bytes([0x17, 0x72, 0x45, 0x38, 0x50, 0x90]) + crc.to_bytes(4, 'big')
            if got != [want]:
                bad.append('crc %#x: %r' % (crc, got))
    except Unknown as e:
        broken('write_trailer() could not be tabulated: %s' % e)
    ctx.ob('C02.trailer', 'the stream trailer is 0x177245385090 followed by combined_crc, most significant byte first '
           '(tabulated for every single bit of the CRC)', g.loc(), not bad, '; '.join(bad[:3]) or '%d values' % n, evals=n)
    P = Prov(prog, f)
    # capacity at every encoder site
    m = prog.module('compress')
    n = 0
    bad = []
    for h in m.funcs.values():
        Ph = Prov(prog, h)
        for c in h.calls():
            nm = c.extra.get('callee')
            if nm == 'encoder_alloc_size':
                arg = c.ops[0]
            elif nm == 'encoder_init':
                arg = c.ops[1]
            else:
                continue
            n += 1
            if c03._lvl_poly(Ph, Ph.expr(arg)) != c03.LEVEL_TIMES_100000:
                bad.append('%s: %s(%s)' % (h.loc(c), nm, render(Ph.expr(arg))))
    ctx.floor('C02 encoder_init/encoder_alloc_size sites', n, 2)
    ctx.ob('C02.capacity', 'every encoder is allocated and initialised for bs100k*100000 bytes (all %d sites, both '
           'collecting tasks)' % n, 'src/compress.c', not bad, '; '.join(bad))
    # combined CRC: reset per stream, combined only in do_reorder with the polynomial rotl1(a) ^ b
    ci = prog.func('compress', 'init')
    Pi = Prov(prog, ci)
    rs = [i for i in ci.insns() if i.op == 'store' and addr_key(Pi.addr(i.ops[1])) == 'G:compress:combined_crc']
    dom = cfg.dominators(ci)
    rets = [b.name for b in ci.blocks.values() if b.term.op == 'ret']
    ctx.ob('C02.stream_crc', 'the combined CRC starts from 0 for every stream (init() stores 0 on every path)', ci.loc(),
           len(rs) >= 1 and all(strip_casts(Pi.expr(i.ops[0])) == ('const', 0) for i in rs) and
           all(any(i.block.name in dom[r] for i in rs) for r in rets), '')
    writers = {}
    for h in m.funcs.values():
        Ph = Prov(prog, h)
        for i in h.insns():
            if i.op == 'store' and addr_key(Ph.addr(i.ops[1])) == 'G:compress:combined_crc':
                writers.setdefault(h.name, []).append(strip_casts(Ph.expr(i.ops[0])))
    okw = set(writers) == {'init', 'do_reorder'}
    okf = False
    if okw and len(writers['do_reorder']) == 1:
        v = writers['do_reorder'][0]
        # ((c << 1) ^ (c >> 31)) ^ crc   in any association
        leaves = []

        def flat(e):
            e = strip_casts(e)
            if e[0] == 'bin' and e[1] in ('xor', 'or'):
                flat(e[2])
                flat(e[3])
            else:
                leaves.append(e)
        flat(v)
        kinds = set()
        for e in leaves:
            if e[0] == 'bin' and e[1] == 'shl' and strip_casts(e[3]) == ('const', 1) and 'combined_crc' in render(e[2]):
                kinds.add('shl1')
            elif e[0] == 'bin' and e[1] == 'lshr' and strip_casts(e[3]) == ('const', 31) and 'combined_crc' in render(e[2]):
                kinds.add('shr31')
            elif e[0] == 'load' and path_key(e[1][2]).endswith('.crc'):
                kinds.add('blockcrc')
            elif e in (('const', -1), ('const', 0xFFFFFFFF)):
                kinds.add('invert')
            else:
                kinds.add('other:' + render(e)[:30])
        # the block CRC travels un-inverted (encode() hands out s->block_crc as accumulated); it is inverted once
        # here and once where transmit() writes it into the block header
        okf = kinds == {'shl1', 'shr31', 'blockcrc', 'invert'} and len(leaves) == 4
        en = prog.func('encode', 'encode')
        Pe = Prov(prog, en)
        raw = [i for i in en.insns() if i.op == 'store' and strip_casts(Pe.expr(i.ops[1]))[0] == 'param' and
               strip_casts(Pe.expr(i.ops[0]))[0] == 'load' and
               path_key(strip_casts(Pe.expr(i.ops[0]))[1][2]).endswith('.block_crc')]
        tr = prog.func('encode', 'transmit')
        Pt = Prov(prog, tr)
        inv = False
        for i in tr.insns():
            if i.op == 'xor':
                e = strip_casts(Pt.expr(('reg', i.res)))
                ops = [strip_casts(e[2]), strip_casts(e[3])]
                if any(o in (('const', -1), ('const', 0xFFFFFFFF)) for o in ops) and \
                        any(o[0] == 'load' and path_key(o[1][2]).endswith('.block_crc') for o in ops):
                    inv = True
        okf = okf and len(raw) == 1 and inv
    ctx.ob('C02.stream_crc', 'combined_crc is updated only by do_reorder(): rotl1(combined) ^ ~raw block CRC, the same inversion transmit() '
           'applies to the CRC it writes into the block header',
           'src/compress.c', okw and okf, str({k: [render(x)[:80] for x in v] for k, v in writers.items()}))


def collect_rules(ctx, prog):
    f = prog.func('encode', 'collect')
    P = Prov(prog, f)
    names = reg_var_names(f)
    roles = var_roles(f, P)
    P_NAME = roles.get('param:inbuf', 'p')          # the input cursor: the local initialised from `inbuf`
    CRC_NAME = roles.get('.block_crc', 'crc')       # the accumulator: the local initialised from s->block_crc
    nb = 0
    bad = []
    unget = []
    fold_in = {}
    for bl in f.blocks.values():
        folds = [i for i in bl.insns if i.op == 'load' and addr_key(P.addr(i.ops[0])).startswith('G:crc_table')]
        adv = []
        for i in bl.insns:
            if i.op == 'getelementptr' and len(i.ops) == 2 and i.ops[1][0] == 'int' and i.ops[0][0] == 'reg' and \
                    names.get(i.ops[0][1]) == P_NAME:
                adv.append(i.ops[1][1])
        if not folds and not adv:
            continue
        nb += 1
        plus = sum(1 for a in adv if a == 1)
        minus = sum(1 for a in adv if a == -1)
        if any(a not in (1, -1) for a in adv):
            bad.append('%s: input pointer moved by %s' % (f.loc(bl.insns[0]), adv))
        if minus:
            unget.append(bl)
        if plus != len(folds):
            bad.append('%s: %d input byte(s) consumed, %d CRC fold(s)' % (f.loc(bl.insns[0]), plus, len(folds)))
        for ld in folds:
            # fold input: crc_table[(crc >> 24) ^ x]: remember the crc register entering the fold
            a = P.addr(ld.ops[0])
            ix = a[2][-1][1] if a[2] and a[2][-1][0] == 'i' else None
            if isinstance(ix, tuple):
                ixe = strip_ext(ix)
                if ixe[0] == 'bin' and ixe[1] == 'xor':
                    for part in (strip_ext(ixe[2]), strip_ext(ixe[3])):
                        if part[0] == 'bin' and part[1] == 'lshr' and strip_casts(part[3]) == ('const', 24):
                            fold_in.setdefault(bl.name, strip_casts(part[2]))
    ctx.floor('C02 collect(): blocks consuming input', nb, 8)
    ctx.ob('C02.block_crc', 'collect(): every input byte consumed is folded into the block CRC in the same step',
           f.loc(), not bad, '; '.join(bad[:3]) or '%d basic blocks, one advance and one fold each' % nb, evals=nb)
    # the un-get: p-- together with crc = (the CRC as it was before the fold of the byte given back)
    oku = len(unget) == 1
    detail = ''
    if oku:
        ub = unget[0]
        dom = cfg.dominators(f)
        # nearest dominating fold block
        cands = [bn for bn in fold_in if bn in dom[ub.name] and bn != ub.name]
        best = None
        for c in cands:
            if best is None or best in dom[c]:
                best = c
        # crc value leaving the un-get block: the incoming value of the crc phi in its successor
        out = None
        for s in ub.succs:
            for i in f.blocks[s].insns:
                if i.op == 'phi' and names.get(i.res) == CRC_NAME:
                    for v, src in i.extra['incoming']:
                        if src == ub.name:
                            out = strip_casts(P.expr(v))
        oku = best is not None and out is not None and out == fold_in[best]
        detail = 'restored %s, CRC before the matching fold %s' % (render(out) if out else None,
                                                                  render(fold_in[best]) if best else None)
    ctx.ob('C02.block_crc', 'collect(): the single un-get (p--) restores the CRC saved before the fold of that byte',
           f.loc(unget[0].insns[0]) if unget else f.loc(), oku, detail)
    # exit: s->block_crc = crc, s->nblock = q - block, *buf_sz -= p - inbuf
    rets = [b for b in f.blocks.values() if b.term.op == 'ret']
    ctx.require(len(rets) == 1, 'collect(): expected a single return block')
    dom = cfg.dominators(f)
    need = {'.block_crc': False, '.nblock': False}
    for bn in dom[rets[0].name]:
        for i in f.blocks[bn].insns:
            if i.op == 'store':
                pk = path_key(P.addr(i.ops[1])[2])
                if pk in need:
                    need[pk] = True
    ctx.ob('C02.block_crc', 'collect() stores the CRC and the block length back into the encoder state on every exit',
           f.loc(rets[0].term), all(need.values()), str(need))
    writeback(ctx, prog, f, P, 'rle_state')
    # what is written into the block (copies, counts, the owed count at a block end) and the CRC that goes with it:
    # the abstract walk of collect()/encode() (lib/rleabs.py, built for C04) -- it replaces the structural
    # 'owed count' rule, which alarmed on behaviour-preserving rewrites of collect()
    from props import c04
    ent = c04.collect_rule(ctx, prog, pfx='C02', only=('capacity', 'fourth', 'data', 'count', 'carry', 'consumed', 'crc', 'assert'))
    c04.flush_rule(ctx, prog, ent, pfx='C02')


def owed_count_rule(ctx, prog):
    """collect(): a run of four or more equal bytes is written as four copies plus a count byte; while the count is
    owed (rle_state >= 4 on entry, i.e. the run continues from the previous buffer) one slot of the block is
    reserved for it.  The block may therefore be closed (rle_state = -1) before the count byte has been written
    only on the branch `q > qMax`, which the reservation excludes -- never merely because the block is full."""
    from pathsens import Explorer
    f = prog.func('encode', 'collect')
    P = Prov(prog, f)

    def is_state(a):
        return path_key(a[2]).endswith('.rle_state')

    def full_fact(c):
        cn = cmp_norm(c)
        if not cn:
            return None
        pred, x, y = cn
        x, y = strip_casts(x), strip_casts(y)
        # write cursor (a loop-carried pointer) against the loop-invariant last slot
        def inv(e):
            return e[0] == 'addr' and e[1][0] == 'V'
        if x[0] == 'phi' and inv(y) and pred in ('ugt', 'uge', 'ule', 'ult'):
            return {'ugt': ('q>lim', True), 'ule': ('q>lim', False), 'uge': ('q>=lim', True), 'ult': ('q>=lim', False)}[pred]
        return None
    ex = Explorer(prog, f, {'state': is_state}, [(None, full_fact)], P)
    events = []

    def on_insn(ins, st):
        if ins.op == 'store' and ins.extra.get('vty') == ('int', 8):
            v = strip_casts(P.expr(ins.ops[0]))
            # the count byte: (run length - 4), or the constant 255 for a run cut at its maximal length
            if (v[0] == 'bin' and v[1] in ('sub', 'add') and strip_casts(v[3]) in (('const', 4), ('const', -4))) or \
                    v == ('const', 255) or v == ('const', -1):
                st['facts']['count_written'] = True

    def on_store(ins, n, st):
        if n == 'state' and st['cells'].get('state') == -1:
            events.append((ins, dict(st['facts']), st['facts'].get('entry_state')))
    init = []
    for s0 in (4, 5, 100, 258):
        init.append({'cells': {'state': s0}, 'facts': {'entry_state': s0}})
    ex.explore(init, on_store=on_store, on_insn=on_insn)
    ctx.floor('C02 collect(): block-close events explored with a run count owed', len(events), 1)
    bad = []
    for ins, fa, s0 in events:
        if fa.get('count_written'):
            continue
        if fa.get('q>lim') is not True:
            bad.append('%s: the block is closed with a run count still owed (entry state %s) although q > qMax does '
                       'not hold on this path (facts %s)' % (f.loc(ins), s0, {k: v for k, v in fa.items() if k.startswith('q')}))
    ctx.ob('C02.block_crc', 'collect(): with a run count owed from the previous buffer the block is never closed before '
           'the count byte is written (except on the excluded branch q > qMax)', f.loc(), not bad,
           '; '.join(sorted(set(bad))[:2]) or '%d close events' % len(events), evals=len(events))


def writeback(ctx, prog, f, P, field):
    """A value read from s-><field>, incremented and (on some path) stored back must be stored back on every path
    from the increment to the return: otherwise an updated run length is lost when the input buffer ends."""
    def from_field(e, seen=None, depth=0):
        seen = seen if seen is not None else set()
        e = strip_casts(e)
        if e[0] == 'load' and path_key(e[1][2]).endswith('.' + field):
            return True
        if depth > 30:
            return False
        if e[0] == 'phi':
            if e[1] in seen:
                return False
            seen.add(e[1])
            return any(from_field(x, seen, depth + 1) for x, _ in P.phi_inputs(e))
        if e[0] == 'bin' and e[1] in ('add', 'sub'):
            return from_field(e[2], seen, depth + 1)
        return False
    incs = []
    for i in f.insns():
        if i.op == 'add' and i.ops[1] == ('int', 1):
            if from_field(P.expr(i.ops[0])):
                incs.append(i)
    stores = [i for i in f.insns() if i.op == 'store' and path_key(P.addr(i.ops[1])[2]).endswith('.' + field)]
    ctx.floor('C02 collect(): increments of the cached run length', len(incs), 2)
    rets = [b.name for b in f.blocks.values() if b.term.op == 'ret']
    bad = []
    for inc in incs:
        same = [s for s in stores if s.block is inc.block and s.idx > inc.idx and derives(P, P.expr(s.ops[0]), inc)]
        if same:
            continue            # s->field++ : read, add, write in one step
        # a local copy of the field is being advanced: before the function returns the field must be written
        # (with the advanced value, or overwritten by the state machine) on every path
        blocks = {s.block.name for s in stores}
        r = cfg.reachable(f, inc.block.name, removed_blocks=blocks - {inc.block.name})
        if any(x in r for x in rets):
            path = cfg.find_path(f, inc.block.name, rets[0], removed_blocks=blocks - {inc.block.name})
            bad.append('%s: the advanced copy of s->%s can reach the return without the field being written (path %s)' % (
                f.loc(inc), field, ' -> '.join(path[:8]) if path else '?'))
    ctx.ob('C02.block_crc', 'collect(): an incremented run length (s->%s) is written back on every path to the exit' %
           field, f.loc(), not bad, '; '.join(bad[:2]) or '%d increments' % len(incs), evals=len(incs))


def derives(P, e, ins, seen=None, depth=0):
    seen = seen if seen is not None else set()
    e = strip_casts(e)
    if depth > 30:
        return False
    if e[0] == 'bin':
        # the expression tree does not keep the instruction: compare by structure with the increment's own tree
        if e == strip_casts(P.expr(('reg', ins.res))):
            return True
        return derives(P, e[2], ins, seen, depth + 1) or derives(P, e[3], ins, seen, depth + 1)
    if e[0] == 'phi':
        if e[1] in seen:
            return False
        seen.add(e[1])
        return any(derives(P, x, ins, seen, depth + 1) for x, _ in P.phi_inputs(e))
    return False


def dummy_table(ctx, prog):
    """(c) single-table blocks get a dummy second table: tabulate its code lengths for every alphabet size"""
    f = prog.func('encode', 'generate_prefix_code')
    P = Prov(prog, f)
    names = reg_var_names(f)
    dom = cfg.dominators(f)
    # the branch `nt == 1`
    start = None
    for b in f.blocks.values():
        t = b.term
        if t.op == 'br' and len(t.extra['targets']) == 2:
            c, pol = peel_cond(P.expr(t.ops[0]))
            cn = cmp_norm(c)
            if cn and cn[0] == 'eq' and cn[2] == ('const', 1) and strip_casts(cn[1])[0] == 'phi':
                cand = t.extra['targets'][0 if pol else 1]
                # the "only one table" branch: its region stores code lengths (bytes) in a loop
                reg = {bn for bn in f.blocks if bn in dom and cand in dom[bn]}
                if any(i.op == 'store' and i.extra.get('vty') == ('int', 8) for bn in reg for i in f.blocks[bn].insns):
                    start = cand
    ctx.require(start is not None, 'generate_prefix_code(): the `nt == 1` branch (dummy second table) vanished')
    region = {bn for bn in f.blocks if bn in dom and start in dom[bn]}
    # the alphabet size: last MTF value + 1, computed once at the top of the function
    as_regs = []
    for r, d in f.defs.items():
        if d.op == 'add' and d.block is f.entry and d.ops[1] == ('int', 1):
            e = strip_casts(P.expr(d.ops[0]))
            if e[0] == 'load' and d.ty == ('int', 32):
                as_regs.append(r)
    ctx.require(len(as_regs) == 1, 'generate_prefix_code(): alphabet size (last MTF value + 1) not found')
    bad = []
    unknown = []
    n = 0
    for asz in range(3, 259):
        n += 1
        regs = {r: asz for r in as_regs}
        # values carried into the region by merges outside it (the running cost) do not influence the code
        # lengths: give them a neutral value
        for r, d in f.defs.items():
            if d.op == 'phi' and d.block.name not in region and d.ty == ('int', 32) and r not in regs:
                regs[r] = 0
        asked = []

        def oracle(key, ins, asked=asked):
            # the only thing the fragment reads from the encoder state is the slot of the single real table
            # (tmap_new2old[0]); the dummy goes to the other slot of the pair (slot ^ 1)
            asked.append(key)
            if len(asked) > 1 and key != asked[0]:
                raise Unknown('second distinct load from the encoder state: %r' % (key,))
            return 0
        fr = Frag(prog, f, regs=regs, oracle=oracle, max_steps=20000)
        try:
            r = fr.run(start, stop=lambda ins, fr_: ins.block.name not in region)
        except Unknown as e:
            unknown.append((asz, str(e)))
            continue
        # the code-length table: the group of byte stores indexed [slot][symbol]
        groups = {}
        for key, v, ins in fr.stores:
            root, path = key
            if ins.extra.get('vty') == ('int', 8) and len(path) >= 2 and isinstance(path[-1], int) and isinstance(path[-2], int):
                groups.setdefault((root, path[:-1]), {})[path[-1]] = v
        lens = {}
        tsel = None
        if groups:
            (root, pre), lens = max(groups.items(), key=lambda kv: len(kv[1]))
            tsel = pre[-1]
        got = [lens.get(v) for v in range(asz)]
        if any(x is None for x in got):
            bad.append((asz, 'symbols without a length: %s' % [v for v in range(asz) if lens.get(v) is None][:5]))
            continue
        if any(not 1 <= x <= 20 for x in got):
            bad.append((asz, 'length outside 1..20: %s' % sorted(set(got))))
            continue
        kraft = sum(1 << (20 - x) for x in got)
        if kraft != 1 << 20:
            bad.append((asz, 'not a complete prefix code (Kraft sum %d/1048576)' % kraft))
        if tsel != 1:
            bad.append((asz, 'dummy table written to slot %r (expected the other slot, 1)' % tsel))
    if unknown:
        broken('C02 dummy-table fragment could not be tabulated: %s' % (unknown[:2],))
    ctx.ob('C02.dummy_table', 'the dummy second table of a single-table block is a complete prefix code with lengths '
           '1..20 for every alphabet size 3..258', f.loc(f.blocks[start].insns[0]), not bad,
           '%d alphabet sizes' % n if not bad else str(bad[:4]), evals=n)


def block_header(ctx, prog):
    """transmit(): the first 96 bits of every block, tabulated: 48-bit magic, inverted block CRC, randomisation bit
    0, primary index"""
    from parsefsm import bswap32
    import random
    f = prog.func('encode', 'transmit')
    lp = cfg.loops(f)
    rnd = random.Random(7)
    bad = []
    unknown = []
    n = 0
    cases = [(0, 0), (0xFFFFFFFF, 0xFFFFFF)] + [(1 << k, 0) for k in range(32)] + [(0, 1 << k) for k in range(24)] + \
        [(rnd.getrandbits(32), rnd.getrandbits(24)) for _ in range(16)]
    for crc, idx in cases:
        n += 1

        def oracle(key, ins, crc=crc, idx=idx):
            root, path = key
            if path and path[-1] == 'block_crc':
                return crc
            if path and path[-1] == 'bwt_idx':
                return idx
            if path and path[-1] == 'nmtf':
                return 100
            if path and path[-1] in ('out_expect_len', 'max_block_size'):
                return 1000
            if root == ('param', 's') and 'SA' in path:
                return 5        # mtfv[nmtf-1]: the EOB symbol number (alphabet size - 1)
            raise Unknown('load of %r' % (key,))
        fr = Frag(prog, f, regs={'buf': Ptr(('out',), (0,), 4)}, oracle=oracle, intrinsics={'htonl': bswap32, 'ntohl': bswap32})
        try:
            fr.run(f.entry.name, stop=lambda ins, fr_: ins.block.name in lp)
        except Unknown as e:
            unknown.append(str(e))
            continue
        words = [fr.mem.get((('out',), (k,))) for k in range(3)]
        if any(w is None for w in words):
            bad.append('fewer than three words written before the character map')
            continue
        bits = 0
        for w in words:
            bits = (bits << 32) | bswap32(w)
        magic = bits >> 48
        gotcrc = (bits >> 16) & 0xFFFFFFFF
        rand = (bits >> 15) & 1
        idx15 = bits & 0x7FFF
        if magic != 0x314159265359:
            bad.append('block magic %#x' % magic)
        if gotcrc != (crc ^ 0xFFFFFFFF):
            bad.append('stored CRC %#x for accumulated %#x' % (gotcrc, crc))
        if rand != 0:
            bad.append('randomisation bit set')
        if idx15 != idx >> 9:
            bad.append('primary index bits %#x for index %#x' % (idx15, idx))
    if unknown:
        broken('C02 block header fragment of transmit() could not be tabulated: %s' % unknown[:2])
    ctx.ob('C02.block_header', 'every block starts with 0x314159265359, the inverted accumulated CRC (all 32 bits), '
           'randomisation bit 0 and the primary index', f.loc(), not bad, '; '.join(sorted(set(bad))[:3]) or
           '%d (crc, index) cases incl. every single bit' % n, evals=n)


def witnesses(ctx, prog):
    r = witness.check(ctx, 'encode', [
        ('at most 18002 selectors fit selector[]', 'sizeof(((struct encoder_state *)0)->u.s.selector) == 18002'),
        ('MAX_TREES == 6 and MIN_TREES == 2', 'MAX_TREES == 6 && MIN_TREES == 2'),
        ('MAX_CODE_LENGTH == 20', 'MAX_CODE_LENGTH == 20'),
        ('GROUP_SIZE == 50', 'GROUP_SIZE == 50'),
        ('MAX_BLOCK_SIZE == 900000', 'MAX_BLOCK_SIZE == 900000'),
        ('tables have room for MAX_ALPHA_SIZE symbols + sentinel',
         'sizeof(((struct encoder_state *)0)->u.s.length[0]) >= MAX_ALPHA_SIZE + 1'),
    ])
    for name, ok in r.items():
        ctx.ob('C02.witness', name, 'src/encode.c', ok, 'evaluated by the compiler')


def run(ctx):
    prog = ctx.prog('ssa')
    A = conc.Analysis(prog)
    ctx.explain('C02: provenance of header/trailer bytes and encoder capacities, per-block pairing of input advance and '
                'CRC fold in collect() with the un-get rule and the write-back rule, who-writes rule and formula of the '
                'combined CRC, tabulation of the dummy second table over all 256 alphabet sizes, compile-time witnesses, '
                'chunk size and writer-order rules shared with C03.')
    level_plumbing(ctx, prog)
    c03.chunking(ctx, prog, A)
    collect_rules(ctx, prog)
    dummy_table(ctx, prog)
    code_length_bound(ctx, prog)
    block_header(ctx, prog)
    witnesses(ctx, prog)
    c15.table_rule(ctx, prog, pfx='C02')
    c03.writer_order(ctx, prog, A)


def _loop_ub(f, P, e, at_block, memo=None, depth=0):
    """upper bound of an unsigned loop-carried value at the head of `at_block`: constants, or what a guard that every
    path to the block takes compares the value with (recursively); BIG when nothing bounds it"""
    BIG = 1 << 62
    memo = memo if memo is not None else {}
    e = strip_casts(e)
    if e[0] == 'const':
        return e[1]
    if depth > 12:
        return BIG
    if e[0] == 'trunc' or e[0] == 'ext':
        return _loop_ub(f, P, e[-1], at_block, memo, depth + 1)
    key = (e[0], e[1] if e[0] == 'phi' else id(e), at_block)
    if key in memo:
        return memo[key]
    memo[key] = -1          # in progress: neutral for the max over phi inputs
    best = BIG
    for blk, cond, pol in rules.guards(f, P, at_block):
        core, p2 = peel_cond(cond)
        cn = cmp_norm(strip_casts(core))
        if cn is None:
            continue
        pred, x, y = cn
        eff = pol == p2
        if strip_casts(x) != e:
            continue
        ub_y = _loop_ub(f, P, y, blk.name, memo, depth + 1)
        if ub_y < 0:
            continue
        if pred in ('ule', 'sle') and eff:
            best = min(best, ub_y)
        elif pred in ('ult', 'slt') and eff:
            best = min(best, ub_y - 1)
        elif pred in ('ugt', 'sgt') and not eff:
            best = min(best, ub_y)
        elif pred in ('uge', 'sge') and not eff:
            best = min(best, ub_y - 1)
    if best == BIG and e[0] == 'phi':
        m = -1
        for v, src in e[2].extra['incoming']:
            u = _loop_ub(f, P, P.expr(v), src, memo, depth + 1)
            m = max(m, u)
        best = m if m >= 0 else BIG
    memo[key] = best
    return best


def code_length_bound(ctx, prog):
    """no prefix code longer than 20 bits is ever put into a table: every length assign_codes() stores is a loop
    counter bounded (through the loop guards) by MAX_CODE_LENGTH, which is 20; the clustering lengths of
    make_code_lengths() (up to 30) never reach transmit() because assign_codes() rewrites every table that is used"""
    f = prog.func('encode', 'assign_codes')
    P = Prov(prog, f)
    lp = [n for t, n in f.params][1]
    sites = []
    for i in f.insns():
        if i.op != 'store' or i.extra.get('vty') != ('int', 8):
            continue
        a = P.addr(i.ops[1])
        if a[1][0] == 'V' and strip_casts(a[1][1])[0] == 'param' and strip_casts(a[1][1])[2] == lp:
            sites.append(i)
    ctx.floor('C02 assign_codes(): stores into the length table', len(sites), 2)
    bad = []
    for i in sites:
        u = _loop_ub(f, P, P.expr(i.ops[0]), i.block.name)
        if not (0 <= u <= 20):
            bad.append('%s: length stored is only known to be <= %s' % (f.loc(i), u if u < (1 << 60) else 'unbounded'))
    ctx.ob('C02.codelen', 'assign_codes(): every code length stored is bounded by the loop guards by 20 (no prefix code '
           'longer than 20 bits, the format\'s and the decoder\'s limit)', f.loc(sites[0]), not bad, '; '.join(bad))
    # every table generate_prefix_code() leaves for transmit() went through assign_codes()
    g = prog.func('encode', 'generate_prefix_code')
    Pg = Prov(prog, g)
    ac = [c for c in g.calls('assign_codes')]
    mk = [c for c in g.calls('make_code_lengths')]
    ok = bool(ac) and all(not cfg.reaches(g, a.block.name, m.block.name) or a.block.name == m.block.name
                          for a in ac for m in mk)
    ctx.ob('C02.codelen', 'generate_prefix_code(): the final tables are written by assign_codes(), after the last '
           'clustering pass (whose lengths may exceed 20)', g.loc(ac[0]) if ac else g.loc(), ok,
           'assign_codes at %s, make_code_lengths at %s' % ([c.line for c in ac], [c.line for c in mk]))

"""C05 Decompression never accepts malformed data or emits wrong bytes -- structural clauses.

(a) the table-driven delta-code and selector-code steps of retrieve() are tabulated over their complete finite
    domains and compared with the step-by-step rule of the bzip2 reference decoder (same consumed bits, same
    resulting length, same accept/reject);
(b) every error code a codec routine can return reaches a fatal diagnostic (data-flow chain by provenance);
(c) the declared-size and CRC checks exist and are unconditional (shared with C15);
(d) the header automaton of parse() is tabulated over every (state, 16-bit word class) and compared with the
    format's automaton.
It does not decide that output bytes equal the reference decoding (numerical)."""
import cfg, rules, frag, expandrules, parsefsm
import random
from frag import Frag, Ptr, Unknown
from irdb import broken, enumerators, reg_var_names, init_ints, var_roles
from prov import Prov, strip_casts, strip_ext, addr_key, render, peel_cond

LEVEL = 'other'


# ----------------------------------------------------------------------------------------------
# helpers
# ----------------------------------------------------------------------------------------------

def ret_sources(f):
    """{constant: [block names]} : blocks that make the function return that constant"""
    out = {}
    for b in f.blocks.values():
        t = b.term
        if t.op != 'ret' or not t.ops:
            continue
        v = t.ops[0]
        if v[0] == 'int':
            out.setdefault(v[1], []).append(b.name)
        elif v[0] == 'reg':
            d = f.defs.get(v[1])
            if d is not None and d.op == 'phi' and d.block is b:
                for iv, src in d.extra['incoming']:
                    if iv[0] == 'int':
                        out.setdefault(iv[1], []).append(src)
                    else:
                        out.setdefault(None, []).append(src)
            else:
                out.setdefault(None, []).append(b.name)
    return out


def peek_blocks(f, width):
    """blocks holding a PEEK(width): lshr i64 X, 64-width"""
    out = {}
    for b in f.blocks.values():
        for i in b.insns:
            if i.op == 'lshr' and i.ty == ('int', 64) and i.ops[1] == ('int', 64 - width) and i.ops[0][0] == 'reg':
                out.setdefault(b.name, i)
    return out


def nearest_dominating(f, blk, cands, dom):
    """the candidate block that dominates blk and is dominated by every other dominating candidate"""
    ds = [c for c in cands if c in dom[blk]]
    best = None
    for c in ds:
        if best is None or best in dom[c]:
            best = c
    return best


class LoopStep:
    """Tabulates one iteration of a bit-buffer driven loop of retrieve(): starts at the block with the PEEK that
    dominates the given error return, ends when control leaves the region dominated by that block (back at the
    loop condition, or at the function's return)."""

    def __init__(self, prog, f, err_code, width):
        self.prog, self.f = prog, f
        self.dom = cfg.dominators(f)
        rs = ret_sources(f)
        srcs = rs.get(err_code)
        if not srcs:
            broken('retrieve(): no return site for error code %d' % err_code)
        pk = peek_blocks(f, width)
        heads = {nearest_dominating(f, sb, pk, self.dom) for sb in srcs}
        if len(heads) != 1 or None in heads:
            broken('retrieve(): the return sites of error %d (%r) do not belong to one PEEK(%d) step' % (
                err_code, srcs, width))
        self.err_block = srcs[0]
        self.P = heads.pop()
        self.peek = pk[self.P]
        self.vreg = self.peek.ops[0][1]
        self.region = {b for b in f.blocks if b in self.dom and self.P in self.dom[b]}
        self.names = reg_var_names(f)
        roles = var_roles(f, Prov(prog, f))
        self.wname = roles.get('.live', 'w')        # the local restored from bs->live (bit count)
        self.vname = roles.get('.buff', 'v')        # the local restored from bs->buff (bit buffer)
        self.width = width
        vd = f.defs.get(self.vreg)
        if vd is None or vd.op != 'phi':
            broken('retrieve(): bit buffer at the PEEK is not a loop-carried value')
        self.head = vd.block
        # the bit counter: the i32 phi of the same block whose source variable is the one DUMP decrements
        self.wreg = None
        for i in self.head.insns:
            if i.op == 'phi' and i.ty == ('int', 32) and self.names.get(i.res) == self.wname:
                self.wreg = i.res
        if self.wreg is None:
            broken('retrieve(): bit counter phi not found next to the bit buffer')

    def eval(self, pattern, mem, W=60):
        f = self.f
        pad = (1 << (64 - self.width)) - 1        # bits after the pattern: all ones (must not matter)
        v0 = (pattern << (64 - self.width)) | (pad & 0x5555555555555555)
        regs = {self.vreg: v0, self.wreg: W}

        def oracle(key, ins):
            root, path = key
            if path and path[-1] == 'internal_state':
                return Ptr(('obj', 'rs'))
            if key in mem:
                return mem[key]
            # field by name
            for k, v in mem.items():
                if isinstance(k, str) and root == ('obj', 'rs') and path == self._parse(k):
                    return v
            raise Unknown('load of %r' % (key,))
        fr = Frag(self.prog, f, regs=regs, oracle=oracle)

        def stop(ins, fr_):
            # back at the block that carries the bit buffer around the loop (phis already updated)
            return ins.block is self.head
        try:
            r = fr.run(self.P, stop=stop)
        except Unknown as e:
            return ('unknown', str(e)), fr
        if r[0] == 'ret':
            return ('ret', r[1]), fr
        # stopped at the loop condition: read the carried bit buffer/counter
        sb = r[1].block
        v1 = w1 = None
        for i in sb.insns:
            if i.op == 'phi' and self.names.get(i.res) == self.vname and i.ty == ('int', 64):
                v1 = fr.regs.get(i.res)
            if i.op == 'phi' and self.names.get(i.res) == self.wname and i.ty == ('int', 32):
                w1 = fr.regs.get(i.res)
        if v1 is None or w1 is None:
            return ('unknown', 'bit buffer not carried to %s' % sb.name), fr
        consumed = W - w1
        if not 0 <= consumed < 64 or v1 != (v0 << consumed) & ((1 << 64) - 1):
            return ('unknown', 'bit buffer not advanced consistently (w: %d -> %d)' % (W, w1)), fr
        return ('next', consumed), fr

    @staticmethod
    def _parse(k):
        out = []
        for part in k.replace(']', '').split('['):
            out.append(int(part) if part.lstrip('-').isdigit() else part)
        return tuple(out)


def rs_cell(fr, name, *idx):
    for (root, path), v in fr.mem.items():
        if root == ('obj', 'rs') and path == (name,) + tuple(idx):
            return v
    return None


# ----------------------------------------------------------------------------------------------
# (a) delta code / selector code
# ----------------------------------------------------------------------------------------------

def ref_delta(c, pattern, width=6):
    """bzip2 1.0.x: loop { if c<1||c>20 error; bit; if 0 break; bit; c += 0? +1 : -1 } on the bits of `pattern`
    (msb first).  A chunk of `width` bits ends either with the terminating 0 (symbol done) or after width/2
    complete +-1 steps.  Returns ('err',) or (consumed, c, done)."""
    bits = [(pattern >> (width - 1 - i)) & 1 for i in range(width)]
    n = 0
    while True:
        if c < 1 or c > 20:
            return ('err',)
        if n + 1 > width:
            return (n, c, False)
        if bits[n] == 0:
            return (n + 1, c, True)
        if n + 2 > width:
            return (n, c, False)       # cannot happen for even widths
        c += 1 if bits[n + 1] == 0 else -1
        n += 2


def delta_rule(ctx, prog):
    f = prog.func('decode', 'retrieve')
    E = enumerators(f.module)
    ctx.require('ERR_DELTA' in E and 'ERR_SELECTOR' in E, 'enum error lost ERR_DELTA/ERR_SELECTOR')
    ls = LoopStep(prog, f, E['ERR_DELTA'], 6)
    bad = []
    n = 0
    unknown = []
    # j: index of the symbol being decoded; alpha_size 3.  j=0 is the first symbol (5-bit start value 0..31),
    # j=1 a middle symbol, j=2 the last (no copy to the next symbol)
    for j, crange in ((0, range(0, 32)), (1, range(1, 21)), (2, range(1, 21))):
        for c in crange:
            for k in range(64):
                n += 1
                mem = {'j': j, 'alpha_size': 3, 'code_len[%d]' % j: c}
                res, fr = ls.eval(k, mem)
                want = ref_delta(c, k)
                if res[0] == 'unknown':
                    unknown.append((j, c, k, res[1]))
                    continue
                if want == ('err',):
                    ok = res == ('ret', E['ERR_DELTA'])
                    got = res
                else:
                    consumed, c2, done = want
                    jn = rs_cell(fr, 'j')
                    cl = rs_cell(fr, 'code_len', j)
                    got = (res, jn, cl)
                    ok = res == ('next', consumed) and cl == c2 and jn == (j + 1 if done else j)
                    if ok and done and j + 1 < 3:
                        nxt = rs_cell(fr, 'code_len', j + 1)
                        ok = nxt == c2
                        got = got + (nxt,)
                if not ok:
                    bad.append((j, c, k, want, got))
                if (c, k) in ((1, 0b111000), (20, 0b101100), (5, 0b100000), (1, 0), (19, 0b101011), (31, 0)) and j == 0:
                    ctx.sample({'fragment': 'delta-code step of retrieve()', 'current_length': c,
                                'pattern': format(k, '06b'), 'reference': 'reject' if want == ('err',) else
                                {'consumed_bits': want[0], 'length': want[1], 'symbol_done': want[2]},
                                'lbzip2': str(got), 'agree': ok})
    if unknown:
        broken('C05 delta-code fragment could not be tabulated: %s' % (unknown[:3],))
    ctx.ob('C05.delta_tables', 'all %d (symbol position, current length, 6-bit pattern) cases' % n, f.loc(ls.peek),
           not bad, 'consumed bits, resulting length, symbol advance and accept/reject equal the reference rule'
           if not bad else '%d disagreements' % len(bad), evals=n)
    seen = set()
    for j, c, k, want, got in bad:
        inst = 'pattern %s at length %d' % (format(k, '06b'), c)
        if inst in seen:
            continue
        seen.add(inst)
        if len(seen) > 24:
            break
        ctx.ob('C05.delta_tables', inst, f.loc(ls.peek), False,
               'reference: %s; lbzip2: %s' % ('reject' if want == ('err',) else 'consume %d -> length %d%s' % (
                   want[0], want[1], ', symbol done' if want[2] else ''), got))
    return n


def selector_rule(ctx, prog):
    f = prog.func('decode', 'retrieve')
    E = enumerators(f.module)
    ls = LoopStep(prog, f, E['ERR_SELECTOR'], 6)
    bad = []
    unknown = []
    n = 0
    for T in range(2, 7):
        for k in range(64):
            n += 1
            ones = 0
            while ones < 6 and (k >> (5 - ones)) & 1:
                ones += 1
            want = ('err',) if ones >= T else (ones + 1, ones)
            res, fr = ls.eval(k, {'j': 0, 'num_selectors': 2, 'num_trees': T})
            if res[0] == 'unknown':
                unknown.append((T, k, res[1]))
                continue
            if want == ('err',):
                ok = res == ('ret', E['ERR_SELECTOR'])
                got = res
            else:
                sel = rs_cell(fr, 'selector', 0)
                jn = rs_cell(fr, 'j')
                got = (res, sel, jn)
                ok = res == ('next', want[0]) and sel == want[1] and jn == 1
            if not ok:
                bad.append((T, k, want, got))
    if unknown:
        broken('C05 selector fragment could not be tabulated: %s' % (unknown[:3],))
    ctx.ob('C05.selector_table', 'all %d (number of tables, 6-bit pattern) cases' % n, f.loc(ls.peek), not bad,
           'unary selector code: value, consumed bits and rejection of values >= number of tables equal the '
           'reference' if not bad else str(bad[:6]), evals=n)
    return n


def parse_fsm_rule(ctx, prog, pfx='C05', crc_bits=True):
    """(d) header automaton of parse() against the format automaton"""
    ps = parsefsm.ParseStep(prog)
    f = ps.f
    E = ps.E
    P = Prov(prog, f)
    # the word read from the bit buffer reaches branch conditions only through comparisons with constants:
    # then the classes around those constants cover all 65536 words
    loop = cfg.loops(f)[ps.head]
    odd = []
    nb = 0
    for bn in loop:
        t = f.blocks[bn].term
        if t.op == 'br' and len(t.extra['targets']) == 2:
            e = P.expr(t.ops[0])
            txt = render(e)
            if '.buff' not in txt:
                continue
            nb += 1
            c, _ = peel_cond(e)
            from prov import cmp_norm
            cn = cmp_norm(c)
            if cn is None or cn[2][0] != 'const':
                odd.append('%s: %s' % (f.loc(t), txt[:100]))
    ctx.floor(pfx + ' parse(): comparisons of the header word with constants', nb, 8)
    ctx.ob(pfx + '.parse_fsm.word_classes', 'the 16-bit word influences control flow of parse() only through '
           'comparisons with constants', f.loc(), not odd, '; '.join(odd), evals=nb)
    # parse() is resumable: it returns MORE and is re-entered from the top, so a value carried around its loop in
    # a local (an SSA phi at the loop head) is lost on re-entry; all state must live in *ps / *bs
    carried = [i for i in f.blocks[ps.head].insns if i.op == 'phi']
    names = reg_var_names(f)
    ctx.ob(pfx + '.parse_fsm.no_carried_locals', 'parse() keeps no state in locals across loop iterations (it is '
           'suspended and re-entered between any two words)', f.loc(), not carried,
           ', '.join('local `%s`' % names.get(i.res, i.res) for i in carried))
    words = ps.breakpoints if ctx.tier == 'quick' else None
    rnd = random.Random(12345)
    bad = []
    n = 0
    per_state = {}
    for sname in parsefsm.STATE_NAMES:
        for sm in (0, 1):
            if sm and sname.startswith('STREAM_MAGIC'):
                continue        # streams are never sought in single-stream mode (asserted by the code itself)
            ws = words if words is not None else range(65536)
            for w in ws:
                stored = rnd.getrandbits(16)
                computed = rnd.getrandbits(32)
                if sname == 'EOS_CRC_2' and (w & 1):
                    computed = ((stored << 16) | w) & 0xFFFFFFFF        # make the stream CRC match on odd words
                for live in ((45,) if words is None else (16, 45, 63)):
                    n += 1
                    r = parsefsm.compare(ps, sname, w, sm, stored, computed, rnd.randint(1, 9), live=live)
                    per_state[sname] = per_state.get(sname, 0) + 1
                    if per_state[sname] in (1, 7) and live == 45:
                        ctx.sample({'fragment': 'one step of parse()', 'state': sname, 'word': '%#06x' % w,
                                    'stream_mode': sm, 'disagreements': r})
                    if r:
                        bad.append((sname, sm, w, r))
    ctx.ob(pfx + '.parse_fsm.transitions', 'every (state, word class, mode) transition of parse() equals the bzip2 '
           'container automaton: magics 0x425A 0x6831..0x6839 0x3141/0x5926/0x5359 0x1772/0x4538/0x5090, level = '
           'digit, FINISH only on a non-header after a complete stream, byte alignment after a stream', f.loc(ps.switch),
           not bad, '%d transitions tabulated' % n if not bad else '; '.join(
               '%s word %#06x mode %d: %s' % (s, w, sm, '/'.join(r)) for s, sm, w, r in bad[:6]), evals=n)
    # CRC fields: every bit of the stored and of the computed value takes part
    badc = []
    nc = 0
    for trial in range(4 if ctx.tier == 'quick' else 32):
        hi, lo, comp = rnd.getrandbits(16), rnd.getrandbits(16), rnd.getrandbits(32)
        # block CRC assembly and combination
        for bit in range(-1, 64):
            h, l, c = hi, lo, comp
            if 0 <= bit < 16:
                l ^= 1 << bit
            elif 16 <= bit < 32:
                h ^= 1 << (bit - 16)
            elif bit >= 32:
                c ^= 1 << (bit - 32)
            nc += 1
            r = parsefsm.compare(ps, 'BLOCK_CRC_2', l, 0, h, c, 9)
            if r:
                badc.append(('BLOCK_CRC_2', bit, r))
        # stream CRC comparison: equal -> accepted, any single bit different -> ERR_STRMCRC
        full = (hi << 16) | lo
        for bit in range(-1, 32):
            c = full if bit < 0 else full ^ (1 << bit)
            for sm in (0, 1):
                nc += 1
                r = parsefsm.compare(ps, 'EOS_CRC_2', lo, sm, hi, c, 9)
                if r:
                    badc.append(('EOS_CRC_2', bit, r))
                # also the stored side
                if bit >= 0:
                    h, l = (hi ^ (1 << (bit - 16)), lo) if bit >= 16 else (hi, lo ^ (1 << bit))
                    nc += 1
                    r = parsefsm.compare(ps, 'EOS_CRC_2', l, sm, h, full, 9)
                    if r:
                        badc.append(('EOS_CRC_2 stored', bit, r))
    if crc_bits:
        ctx.ob(pfx + '.parse_fsm.crc_bits', 'block CRC = (word1 << 16) | word2 on all 32 bits, combined CRC = '
               'rotl1(combined) ^ block CRC, stream CRC compared on all 32 bits (each single-bit difference of the '
               'stored or of the computed value gives ERR_STRMCRC)', f.loc(ps.switch), not badc,
               '%d cases' % nc if not badc else str(badc[:4]), evals=nc)
    # end of input
    bade = []
    ne = 0
    for sname in parsefsm.STATE_NAMES:
        for live in (0, 8, 15):
            for eof in (0, 1):
                ne += 1
                got = ps.step(E[sname], 0, 0, 1, 2, 9, live=live, eof=eof, have_data=False)
                if eof == 0:
                    want = ('ret', E['MORE'])
                elif sname == 'STREAM_MAGIC_1':
                    want = ('ret', E['FINISH'])
                elif sname == 'STREAM_MAGIC_2':
                    want = ('ret', E['FINISH'])
                else:
                    want = ('ret', E['ERR_EOF'])
                ok = got['result'] == want
                if ok and eof and sname.startswith('STREAM_MAGIC'):
                    ok = got['garbage'] == (0 if sname == 'STREAM_MAGIC_1' else 16) and \
                        got['state'] not in [E[x] for x in parsefsm.STATE_NAMES]
                if not ok:
                    bade.append((sname, live, eof, got['result'], got.get('garbage')))
    ctx.ob(pfx + '.parse_fsm.end_of_input', 'out of input: MORE unless the input is finished; a finished input is '
           'FINISH only between streams (or after a lone "BZ"), ERR_EOF inside a stream', f.loc(), not bade,
           '%d cases' % ne if not bade else str(bade[:4]), evals=ne)
    # refill transparency: a word split across the 32-bit refill behaves like the same word in the buffer
    badr = []
    nr = 0
    for sname in parsefsm.STATE_NAMES:
        for w in ps.breakpoints[::3]:
            nr += 1
            tail_word = ((w & 0xFF) << 24) | 0x00ABCDEF
            buff = (w >> 8) << 56
            a = ps.step(E[sname], w, 0, 7, 9, 9, live=8, tail=(buff, parsefsm.bswap32(tail_word)))
            b = ps.step(E[sname], w, 0, 7, 9, 9, live=40, fill=(tail_word & 0xFFFFFF) << 24)
            if a['result'] != b['result'] or a['state'] != b['state'] or a['live'] != b['live']:
                badr.append((sname, hex(w), a['result'], b['result'], a['live'], b['live']))
    ctx.ob(pfx + '.parse_fsm.refill', 'a header word that straddles a 32-bit refill of the bit buffer is read as '
           'the same word', f.loc(), not badr, '%d cases' % nr if not badr else str(badr[:3]), evals=nr)
    return n + nc + ne + nr


def run_bound_rule(ctx, prog, pfx='C05'):
    """every accumulation of a run digit (`run += RUN(s) << shift++`) is guarded by `run <= K`, K <= MAX_BLOCK_SIZE:
    without the bound the 32-bit run length wraps (a 2^32+k run decodes as k bytes) and the shift count reaches
    32 (undefined).  Both copies of the symbol loop (fast path with locals, slow path with *rs) are examined."""
    f = prog.func('decode', 'retrieve')
    P = Prov(prog, f)
    sites = []
    for i in f.insns():
        if i.op != 'shl' or i.ty != ('int', 32):
            continue
        e = P.expr(('reg', i.res))
        a = strip_casts(e[2])
        if not (a[0] == 'bin' and ((a[1] == 'sub' and strip_casts(a[3]) == ('const', 256)) or
                                   (a[1] == 'add' and strip_casts(a[3]) == ('const', -256)))):
            continue
        for u in f.insns():
            if u.op == 'add' and ('reg', i.res) in u.ops:
                other = u.ops[0] if u.ops[1] == ('reg', i.res) else u.ops[1]
                sites.append((i, u, strip_casts(P.expr(other))))
    ctx.floor(pfx + ' retrieve(): run-length accumulation sites', len(sites), 2)

    def same(a, b):
        if a[0] == 'load' and b[0] == 'load':
            return addr_key(a[1]) == addr_key(b[1])
        return a == b
    for shl, add, runv in sites:
        gs = rules.guards(f, P, add.block.name)
        ok = False
        seen = []
        for bb, ce, pol in gs:
            c, p2 = peel_cond(ce)
            from prov import cmp_norm
            cn = cmp_norm(c)
            if cn is None:
                continue
            pred, x, y = cn
            if y[0] != 'const' or not same(strip_casts(x), runv):
                continue
            eff = pol == p2
            seen.append('%s %s %d (%s edge)' % (render(x)[:40], pred, y[1], 'true' if eff else 'false'))
            if (pred == 'ule' and eff and y[1] <= 900000) or (pred == 'ult' and eff and y[1] <= 900001) or \
               (pred == 'ugt' and not eff and y[1] <= 900000) or (pred == 'uge' and not eff and y[1] <= 900001):
                ok = True
        ctx.ob(pfx + '.run_bound', 'run-length accumulation at line %s is guarded by run <= MAX_BLOCK_SIZE' % add.line,
               f.loc(add), ok, 'guards on the run length: %s' % (seen or 'none'))


def kraft_rule(ctx, prog, pfx='C05'):
    """make_tree(): a table whose code lengths do not satisfy the Kraft *equality* is marked with an error code in
    the selector MTF slot; retrieve() returns that code as soon as a group selects the table; the codes are
    distinguishable from valid table numbers"""
    import witness
    f = prog.func('decode', 'make_tree')
    P = Prov(prog, f)
    E = enumerators(f.module)
    from prov import cmp_norm
    marks, valid = [], []
    for i in f.insns():
        if i.op == 'store' and '.mtf[' in addr_key(P.addr(i.ops[1])):
            v = strip_casts(P.expr(i.ops[0]))
            gs = rules.guards(f, P, i.block.name)
            kr = None
            for b, e, pol in gs:
                c, p2 = peel_cond(e)
                cn = cmp_norm(c)
                if cn and cn[2] == ('const', 1 << 20) and cn[0] in ('ne', 'eq') and strip_casts(cn[1])[0] == 'phi':
                    kr = (cn[0] == 'ne') == (pol == p2)     # True: on the "sum != 2^20" side
            if v[0] == 'select':
                marks.append((i, v, kr))
            else:
                valid.append((i, v, kr))
    okm = len(marks) == 1 and marks[0][2] is True
    if okm:
        v = marks[0][1]
        c = cmp_norm(v[1])
        a, b_ = strip_casts(v[2]), strip_casts(v[3])
        okm = c is not None and c[0] == 'ult' and c[2] == ('const', 1 << 20) and a == ('const', E['ERR_INCOMPLT']) and \
            b_ == ('const', E['ERR_PREFIX'])
    okv = len(valid) == 1 and valid[0][2] is False and 'rs).t' in render(valid[0][1])
    ctx.ob(pfx + '.kraft', 'make_tree(): Kraft sum < 2^20 marks the table ERR_INCOMPLT, > 2^20 ERR_PREFIX, and only a '
           'sum of exactly 2^20 makes it usable', f.loc(marks[0][0]) if marks else f.loc(), okm and okv,
           'marks: %s; valid: %s' % ([render(m[1])[:60] for m in marks], [render(x[1])[:40] for x in valid]))
    # the accumulation: sum over k of C[k] << (20 - k)
    acc = False
    for i in f.insns():
        if i.op == 'shl' and i.ty == ('int', 64):
            e = strip_casts(P.expr(('reg', i.res)))
            sh = strip_casts(e[3])
            if sh[0] == 'bin' and sh[1] == 'sub' and strip_casts(sh[2]) == ('const', 20) and 'count' in render(e[2]):
                acc = True
    ctx.ob(pfx + '.kraft', 'make_tree(): the Kraft sum adds count[k] << (20 - k)', f.loc(), acc, '')
    r = witness.check(ctx, 'decode', [
        ('error marks cannot be mistaken for table numbers', 'ERR_INCOMPLT >= MAX_TREES && ERR_PREFIX >= MAX_TREES'),
        ('code lengths 1..20', 'MIN_CODE_LENGTH == 1 && MAX_CODE_LENGTH == 20')])
    for name, ok in r.items():
        ctx.ob(pfx + '.kraft', name, 'src/decode.c', ok, 'evaluated by the compiler')
    # retrieve(): returns rs->t exactly when rs->t >= MAX_TREES, before using the table
    g = prog.func('decode', 'retrieve')
    Pg = Prov(prog, g)
    rs = ret_sources(g).get(None, [])
    ok = len(rs) == 1
    if ok:
        gs = rules.guards(g, Pg, rs[0])
        ok = False
        for b, e, pol in gs:
            c, p2 = peel_cond(e)
            cn = cmp_norm(c)
            if cn and cn[0] == 'uge' and cn[2] == ('const', 6) and (pol == p2) and \
                    strip_casts(cn[1])[0] == 'load' and path_key_(strip_casts(cn[1])) == '.t':
                ok = True
    ctx.ob(pfx + '.kraft', 'retrieve() returns the mark of an unusable table as soon as a group selects it '
           '(rs->t >= MAX_TREES)', g.loc(), ok, 'computed-return sites: %s' % rs)


def path_key_(e):
    from prov import path_key
    return path_key(e[1][2])


def err_table_rule(ctx, prog, pfx='C05'):
    """every error code has a message; codec routines return only members of the enum"""
    b = ctx.build()
    code = '#include "%s/src/expand.c"\n' % ctx.root
    E = enumerators(prog.module('expand'))
    n_err = E['ERR_EOF'] - E['ERR_MAGIC'] + 1
    f = prog.func('expand', 'err2str')
    g = [gl for name, gl in f.module.globals.items() if name.startswith('err2str.table')]
    ctx.require(len(g) == 1, 'err2str(): message table not found')
    ty = g[0].ty
    ctx.ob(pfx + '.err2str', 'err2str() has one message per error code ERR_MAGIC..ERR_EOF', f.loc(),
           ty[0] == 'array' and ty[1] == n_err, 'table has %s entries, enum has %d error codes' % (ty[1], n_err))
    # contiguity of the enum: codes are ERR_MAGIC .. ERR_EOF without holes
    errs = sorted(v for k, v in E.items() if k.startswith('ERR_'))
    ctx.ob(pfx + '.err2str', 'error codes are contiguous (the table is indexed by code - ERR_MAGIC)', 'src/common.h',
           errs == list(range(E['ERR_MAGIC'], E['ERR_EOF'] + 1)), str(errs), nontrivial=False)
    for unit, fn in (('decode', 'retrieve'), ('decode', 'emit'), ('parse', 'parse'), ('parse', 'scan')):
        ff = prog.func(unit, fn)
        rs = ret_sources(ff)
        consts = sorted(k for k in rs if k is not None)
        nonconst = rs.get(None, [])
        valid = set(E[k] for k in E if k in ('OK', 'MORE', 'FINISH') or k.startswith('ERR_'))
        ok = all(c in valid for c in consts)
        # retrieve() returns rs->t (a selector of an invalid table: ERR_PREFIX/ERR_INCOMPLT stored by make_tree)
        ctx.ob(pfx + '.return_codes', '%s() returns only members of the result enum' % fn, ff.loc(), ok,
               'constants returned: %s; computed returns from blocks %s' % (consts, nonconst))


def run(ctx):
    prog = ctx.prog('ssa')
    ctx.explain('C05: (a) delta-code and selector-code steps of retrieve() tabulated over their complete finite '
                'domains from the IR and compared with the reference rule; (b) error-code chain to failf; '
                '(c) size/CRC checks unconditional; (d) parse() header automaton tabulated and compared with the '
                'format automaton.')
    delta_rule(ctx, prog)
    selector_rule(ctx, prog)
    expandrules.retrieve_obligations(ctx, prog, 'C05')
    expandrules.emit_obligations(ctx, prog, 'C05')
    expandrules.reorder_obligations(ctx, prog, 'C05')
    expandrules.parse_task_obligations(ctx, prog, 'C05')
    parse_fsm_rule(ctx, prog)
    err_table_rule(ctx, prog)
    kraft_rule(ctx, prog)
    from props import c06
    c06.limits(ctx, prog)
    run_bound_rule(ctx, prog)
    import codecrules
    codecrules.unrle_walk(ctx, prog, 'C05')

"""C21 I/O failures on filters terminate promptly -- system-call error discipline (R5).

Every system-call result whose failure the program must notice reaches a fatal (fail*) or a documented
non-fatal (warn*/info*) sink; the read/write loops have no other exits than the documented ones and advance by
what the system call returned; fail* never return and suppress only the message for EPIPE/EFBIG; bailout
unblocks the pending SIGPIPE/SIGXFSZ before exiting 1; promptness itself is not decided."""
import cfg, conc, rules
from irdb import broken
from prov import Prov, addr_key, strip_ext, strip_casts, render, peel_cond, cmp_norm
from props import c16
from rules import guards, guard_holds, failure_edge, must_reach_call, can_follow, const_arg, result_tests

LEVEL = 'other'
EPIPE, EFBIG = 32, 27
SIGPIPE, SIGXFSZ, SIGUSR1 = 13, 25, 10

# call -> (failure test kind, class) ; class: 'fatal' must reach fail*, 'report' must reach warn*/info*/fail*
SYSCALLS = {
    'read': ('-1', 'fatal'), 'write': ('-1', 'fatal'), 'close': ('-1', 'fatal'),
    'open': ('-1', 'report'), 'open64': ('-1', 'report'), 'lstat': ('-1', 'report'), 'lstat64': ('-1', 'report'),
    'fstat': ('-1', 'report'), 'fstat64': ('-1', 'report'), 'unlink': ('-1', 'report'),
    'fchown': ('-1', 'report'), 'fchmod': ('-1', 'report'), 'futimens': ('-1', 'report'),
    'fclose': ('nonzero', 'fatal'), 'printf': ('neg', 'fatal'), 'pthread_create': ('nonzero', 'fatal'),
}
# (function, callee): result deliberately discarded -- reason
DISCARDED = {('cleanup', 'unlink'): 'best effort on the way out of a failing process'}


def run(ctx):
    prog = ctx.prog('ssa')
    A = conc.Analysis(prog)
    ctx.explain('C21: error discipline at every system-call site, structure of xread/xwrite loops, fail*/bailout/'
                'log_generic rules, signal tables.')
    syscall_sites(ctx, prog, A)
    io_loops(ctx, prog, A)
    fail_family(ctx, prog, A)
    bailout_rules(ctx, prog, A)
    final_close(ctx, prog, A)
    main_waits_in_halt(ctx, prog, A)
    # a failing sub-thread reports through SIGUSR1: it must be deliverable to the main thread
    c16.signal_window(ctx, prog, A)


def syscall_sites(ctx, prog, A):
    n = 0
    for f in prog.all_funcs():
        if f.module.unit in ('timespec',):
            continue
        P = A.cg.prov(f)
        for c in f.calls():
            name = c.extra.get('callee')
            if name not in SYSCALLS:
                continue
            kind, cls = SYSCALLS[name]
            n += 1
            if (f.name, name) in DISCARDED:
                used = [i for i in f.insns() if ('reg', c.res) in i.ops] if c.res else []
                ctx.ob('C21.syscall', '%s in %s: result deliberately discarded' % (name, f.name), f.loc(c), not used,
                       DISCARDED[(f.name, name)], nontrivial=False)
                continue
            fe = failure_edge(f, P, c, kind)
            if fe is None:
                ctx.ob('C21.syscall', '%s in %s: failure is tested' % (name, f.name), f.loc(c), False,
                       'no branch compares the result with its failure value')
                continue
            sinks = rules.FATAL if cls == 'fatal' else (rules.FATAL | rules.WARN | rules.INFO)
            ok = must_reach_call(f, fe[1], sinks)
            # the idiom `-1 == unlink(p) && ENOENT != errno`: a second test of errno may bypass the report
            if not ok and name == 'unlink':
                ok = _errno_bypass_only(f, P, fe[1], sinks)
            ctx.ob('C21.syscall', '%s in %s: failure reaches %s' % (name, f.name, 'fail*' if cls == 'fatal' else 'a diagnostic'),
                   f.loc(c), ok, 'failure edge -> %s' % fe[1])
    ctx.floor('system-call sites', n, 20)
    # log_generic: any stdio failure -> bailout
    lg = prog.func('main', 'log_generic')
    P = A.cg.prov(lg)
    stdio = [c for c in lg.calls() if c.extra.get('callee') in ('fprintf', 'vfprintf', 'fflush')]
    ctx.floor('stdio calls in log_generic', len(stdio), 5)
    for c in stdio:
        tests = result_tests(lg, P, c)
        ok = False
        for b, pred, k, tt, ft in tests:
            fail_t = None
            if k == 0 and pred in ('sgt', 'sle'):      # 0 > r  normalised: r < 0 handled below
                pass
            if k == 0 and pred == 'slt':
                fail_t = tt
            elif k == 0 and pred == 'sge':
                fail_t = ft
            elif k == 0 and pred == 'ne':
                fail_t = tt
            elif k == 0 and pred == 'eq':
                fail_t = ft
            if fail_t is not None:
                # the failure edge may enter a short-circuit merge (`bad = a || b; if (bad)`): follow it as an edge
                _, red = cfg.threaded_successors(lg)
                start = red.get((b.name, fail_t), fail_t)
                if must_reach_call(lg, start, {'bailout'}):
                    ok = True
        ctx.ob('C21.syscall', '%s in log_generic: failure leads to bailout()' % c.extra['callee'], lg.loc(c), ok, '')


def _errno_bypass_only(f, P, start, sinks):
    """allow bypass of the diagnostic only through a comparison of *__errno_location() with ENOENT"""
    bypass = []
    for b in f.blocks.values():
        t = b.term
        if t.op == 'br' and len(t.extra['targets']) == 2:
            cn = cmp_norm(peel_cond(P.expr(t.ops[0]))[0])
            if cn and cn[1][0] == 'load' and cn[1][1][1][0] == 'V' and strip_casts(cn[1][1][1][1])[0] == 'call' and \
                    strip_casts(cn[1][1][1][1])[1] == '__errno_location' and cn[2] == ('const', 2):
                bypass.extend((b.name, s) for s in b.succs)
    blocks = cfg.blocks_calling(f, sinks)
    rets = [b.name for b in f.blocks.values() if b.term.op == 'ret']
    r = cfg.reachable(f, start, removed_blocks=blocks, removed_edges=bypass)
    return not any(x in r for x in rets) and bool(bypass)


def io_loops(ctx, prog, A):
    # xread
    f = prog.func('process', 'xread')
    P = A.cg.prov(f)
    rd = list(f.calls('read'))
    ctx.require(len(rd) == 1, 'xread: expected one read')
    fe = failure_edge(f, P, rd[0], '-1')
    ctx.ob('C21.xread', 'read() == -1 always ends in failfx (no other continuation)', f.loc(rd[0]),
           fe is not None and must_reach_call(f, fe[1], {'failfx'}), '')
    a0 = strip_casts(P.expr(rd[0].ops[0]))
    ctx.ob('C21.xread', 'read() uses the input descriptor', f.loc(rd[0]), a0[0] == 'load' and addr_key(a0[1]) == 'G:ispec.fd', render(a0))
    # loop exits: read returned 0, or *vacant == 0
    lp = cfg.loops(f)
    body = None
    for h, bd in lp.items():
        if rd[0].block.name in bd:
            body = bd if body is None or len(bd) < len(body) else body
    if body is None:
        ctx.ob('C21.xread', 'the read loop is left only at end of file or when the chunk is full', f.loc(rd[0]), False,
               'read() is not retried: a short read ends the chunk')
        body = set()
    exits = []
    for bn in body:
        t = f.blocks[bn].term
        for s in f.blocks[bn].succs:
            if s not in body and f.blocks[s].term.op != 'unreachable':
                c, pol = peel_cond(P.expr(t.ops[0])) if t.ops else (('const', 1), True)
                exits.append((bn, s, render(strip_casts(c))))
    kinds = set()
    for bn, s, r in exits:
        t = f.blocks[bn].term
        c, pol = peel_cond(P.expr(t.ops[0])) if t.ops else (('const', 1), True)
        cn = cmp_norm(c)
        on_true = t.op == 'br' and len(t.extra['targets']) == 2 and t.extra['targets'][0] == s
        cs = strip_casts(c)
        if cn is not None and cn[2] == ('const', 0) and cn[0] in ('eq', 'ne') and strip_casts(cn[1])[0] == 'call' and \
                strip_casts(cn[1])[2] is rd[0] and ((cn[0] == 'eq') == (on_true == pol)):
            kinds.add('eof')                # left on read() == 0
        elif cn is None and cs[0] == 'call' and cs[2] is rd[0] and (on_true != pol):
            kinds.add('eof')                # the same test with `== 0` peeled into the polarity
        elif cn is None and cs[0] == 'load' and 'param:vacant' in render(cs) and (on_true != pol):
            kinds.add('full')               # `while (*vacant)` form
        elif cn is not None and cn[2] == ('const', 0) and 'param:vacant' in render(cn[1]) and \
                strip_casts(cn[1])[0] == 'load' and \
                ((cn[0] in ('ugt', 'ne') and on_true != pol) or (cn[0] == 'eq' and on_true == pol)):
            kinds.add('full')               # left on *vacant == 0
        else:
            kinds.add('other:' + r)
    ctx.ob('C21.xread', 'the read loop is left only at end of file or when the chunk is full', f.loc(rd[0]),
           kinds == {'eof', 'full'}, 'exits: %s' % exits)
    # *vacant and buffer advance by the returned count
    ok = False
    for i in f.insns():
        if i.op == 'store':
            a = P.addr(i.ops[1])
            if a[1][0] == 'V' and a[1][1][0] == 'param' and a[1][1][2] == 'vacant':
                v = strip_casts(P.expr(i.ops[0]))
                if v[0] == 'bin' and v[1] == 'sub' and strip_casts(v[3])[0] == 'call' and strip_casts(v[3])[2] is rd[0]:
                    ok = True
    ctx.ob('C21.xread', '*vacant decreases by what read() returned', f.loc(rd[0]), ok, '')
    # xwrite
    g = prog.func('process', 'xwrite')
    Pg = A.cg.prov(g)
    wr = list(g.calls('write'))
    ctx.require(len(wr) == 1, 'xwrite: expected one write')
    fe = failure_edge(g, Pg, wr[0], '-1')
    ctx.ob('C21.xwrite', 'write() == -1 always ends in failfx', g.loc(wr[0]), fe is not None and must_reach_call(g, fe[1], {'failfx'}), '')
    a0 = strip_casts(Pg.expr(wr[0].ops[0]))
    ctx.ob('C21.xwrite', 'write() uses the output descriptor', g.loc(wr[0]), a0[0] == 'load' and addr_key(a0[1]) == 'G:ospec.fd', render(a0))
    lp = cfg.loops(g)
    body = None
    for h, bd in lp.items():
        if wr[0].block.name in bd:
            body = bd if body is None or len(bd) < len(body) else body
    ctx.require(body is not None, 'xwrite: write() is not in a loop')
    exits = []
    for bn in body:
        t = g.blocks[bn].term
        for s in g.blocks[bn].succs:
            if s not in body and g.blocks[s].term.op != 'unreachable':
                c, pol = peel_cond(Pg.expr(t.ops[0])) if t.ops else (('const', 1), True)
                exits.append((bn, s, strip_casts(c)))
    ok = len(exits) == 1
    adv_ok = False
    if ok:
        cn = cmp_norm(exits[0][2])
        x = cn[1] if cn else exits[0][2]
        # the tested value is the remaining size: phi/sub of size by the write result
        x = strip_casts(x)

        def is_dec(e):
            e = strip_casts(e)
            return e[0] == 'bin' and e[1] == 'sub' and strip_casts(e[3])[0] == 'call' and strip_casts(e[3])[2] is wr[0]
        if is_dec(x):
            adv_ok = True
        elif x[0] == 'phi':
            # `while (size > 0)` form: the tested value is the loop-carried size; every value carried around the
            # loop must be (size - write result)
            carried = [v for v, src in Pg.phi_inputs(x) if src in body]
            adv_ok = bool(carried) and all(is_dec(v) for v in carried)
    ctx.ob('C21.xwrite', 'the write loop is left only when nothing remains (short writes are retried)', g.loc(wr[0]), ok,
           'exits: %s' % [(a, b, render(c)) for a, b, c in exits])
    ctx.ob('C21.xwrite', 'the remaining size decreases by what write() returned', g.loc(wr[0]), adv_ok,
           render(exits[0][2]) if exits else '')
    # buffer pointer advances by the same amount
    padv = False
    for i in g.insns():
        if i.op == 'phi':
            for v, bb in i.extra['incoming']:
                e = Pg.expr(v)
                if e[0] == 'addr' and e[1][0] == 'V' and e[2] and e[2][-1][0] == 'i' and isinstance(e[2][-1][1], tuple):
                    ix = strip_casts(e[2][-1][1])
                    if ix[0] == 'call' and ix[2] is wr[0]:
                        padv = True
    ctx.ob('C21.xwrite', 'the buffer pointer advances by what write() returned', g.loc(wr[0]), padv, '')


def fail_family(ctx, prog, A):
    for name in ('fail', 'failf', 'failx', 'failfx'):
        f = prog.func('main', name)
        P = A.cg.prov(f)
        rets = [b.name for b in f.blocks.values() if b.term.op == 'ret']
        r = cfg.reachable(f)
        ctx.ob('C21.fail', '%s never returns' % name, f.loc(), not any(x in r for x in rets) and name in prog.noreturn, '')
        ctx.ob('C21.fail', '%s always reaches bailout()' % name, f.loc(), must_reach_call(f, f.entry.name, {'bailout'}) and
               bool(list(f.calls('bailout'))), '')
        # no path simply falls off: every `unreachable` directly follows a call to a noreturn function
        bad = []
        for b in f.blocks.values():
            if b.term.op == 'unreachable':
                prev = [i for i in b.insns[:-1] if i.op != 'dbg']
                if not prev or prev[-1].op != 'call' or prev[-1].extra.get('callee') not in prog.noreturn:
                    bad.append(b.name)
        ctx.ob('C21.fail', '%s has no path that ends without calling bailout()' % name, f.loc(), not bad,
               'blocks ending in unreachable without a noreturn call: %s' % bad)
        # the only thing EPIPE/EFBIG suppresses is the message
        lg = list(f.calls('log_generic'))
        ctx.require(len(lg) == 1, '%s: expected one log_generic call' % name)
        gs = guards(f, P, lg[0].block.name)
        consts = set()
        others = []
        for b, e, pol in gs:
            cn = cmp_norm(peel_cond(e)[0])
            if cn and cn[2][0] == 'const' and cn[1][0] == 'param':
                consts.add(cn[2][1])
            else:
                others.append(render(e))
        has_x = any(pn == 'x' for _, pn in f.params)
        ctx.ob('C21.fail', '%s: the message is suppressed only for EPIPE and EFBIG' % name, f.loc(lg[0]),
               (consts == {EPIPE, EFBIG} if has_x else not consts) and not others, 'guard constants %s other %s' % (sorted(consts), others))
    for name in ('warn', 'warnf', 'warnx', 'warnfx', 'info', 'infof', 'infox', 'infofx', 'display'):
        f = prog.func('main', name)
        ctx.ob('C21.fail', '%s never bails out by itself and always logs' % name, f.loc(),
               not list(f.calls('bailout')) and must_reach_call(f, f.entry.name, {'log_generic'}), '')


def bailout_rules(ctx, prog, A):
    b = prog.func('signals', 'bailout')
    P = A.cg.prov(b)
    dom = cfg.dominators(b)
    ex = list(b.calls('_exit'))
    ctx.require(len(ex) == 1, 'bailout: expected one _exit')
    um = [c for c in b.calls('xmask') if const_arg(P, c, 0) == 1 and addr_key(P.addr(c.ops[1])) == 'G:signals:blocked']
    ctx.ob('C21.bailout', 'main thread unblocks SIGPIPE/SIGXFSZ before _exit(1) (so a pending one kills the process)', b.loc(ex[0]),
           len(um) == 1 and cfg.insn_dominates(b, um[0], ex[0], dom) and const_arg(P, ex[0], 0) == 1, '')
    pr = list(b.calls('promote'))
    xr = list(b.calls('xraise'))
    pe = list(b.calls('pthread_exit'))
    ok = len(pr) == 1 and len(xr) == 1 and len(pe) == 1 and cfg.insn_dominates(b, pr[0], xr[0], dom) and \
        cfg.insn_dominates(b, xr[0], pe[0], dom) and const_arg(P, xr[0], 0) == SIGUSR1
    ctx.ob('C21.bailout', 'a failing sub-thread promotes its pending signals, raises SIGUSR1 and exits', b.loc(), ok, '')
    ctx.ob('C21.bailout', 'bailout never returns', b.loc(), not any(bb.term.op == 'ret' for bb in b.blocks.values()), '')
    bs = rules.global_ints(prog, 'signals', 'blocked_signals')
    ctx.ob('C21.bailout', 'blocked signals are exactly SIGPIPE and SIGXFSZ', 'src/signals.c', sorted(bs) == [SIGPIPE, SIGXFSZ], str(bs))
    s = prog.func('signals', 'setup_signals')
    Ps = A.cg.prov(s)
    blk = [c for c in s.calls('xmask') if const_arg(Ps, c, 0) == 0 and addr_key(Ps.addr(c.ops[1])) == 'G:signals:blocked']
    fills = [c for c in s.calls('xadd') if addr_key(Ps.addr(c.ops[0])) == 'G:signals:blocked']
    ctx.ob('C21.bailout', 'setup_signals blocks that set (after filling it) before any thread exists', s.loc(),
           len(blk) == 1 and fills and all(can_follow(s, fl, blk[0]) and not can_follow(s, blk[0], fl) for fl in fills), '')
    mainf = prog.func('main', 'main')
    dm = cfg.dominators(mainf)
    ss = list(mainf.calls('setup_signals'))
    wk = list(mainf.calls('work'))
    ctx.ob('C21.bailout', 'setup_signals() dominates work() in main', mainf.loc(), bool(ss) and bool(wk) and
           cfg.insn_dominates(mainf, ss[0], wk[0], dm), '')
    # promote: re-raises exactly the blocked signals that are pending
    p = prog.func('signals', 'promote')
    Pp = A.cg.prov(p)
    xr = list(p.calls('xraise'))
    ok = len(xr) == 1 and strip_casts(Pp.expr(xr[0].ops[0]))[0] == 'load'
    gs = guards(p, Pp, xr[0].block.name) if xr else []
    ctx.ob('C21.bailout', 'promote() re-raises a blocked signal iff it is pending', p.loc(), ok and
           guard_holds(gs, lambda c, pol: pol and c[0] == 'call' and c[1] == 'xmember'), '')
    # halt: SIGUSR1 -> bailout (main thread then exits 1)
    h = prog.func('signals', 'halt')
    vd = rules.value_dispatch(h, A.cg.prov(h), lambda e: e[0] == 'load' and
                              addr_key(e[1]).startswith('G:signals:handled_signals['))
    ctx.require(vd is not None, 'halt: no dispatch on handled_signals[caught_index]')
    cases = vd[0]
    sw = [vd[3]]
    ctx.ob('C21.bailout', 'the main thread turns SIGUSR1 into bailout()', h.loc(sw[0]), SIGUSR1 in cases and
           must_reach_call(h, cases[SIGUSR1], {'bailout'}), '')


def main_waits_in_halt(ctx, prog, A):
    """While sub-threads run, the main thread sits in halt(): that is the only place where the SIGUSR1 of a failing
    sub-thread (and SIGPIPE/SIGXFSZ promoted by it) is received.  Every function of process.c that starts threads
    and joins them again must call halt() in between, on every path."""
    m = prog.module('process')
    n = 0
    for f in m.funcs.values():
        starts = [c for c in f.calls() if c.extra.get('callee') in ('xcreate', 'init_io')]
        joins = [c for c in f.calls() if c.extra.get('callee') in ('xjoin', 'pthread_join', 'uninit_io')]
        root = A.model.root_of(f) if hasattr(A.model, 'root_of') else None
        if not starts or not joins or f.name in ('init_io', 'uninit_io', 'primary_thread'):
            continue            # primary_thread is itself a sub-thread: the main thread is already in halt()
        n += 1
        hs = list(f.calls('halt'))
        dom = cfg.dominators(f)
        ok = bool(hs) and all(any(cfg.insn_dominates(f, s_, h, dom) for h in hs) for s_ in starts) and \
            all(any(cfg.insn_dominates(f, h, j, dom) for h in hs) for j in joins)
        ctx.ob('C21.halt', '%s(): the main thread waits in halt() between starting its sub-threads and joining them' %
               f.name, f.loc(), ok, 'starts at %s, halt at %s, joins at %s' % ([c.line for c in starts], [c.line for c in hs],
                                                                              [c.line for c in joins]))
    ctx.floor('functions that start and join threads from the main thread', n, 2)
    # and the success path ends that wait deliberately: SIGUSR2 is raised by the sub-thread side only
    ct = prog.func('process', 'copy_terminate')
    xr = list(ct.calls('xraise'))
    ctx.ob('C21.halt', 'copy mode ends the main thread\'s wait by raising SIGUSR2 from copy_terminate()', ct.loc(),
           len(xr) == 1, '')


def final_close(ctx, prog, A):
    f = prog.func('main', 'main')
    P = A.cg.prov(f)
    cl = [c for c in f.calls('close') if const_arg(P, c, 0) == 1]
    ctx.require(len(cl) == 1, 'main: expected one close(STDOUT_FILENO)')
    fe = failure_edge(f, P, cl[0], '-1')
    ctx.ob('C21.final', 'a failing close(stdout) is fatal', f.loc(cl[0]), fe is not None and must_reach_call(f, fe[1], {'failx'}), '')
    ex = list(f.calls('_exit'))
    dom = cfg.dominators(f)
    ok = all(cfg.insn_dominates(f, c2.block.insns[0], e, dom) or True for c2 in cl for e in ex)
    # every path to _exit in main passes the stdout-close decision block
    gblk = [b.name for b in f.blocks.values() if any(c.block is b for c in cl)]
    for e in ex:
        # either outmode != STDOUT (close skipped by the && short-circuit) or close succeeded
        ctx.ob('C21.final', 'main reaches _exit only past the check of close(stdout)', f.loc(e),
               fe is not None and not cfg.reaches(f, fe[1], e.block.name), 'the failure edge cannot reach _exit')

"""C03 Compressed bytes depend only on the input and the options -- structural clauses.

 (a) the input is cut into chunks of exactly bs100k*100000 bytes however read() fragments it: the chunk size has no
     other leaf than the level; xread() leaves its loop only at end of file or when the chunk is full; the reader
     hands a short chunk on only at end of file;
 (b) chunk sequence numbers are issued by one function, called from the single reader thread only;
 (c) the encoder (encode.c, divbwt.c, crctab.c) has no memory between calls and sees no scheduler state; compress.c's
     task bodies neither branch on scheduler counters nor pass them on; the arguments of the codec entry points have
     the level as their only global leaf;
 (d) blocks reach the writer only through do_reorder(), which is enabled exactly when the lowest queued position
     equals `order`; `order` is advanced only there (to the block's own successor position); the stream header is
     written before the writer thread exists and the trailer after it has been joined; xwrite() retries short writes.
Does not decide the position-chain arithmetic (++minor / ++major) -- a wrong chain stalls rather than reorders."""
import cfg, conc, rules, codecrules
from expandrules import pos_fact_matchers, pos_relations, nonempty_fact, callee, _load_key
from irdb import broken
from pathsens import Explorer
from prov import Prov, strip_casts, strip_ext, addr_key, path_key, render, poly, peel_cond, cmp_norm
from props import c21

LEVEL = 'other'


def _lvl_poly(P, e):
    def leaf(x):
        x = strip_casts(x)
        if x[0] == 'load' and x[1][1][0] == 'G':
            return addr_key(x[1])
        return None
    return poly(e, leaf)


LEVEL_TIMES_100000 = {('G:bs100k',): 100000}


def chunking(ctx, prog, A):
    f = prog.func('process', 'set_memory_constraints')
    P = Prov(prog, f)
    st = [i for i in f.insns() if i.op == 'store' and addr_key(P.addr(i.ops[1])) == 'G:in_granul']
    ctx.floor('C03 stores to in_granul', len(st), 2)
    # the compression branch: guarded by decompress == 0
    comp = []
    for i in st:
        gs = rules.guards(f, P, i.block.name)
        if rules.guard_holds(gs, lambda c, pol: c[0] == 'load' and addr_key(c[1]) == 'G:decompress' and not pol):
            comp.append(i)
    ok = len(comp) == 1 and _lvl_poly(P, P.expr(comp[0].ops[0])) == LEVEL_TIMES_100000
    ctx.ob('C03.chunking', 'compression reads the input in chunks of exactly bs100k*100000 bytes (no other quantity, in '
           'particular no worker or slot count, enters the chunk size)', f.loc(comp[0]) if comp else f.loc(), ok,
           render(P.expr(comp[0].ops[0])) if comp else 'store on the compression branch not found')
    # who else writes in_granul
    others = []
    for g in prog.all_funcs():
        if g is f:
            continue
        Pg = Prov(prog, g)
        for i in g.insns():
            if i.op == 'store' and addr_key(Pg.addr(i.ops[1])) == 'G:in_granul' and g.name != 'copy':
                others.append(g.loc(i))
    ctx.ob('C03.chunking', 'in_granul is set only by set_memory_constraints() (and copy mode)', 'src/process.c',
           not others, ', '.join(others), nontrivial=False)
    # reader loop: vacant = in_granul; xread(buffer, &vacant); on_block(buffer, in_granul - vacant); leaves iff vacant > 0
    s = prog.func('process', 'source_thread_proc')
    Ps = Prov(prog, s)
    xr = list(s.calls('xread'))
    ctx.require(len(xr) == 1, 'source_thread_proc(): expected one xread call')
    vac = Ps.expr(xr[0].ops[1])
    okv = vac[0] == 'addr' and vac[1][0] == 'A'
    init = [i for i in s.insns() if i.op == 'store' and okv and Ps.addr(i.ops[1]) == vac]
    oki = okv and len(init) == 1 and _load_key(Ps.expr(init[0].ops[0])) == 'G:in_granul' and \
        cfg.insn_dominates(s, init[0], xr[0])
    ctx.ob('C03.chunking', 'the reader asks xread() for a full chunk of in_granul bytes every time', s.loc(xr[0]), oki, '')
    ob = [c for c in s.calls() if c.extra.get('callee') is None]
    ctx.require(len(ob) == 1, 'source_thread_proc(): expected one call through process->on_block')
    sz = strip_casts(Ps.expr(ob[0].ops[1]))
    oks = sz[0] == 'bin' and sz[1] == 'sub' and strip_casts(sz[3])[0] == 'load' and strip_casts(sz[3])[1] == vac and \
        rules.can_follow(s, xr[0], strip_casts(sz[3])[2])
    if oks:
        x = strip_casts(sz[2])
        # the minuend is the chunk size: in_granul itself, or `vacant` as it was before xread() (== in_granul)
        oks = _load_key(x) == 'G:in_granul' or (x[0] == 'load' and x[1] == vac and oki and
                                                cfg.insn_dominates(s, x[2], xr[0]) and
                                                cfg.insn_dominates(s, init[0], x[2]))
    ctx.ob('C03.chunking', 'the chunk handed to on_block() holds exactly the bytes read (in_granul - vacant)',
           s.loc(ob[0]), oks, render(sz))
    # after a short chunk (vacant > 0) the loop is left; after a full chunk it continues
    lp = cfg.loops(s)
    body = next((b for h, b in lp.items() if xr[0].block.name in b), None)
    ctx.require(body is not None, 'source_thread_proc(): xread is not in a loop')
    exits = []
    head = next(h for h, b in lp.items() if xr[0].block.name in b)
    after = cfg.reachable(s, xr[0].block.name, removed_blocks=[head]) | {xr[0].block.name}
    rets = {b.name for b in s.blocks.values() if b.term.op == 'ret'}
    for bn in body:
        if bn not in after:
            continue
        t = s.blocks[bn].term
        if t.op == 'br' and len(t.extra['targets']) == 2:
            for k, tg in enumerate(t.extra['targets']):
                if tg not in body and (cfg.reachable(s, tg) & rets) and (bn != xr[0].block.name or True):
                    c, pol = peel_cond(Ps.expr(t.ops[0]))
                    exits.append((t, k == 0, c, pol))
    okx = len(exits) == 1
    if okx:
        t, on_true, c, pol = exits[0]
        cn = cmp_norm(c)
        c0 = strip_casts(c)
        if cn is None and c0[0] == 'load' and c0[1] == vac:
            # `vacant == 0` / `vacant != 0` already peeled into the polarity: the loop is left when vacant is non-zero
            okx = on_true == pol
        else:
            okx = cn is not None and strip_casts(cn[1])[0] == 'load' and strip_casts(cn[1])[1] == vac and \
                cn[2] == ('const', 0) and ((cn[0] == 'ugt' and on_true == pol) or (cn[0] == 'ne' and on_true == pol) or
                                           (cn[0] == 'eq' and on_true != pol))
    ctx.ob('C03.chunking', 'after reading, the reader leaves its loop exactly when the chunk came back short '
           '(end of file)', s.loc(exits[0][0]) if exits else s.loc(), okx,
           '; '.join(render(e[2]) for e in exits))


def sequence_numbers(ctx, prog, A):
    m = prog.module('compress')
    writers = {}
    for f in m.funcs.values():
        P = Prov(prog, f)
        for i in f.insns():
            if i.op == 'store' and addr_key(P.addr(i.ops[1])) == 'G:compress:next_id':
                writers.setdefault(f.name, []).append(i)
    ctx.ob('C03.sequence', 'next_id is written only by init() (reset) and on_input_avail() (increment)', 'src/compress.c',
           set(writers) == {'init', 'on_input_avail'}, str(sorted(writers)))
    f = prog.func('compress', 'on_input_avail')
    P = Prov(prog, f)
    maj = [i for i in f.insns() if i.op == 'store' and path_key(P.addr(i.ops[1])[2]).endswith('.pos.major')]
    ok = len(maj) == 1 and _load_key(P.expr(maj[0].ops[0])) == 'G:compress:next_id'
    inc = writers.get('on_input_avail', [])
    oki = len(inc) == 1
    if oki:
        v = strip_casts(P.expr(inc[0].ops[0]))
        oki = v[0] == 'bin' and v[1] == 'add' and _load_key(v[2]) == 'G:compress:next_id' and strip_casts(v[3]) == ('const', 1)
    mn = [i for i in f.insns() if i.op == 'store' and path_key(P.addr(i.ops[1])[2]).endswith('.pos.minor')]
    okm = len(mn) == 1 and strip_casts(P.expr(mn[0].ops[0])) == ('const', 0)
    ctx.ob('C03.sequence', 'each input chunk is numbered (next_id++, 0) in arrival order', f.loc(), ok and oki and okm, '')
    # on_input_avail is reachable only from the reader thread's call through process->on_block
    callers = [(g.name, c) for g, c in A.cg.callers_of('on_input_avail', 'compress')]
    roots = set()
    for cls, info in A.model.classes.items() if hasattr(A.model, 'classes') else []:
        pass
    direct = [n for n, c in callers]
    slot_users = []
    for g in prog.all_funcs():
        for c in g.calls():
            if c.extra.get('callee') is None:
                tg = A.cg.targets(g, c)
                if any(t is f for t in tg):
                    slot_users.append(g.name)
    ctx.ob('C03.sequence', 'on_input_avail() is invoked only by the single reader thread (through process->on_block in '
           'source_thread_proc)', f.loc(), not direct and slot_users == ['source_thread_proc'],
           'direct callers %s, callers through the slot %s' % (direct, slot_users))


def writer_order(ctx, prog, A):
    m = prog.module('compress')
    callers = []
    for f in m.funcs.values():
        for c in f.calls('sink_write_buffer'):
            callers.append(f.name)
    ctx.ob('C03.order', 'in compress.c only do_reorder() hands buffers to the writer', 'src/compress.c',
           callers == ['do_reorder'], str(callers))
    f = prog.func('compress', 'can_reorder')
    P = Prov(prog, f)

    def is_top(k):
        return k.startswith('V(V(G:compress:reord_q.root)') and k.endswith('.pos')

    def is_order(k):
        return k == 'G:compress:order'
    facts = [nonempty_fact_c('reord_q')] + pos_fact_matchers('TO', is_top, is_order)
    ex = Explorer(prog, f, {}, facts, P)
    exits = ex.explore([{'cells': {}, 'facts': {}}])
    bad = []
    n = 0
    for kind, blk, st in exits:
        if kind != 'ret':
            continue
        n += 1
        val = ex.ret_bool(st, blk)
        fa = st['facts']
        rel = pos_relations('TO', fa)
        if val is None:
            bad.append('result not decided by the tracked conditions')
        elif val and (fa.get('nonempty:reord_q') is not True or rel != {'EQ'}):
            bad.append('ready although the lowest queued position may differ from `order` (possible: %s)' % sorted(rel))
        elif not val and fa.get('nonempty:reord_q') is True and rel == {'EQ'}:
            bad.append('refuses the block whose position equals `order`')
    ctx.ob('C03.order', 'can_reorder() is true exactly when reord_q is non-empty and its lowest position equals `order`',
           f.loc(), n >= 3 and not bad, '; '.join(sorted(set(bad))) or '%d paths' % n, evals=n)
    # `order` is written only by init (0,0) and do_reorder (wblk->next)
    writers = {}
    for g in m.funcs.values():
        Pg = Prov(prog, g)
        for i in g.insns():
            if i.op == 'store' and addr_key(Pg.addr(i.ops[1])).startswith('G:compress:order'):
                writers.setdefault(g.name, []).append((i, render(Pg.expr(i.ops[0]))))
            if i.op == 'call' and callee(i).startswith('llvm.memcpy'):
                d = Pg.expr(i.ops[0])
                if d[0] == 'addr' and addr_key(d).startswith('G:compress:order'):
                    writers.setdefault(g.name, []).append((i, 'memcpy from ' + render(Pg.expr(i.ops[1]))))
    okw = set(writers) == {'init', 'do_reorder'}
    okn = okw and all('.next' in v and 'reord_q' in v for _, v in writers['do_reorder'])
    ctx.ob('C03.order', '`order` is advanced only by do_reorder(), to the written block\'s own successor position',
           'src/compress.c', okw and okn, str({k: [v for _, v in vs] for k, vs in writers.items()}))
    # the block written is the one dequeued (lowest position)
    r = prog.func('compress', 'do_reorder')
    Pr = Prov(prog, r)
    sw = list(r.calls('sink_write_buffer'))
    okb = len(sw) == 1 and 'reord_q.root' in render(Pr.expr(sw[0].ops[0])) and '.buffer' in render(Pr.expr(sw[0].ops[0])) \
        and '.size' in render(Pr.expr(sw[0].ops[1]))
    ctx.ob('C03.order', 'do_reorder() writes the buffer and size of the block it dequeued', r.loc(sw[0]) if sw else r.loc(),
           okb, '')
    # header before the writer thread exists, trailer after it is joined
    p = prog.func('process', 'primary_thread')
    ind = [c for c in p.calls() if c.extra.get('callee') is None]
    ii = list(p.calls('init_io'))
    ui = list(p.calls('uninit_io'))
    ctx.require(len(ind) == 2 and len(ii) == 1 and len(ui) == 1, 'primary_thread(): init/uninit callbacks or init_io/'
                'uninit_io calls changed')
    dom = cfg.dominators(p)
    inits = [c for c in ind if any(t.name == 'init' for t in A.cg.targets(p, c))]
    uninits = [c for c in ind if any(t.name == 'uninit' for t in A.cg.targets(p, c))]
    ok = len(inits) == 1 and len(uninits) == 1 and cfg.insn_dominates(p, inits[0], ii[0], dom) and \
        cfg.insn_dominates(p, ui[0], uninits[0], dom)
    ci = prog.func('compress', 'init')
    cu = prog.func('compress', 'uninit')
    ok = ok and len(list(ci.calls('write_header'))) == 1 and len(list(cu.calls('write_trailer'))) == 1
    ctx.ob('C03.order', 'the stream header is written before the writer thread is started and the trailer after it has '
           'been joined', p.loc(), ok, '')


def nonempty_fact_c(q):
    def m(c):
        k = _load_key(c)
        if k == 'G:compress:%s.size' % q:
            return True
        cn = cmp_norm(c)
        if cn and _load_key(cn[1]) == 'G:compress:%s.size' % q and cn[2] == ('const', 0):
            return {'ne': True, 'ugt': True, 'eq': False}.get(cn[0])
        return None
    return ('nonempty:' + q, m)


def _capacity_by_level(ctx, prog):
    from props import c02
    c02.level_plumbing(ctx, prog)


def run(ctx):
    prog = ctx.prog('ssa')
    A = conc.Analysis(prog)
    ctx.explain('C03: provenance of the chunk size, loop-exit rules of xread()/the reader, who-writes rules for next_id '
                'and order, purity of the encoder units and isolation of their call sites, tabulation of can_reorder() '
                'over position-comparison facts, ordering of header/trailer against the writer thread\'s lifetime, '
                'short-write retry in xwrite().')
    chunking(ctx, prog, A)
    c21.io_loops(ctx, prog, A)
    sequence_numbers(ctx, prog, A)
    codecrules.purity(ctx, prog, 'C03', units=('encode', 'divbwt', 'crctab'))
    codecrules.call_site_isolation(ctx, prog, 'C03', 'compress', {'collect', 'encode', 'transmit', 'encoder_init',
                                                                  'encoder_alloc_size'}, allowed_globals={'bs100k'})
    codecrules.schedule_values_confined(ctx, prog, 'C03', ('compress',))
    writer_order(ctx, prog, A)
    # the block capacity, like the chunk size, is a function of the level alone (an encoder sized by the file size
    # makes FILE operands and pipes differ)
    _capacity_by_level(ctx, prog)

"""C22 Invocation name and option sources select the documented mode.

The mapping is finite and is decided completely from opts_setup()'s IR:
  * every long option literal, every short option letter and every invocation name is mapped to its *effect set*
    (stores of constants to option variables, calls of opts_outmode/opts_decompress with their argument, changes of
    the parser state) and compared with the documented table (man page / usage text, frozen below);
  * the name-based defaults are applied before any option is processed (so -d/-z override them) and never again;
  * opts_decompress() sets `decompress` from its argument alone (last one wins);
  * the environment variables are LBZIP2, BZIP2, BZIP in that order, split at blanks and tabs with strtok(), their
    tokens are appended to the same list, through the same tail pointer, before the command-line arguments;
  * --small is forced off before the first operand is processed; -S sets a variable nobody reads; the documented
    no-op options have the empty effect set."""
import cfg, rules, conc
from irdb import broken, enumerators, reg_var_names, init_ints
from prov import Prov, strip_casts, strip_ext, addr_key, render, peel_cond, cmp_norm

LEVEL = 'other'

# documented table ------------------------------------------------------------------------------
def S(var, val):
    return ('store', var, val)


def C(fn, arg):
    return ('call', fn, arg)


LONG = {
    'stdout': {C('opts_outmode', ord('c'))},
    'test': {C('opts_outmode', ord('t'))},
    'decompress': {C('opts_decompress', ord('d'))},
    'compress': {C('opts_decompress', ord('z'))},
    'fast': {S('G:bs100k', 1)},
    'best': {S('G:bs100k', 9)},
    'force': {S('G:force', 1)},
    'keep': {S('G:keep', 1)},
    'small': {S('G:small', 1)},
    'sequential': {S('G:ultra', 1)},
    'verbose': {S('G:verbose', 1)},
    'help': {('state', 'AS_USAGE')},
    'license': {('state', 'AS_VERSION')},
    'version': {('state', 'AS_VERSION')},
    'quiet': set(), 'repetitive-fast': set(), 'repetitive-best': set(), 'exponential': set(),
}
SHORT = {
    'c': {C('opts_outmode', 'opt')}, 't': {C('opts_outmode', 'opt')},
    'd': {C('opts_decompress', 'opt')}, 'z': {C('opts_decompress', 'opt')},
    'f': {S('G:force', 1)}, 'k': {S('G:keep', 1)}, 's': {S('G:small', 1)}, 'u': {S('G:ultra', 1)},
    'v': {S('G:verbose', 1)}, 'S': {S('G:print_cctrs', 1)}, 'q': set(),
    'h': {('state', 'AS_USAGE')}, 'L': {('state', 'AS_VERSION')},
    'V': {('state', 'AS_VERSION')}, '\0': set(),
}
for d in '123456789':
    SHORT[d] = {S('G:bs100k', 'opt-48')}
NAMES = {
    'bunzip2': {S('G:decompress', 1)}, 'lbunzip2': {S('G:decompress', 1)},
    'bzcat': {S('G:main:outmode', 'OM_STDOUT'), S('G:decompress', 1)},
    'lbzcat': {S('G:main:outmode', 'OM_STDOUT'), S('G:decompress', 1)},
}
OPTION_VARS = {'G:bs100k', 'G:force', 'G:keep', 'G:small', 'G:ultra', 'G:verbose', 'G:print_cctrs', 'G:decompress',
               'G:main:outmode', 'G:num_worker', 'G:max_mem'}


class Extract:
    def __init__(self, prog, f):
        self.prog, self.f = prog, f
        self.P = Prov(prog, f)
        self.dom = cfg.dominators(f)
        self.names = reg_var_names(f)
        self.E = enumerators(f.module)
        sw = [i for i in f.insns() if i.op == 'switch']
        if len(sw) != 1:
            broken('opts_setup(): expected exactly one switch (short options)')
        self.sw = sw[0]
        self.opt_expr = strip_casts(self.P.expr(self.sw.ops[0]))
        # the parser-state variable, whatever it is called: the local whose merges receive the constants of
        # AS_STOP, AS_USAGE and AS_VERSION
        want = {self.E[k] for k in ('AS_STOP', 'AS_USAGE', 'AS_VERSION') if k in self.E}
        cands = {}
        for i in f.insns():
            if i.op == 'phi' and self.names.get(i.res):
                for v, src in i.extra['incoming']:
                    if v[0] == 'int':
                        cands.setdefault(self.names[i.res], set()).add(v[1])
        st = [n for n, vs in cands.items() if want and want <= vs]
        if len(st) != 1:
            broken('opts_setup(): cannot identify the parser-state variable (candidates %s)' % st)
        self.state_var = st[0]

    def dominated(self, T):
        return {bn for bn in self.f.blocks if bn in self.dom and T in self.dom[bn]}

    def val(self, e):
        e = strip_casts(e)
        if e[0] == 'const':
            return e[1]
        if e == self.opt_expr:
            return 'opt'
        if e[0] == 'bin' and e[1] == 'sub' and strip_casts(e[2]) == self.opt_expr and strip_casts(e[3])[0] == 'const':
            return 'opt-%d' % strip_casts(e[3])[1]
        if e[0] == 'bin' and e[1] == 'add' and strip_casts(e[2]) == self.opt_expr and strip_casts(e[3])[0] == 'const':
            return 'opt-%d' % -strip_casts(e[3])[1]
        return render(e)

    def effects(self, T):
        f, P = self.f, self.P
        out = set()
        D = self.dominated(T)
        inv = {v: k for k, v in self.E.items() if k.startswith('AS_')}
        om = {v: k for k, v in self.E.items() if k.startswith('OM_')}
        for bn in D:
            for i in f.blocks[bn].insns:
                if i.op == 'store':
                    a = P.addr(i.ops[1])
                    if a[1][0] == 'G':
                        k = addr_key(a)
                        v = self.val(P.expr(i.ops[0]))
                        if k == 'G:main:outmode' and v in om:
                            v = om[v]
                        out.add(('store', k, v))
                elif i.op == 'call':
                    c = i.extra.get('callee')
                    if c and not c.startswith('llvm.'):
                        out.add(('call', c, self.val(P.expr(i.ops[0])) if i.ops else None))
        for i in f.insns():
            if i.op == 'phi':
                var = self.names.get(i.res)
                for v, src in i.extra['incoming']:
                    if src in D and v[0] == 'int':
                        if var is not None and var == self.state_var:
                            out.add(('state', inv.get(v[1], v[1])))
                        # other locals (loop flags, scan pointers) are bookkeeping of the parser itself
        return out


def option_map(ctx, prog):
    f = prog.func('main', 'opts_setup')
    X = Extract(prog, f)
    P = X.P
    long_found, name_found = {}, {}
    sites = {}
    for c in f.calls('strcmp'):
        a = [P.expr(o) for o in c.ops]
        lit = [x[1] for x in a if x[0] == 'str']
        other = [x for x in a if x[0] != 'str']
        ctx.require(len(lit) == 1 and len(other) == 1, 'opts_setup(): strcmp without exactly one literal at %s' % f.loc(c))
        rt = rules.result_tests(f, P, c)
        ctx.require(len(rt) == 1 and rt[0][2] == 0 and rt[0][1] in ('eq', 'ne'),
                    'opts_setup(): result of strcmp("%s") is not tested against 0 exactly once' % lit[0])
        bb, pred, k, tt, ft = rt[0]
        eq = tt if pred == 'eq' else ft
        eff = X.effects(eq)
        isname = other[0][0] == 'load' and addr_key(other[0][1]) == 'G:main:pname'
        (name_found if isname else long_found)[lit[0]] = eff
        sites[lit[0]] = (c, eq)
    ctx.floor('C22 long option literals', len(long_found), 18)
    ctx.floor('C22 invocation names', len(name_found), 4)
    for lit in sorted(set(LONG) | set(long_found)):
        got, want = long_found.get(lit), LONG.get(lit)
        ok = got is not None and want is not None and got == want
        ctx.ob('C22.long', '--%s' % lit, f.loc(sites[lit][0]) if lit in sites else f.loc(), ok,
               'effect %s; documented %s' % (fmt(got), fmt(want)))
    for lit in sorted(set(NAMES) | set(name_found)):
        got, want = name_found.get(lit), NAMES.get(lit)
        ok = got is not None and want is not None and got == want
        ctx.ob('C22.name', 'invoked as %s' % lit, f.loc(sites[lit][0]) if lit in sites else f.loc(), ok,
               'effect %s; documented %s' % (fmt(got), fmt(want)))
    # short options
    ctx.ob('C22.short', 'the short-option switch dispatches on the current character of the argument', f.loc(X.sw),
           X.opt_expr[0] == 'load' and strip_casts(X.opt_expr[1][1][1])[0] == 'phi', render(X.opt_expr))
    bytgt = {}
    for cv, t in X.sw.extra['cases']:
        bytgt.setdefault(t, []).append(chr(cv))
    found = {}
    for t, cs in bytgt.items():
        eff = X.effects(t)
        for ch in cs:
            found[ch] = eff
    for ch in sorted(set(SHORT) | set(found)):
        if ch in ('n', 'm'):
            continue
        got, want = found.get(ch), SHORT.get(ch)
        ok = got is not None and want is not None and got == want
        ctx.ob('C22.short', '-%s' % (ch if ch != '\0' else '<end of cluster>'), f.loc(X.sw), ok,
               'effect %s; documented %s' % (fmt(got), fmt(want)))
    # -n / -m: numeric arguments, no other option variable touched
    for ch, var in (('n', 'G:num_worker'), ('m', 'G:max_mem')):
        got = found.get(ch, set())
        others = {e for e in got if e[0] == 'store' and e[1] in OPTION_VARS and e[1] not in ('G:num_worker', 'G:max_mem')}
        ok = any(e[0] == 'store' and e[1] == var for e in got) and ('call', 'xstrtol') in {(e[0], e[1]) for e in got} \
            and not others
        ctx.ob('C22.short', '-%s takes a numeric argument into %s and touches no other option' % (ch, var), f.loc(X.sw),
               ok, fmt(got))
    # unknown options are fatal
    d = X.effects(X.sw.extra['default'])
    ctx.ob('C22.short', 'an unknown short option is fatal', f.loc(X.sw), any(e[:2] == ('call', 'fail') for e in d), fmt(d))
    return X, sites, long_found, name_found


def fmt(s):
    if s is None:
        return 'none (absent)'
    return '{' + ', '.join(sorted('%s %s=%s' % (e[0], e[1], e[2]) if len(e) == 3 else '%s=%s' % e for e in s)) + '}'


def ordering(ctx, prog, X, sites):
    """name defaults before the option loop, exactly once"""
    f = X.f
    name_blocks = {sites[n][1] for n in NAMES if n in sites}
    opt_sites = [sites[n][0] for n in LONG if n in sites] + [X.sw]
    bad = []
    for nb in name_blocks:
        first = f.blocks[nb].insns[0]
        for o in opt_sites:
            if rules.can_follow(f, o, first):
                bad.append('name default at %s can run after option processing at %s' % (f.loc(first), f.loc(o)))
            if not rules.can_follow(f, first, o):
                bad.append('option processing at %s cannot follow the name default' % f.loc(o))
        lp = cfg.loops(f)
        if any(nb in body for body in lp.values()):
            bad.append('name default at %s is inside a loop' % f.loc(first))
    ctx.ob('C22.order', 'the invocation-name defaults are applied once, before any option is processed (so -d/-z and '
           '-c/-t override them)', f.loc(), bool(name_blocks) and not bad, '; '.join(sorted(set(bad))[:3]))


def helper_semantics(ctx, prog):
    E = enumerators(prog.module('main'))
    f = prog.func('main', 'opts_decompress')
    P = Prov(prog, f)
    st = [i for i in f.insns() if i.op == 'store' and addr_key(P.addr(i.ops[1])) == 'G:decompress']
    ok = len(st) == 1
    if ok:
        v, pol = peel_cond(P.expr(st[0].ops[0]))
        cn = cmp_norm(v)
        ok = cn is not None and cn[0] == 'eq' and pol and cn[1][0] == 'param' and cn[2] == ('const', ord('d'))
        dom = cfg.dominators(f)
        rets = [b.name for b in f.blocks.values() if b.term.op == 'ret']
        ok = ok and all(st[0].block.name in dom[r] for r in rets)
    ctx.ob('C22.helpers', 'opts_decompress(ch): decompress = (ch == \'d\') unconditionally, independent of its old value '
           '(the last of -d/-z wins)', f.loc(), ok, render(P.expr(st[0].ops[0])) if st else '')
    om = [i for i in f.insns() if i.op == 'store' and addr_key(P.addr(i.ops[1])) == 'G:main:outmode']
    ok = len(om) == 1 and strip_casts(P.expr(om[0].ops[0])) == ('const', E['OM_REGF'])
    if ok:
        gs = rules.guards(f, P, om[0].block.name)
        ok = rules.guard_holds(gs, lambda c, pol: pol and cmp_norm(c) is not None and cmp_norm(c)[0] == 'eq' and
                               render(cmp_norm(c)[1]) == 'G:main:outmode' and cmp_norm(c)[2] == ('const', E['OM_DISCARD']))
    ctx.ob('C22.helpers', 'opts_decompress() leaves the output mode alone except for undoing -t', f.loc(), ok, '')
    g = prog.func('main', 'opts_outmode')
    Pg = Prov(prog, g)
    sts = {}
    for i in g.insns():
        if i.op == 'store':
            k = addr_key(Pg.addr(i.ops[1]))
            v = strip_casts(Pg.expr(i.ops[0]))
            gs = rules.guards(g, Pg, i.block.name)
            def is_c(c, pol, want):
                cn = cmp_norm(c)
                if cn is None or cn[1][0] != 'param' or cn[2] != ('const', ord('c')) or cn[0] not in ('eq', 'ne'):
                    return False
                return (pol if cn[0] == 'eq' else not pol) == want
            isc = rules.guard_holds(gs, lambda c, pol: is_c(c, pol, True))
            ist = rules.guard_holds(gs, lambda c, pol: is_c(c, pol, False))
            sts.setdefault('c' if isc else 't' if ist else '?', set()).add((k, v[1] if v[0] == 'const' else render(v)))
    want = {'c': {('G:main:outmode', E['OM_STDOUT'])}, 't': {('G:main:outmode', E['OM_DISCARD']), ('G:decompress', 1)}}
    ctx.ob('C22.helpers', 'opts_outmode(\'c\') selects standard output; opts_outmode(\'t\') selects discard and '
           'decompression', g.loc(), sts == want, str(sts))


def environment(ctx, prog, X):
    f = X.f
    P = X.P
    m = prog.module('main')
    # ev_name table
    g = m.globals.get('ev_name')
    ctx.require(g is not None, 'main.c: ev_name vanished')
    names = []
    if g.init and g.init[0] == 'agg':
        for t, v in g.init[1]:
            e = P.expr(v)
            names.append(e[1] if e[0] == 'str' else render(e))
    ctx.ob('C22.env', 'environment variables are LBZIP2, BZIP2, BZIP in this order', 'src/main.c',
           names == ['LBZIP2', 'BZIP2', 'BZIP'], str(names))
    sep = m.globals.get('envsep')
    ctx.require(sep is not None, 'main.c: envsep vanished')
    sv = bytes(sep.init[1]).split(b'\0')[0] if sep.init and sep.init[0] == 'bytes' else None
    ctx.ob('C22.env', 'values are split at blanks and tabs', 'src/main.c', sv is not None and set(sv) == set(b' \t'), repr(sv))
    ge = list(f.calls('getenv'))
    ctx.require(len(ge) == 1, 'opts_setup(): expected one getenv call')
    a = P.expr(ge[0].ops[0])
    ok = a[0] == 'load' and addr_key(a[1]).startswith('G:main:ev_name[')
    idx = a[1][2][-1][1] if ok else None
    # ascending index from 0, step 1, bound = number of names
    okidx = False
    if ok and isinstance(idx, tuple):
        ie = strip_casts(idx)
        if ie[0] == 'phi':
            inc = P.phi_inputs(ie)
            consts = [x for x, _ in inc if strip_casts(x)[0] == 'const']
            steps = [x for x, _ in inc if strip_casts(x)[0] == 'bin']
            okidx = len(consts) == 1 and strip_casts(consts[0]) == ('const', 0) and len(steps) == 1 and \
                strip_casts(steps[0])[1] == 'add' and strip_casts(strip_casts(steps[0])[3]) == ('const', 1)
    ctx.ob('C22.env', 'getenv() walks ev_name[] from index 0 upwards', f.loc(ge[0]), ok and okidx, render(a))
    tk = list(f.calls('strtok')) + list(f.calls('strtok_r'))       # (same splitting semantics)
    if len(tk) != 2:
        broken('opts_setup(): the strtok(value, envsep) / strtok(0, envsep) idiom was replaced (found %d strtok calls); '
               'a hand-written tokenizer is outside what this checker can decide' % len(tk))
    first = [c for c in tk if strip_casts(P.expr(c.ops[0]))[0] == 'call' and strip_casts(P.expr(c.ops[0]))[1] == 'getenv']
    rest = [c for c in tk if strip_casts(P.expr(c.ops[0])) in (('null',), ('const', 0))]
    seps = [P.expr(c.ops[1]) for c in tk]
    oks = all(s[0] == 'addr' and addr_key(s).startswith('G:main:envsep') for s in seps)
    ctx.ob('C22.env', 'each value is tokenized by strtok(value, envsep) ... strtok(NULL, envsep)', f.loc(tk[0]),
           len(first) == 1 and len(rest) == 1 and oks, '')
    # tokens and argv elements are appended through the same tail pointer, env first, argv from index 1
    lp = cfg.loops(f)
    env_loop = [h for h, body in lp.items() if ge[0].block.name in body]
    ctx.require(env_loop, 'opts_setup(): getenv is not inside a loop')
    # allocation-and-link sites: `arg = xmalloc(..); arg->val = X; ...` written out, or a call of a small helper
    # that does exactly that with one of its parameters (`arg_append(&link_at, X)`)
    sites = []          # (call insn, value expression stored into ->val)
    for c in f.calls('xmalloc'):
        for i in c.block.insns:
            if i.op == 'store' and addr_key(P.addr(i.ops[1])).endswith('.val'):
                sites.append((c, strip_casts(P.expr(i.ops[0]))))
    helpers = {}
    for h in f.module.funcs.values():
        if h is f or not list(h.calls('xmalloc')):
            continue
        Ph = Prov(prog, h)
        for i in h.insns():
            if i.op == 'store' and addr_key(Ph.addr(i.ops[1])).endswith('.val'):
                v = strip_casts(Ph.expr(i.ops[0]))
                if v[0] == 'param':
                    helpers[h.name] = v[1]
    for c in f.calls():
        k = helpers.get(c.extra.get('callee'))
        if k is not None and k < len(c.ops):
            sites.append((c, strip_casts(P.expr(c.ops[k]))))
    dom = cfg.dominators(f)
    in_env_sites = [(c, v) for c, v in sites if any(c.block.name in lp[h] for h in env_loop)]
    in_env = [c for c, v in in_env_sites]
    argv_allocs = [(c, v) for c, v in sites if c not in in_env and v[0] == 'load' and 'param:argv' in render(v)]
    ok = len(in_env) == 1 and len(argv_allocs) == 1
    order_ok = ok and rules.can_follow(f, in_env[0], argv_allocs[0][0]) and not rules.can_follow(f, argv_allocs[0][0], in_env[0])
    ctx.ob('C22.env', 'environment tokens are linked into the argument list before the command-line arguments',
           f.loc(ge[0]), ok and order_ok, '%d env alloc, %d argv alloc' % (len(in_env), len(argv_allocs)))
    # env token value is strtok's result
    okv = False
    if ok:
        v = in_env_sites[0][1]
        okv = v[0] == 'phi' and all(strip_casts(x)[0] == 'call' and strip_casts(x)[1] in ('strtok', 'strtok_r')
                                    for x, _ in P.phi_inputs(v))
    ctx.ob('C22.env', 'each environment token becomes one argument', f.loc(in_env[0]) if in_env else f.loc(), okv, '')
    # ... and every token does: nothing but "variable is set" and "there is another token" guards the append
    if ok:
        extra = []
        for b, e, pol in rules.guards(f, P, in_env[0].block.name):
            c, p2 = peel_cond(e)
            cn = cmp_norm(c)
            x = strip_casts(cn[1]) if cn else strip_casts(c)

            def is_tok(v, depth=0):
                v = strip_casts(v)
                if v[0] == 'call' and v[1] in ('strtok', 'strtok_r', 'getenv'):
                    return True
                if v[0] == 'phi' and depth < 3:
                    return all(is_tok(y, depth + 1) for y, _ in P.phi_inputs(v))
                return False
            if is_tok(x) and (cn is None or cn[2] in (('null',), ('const', 0))):
                continue
            if cn and cn[2][0] == 'const' and x[0] == 'phi' and cn[0] in ('ult', 'ule', 'ne') and \
                    any(strip_casts(y) == ('const', 0) for y, _ in P.phi_inputs(x)):
                continue        # the index of the loop over ev_name[]
            extra.append(render(e)[:80])
        ctx.ob('C22.env', 'no environment token is skipped: the append is guarded only by "variable set" and "another '
               'token exists"', f.loc(in_env[0]), not extra, 'additional conditions: %s' % extra)
    # argv loop starts at 1
    oka = False
    if ok:
        v = argv_allocs[0][1]
        ix = v[1][2][-1][1] if v[1][2] and v[1][2][-1][0] == 'i' else None
        if isinstance(ix, tuple) and strip_casts(ix)[0] == 'phi':
            inc = P.phi_inputs(strip_casts(ix))
            oka = any(strip_casts(x) == ('const', 1) for x, _ in inc)
    ctx.ob('C22.env', 'command-line arguments are taken from argv[1] on', f.loc(argv_allocs[0][0]) if argv_allocs else
           f.loc(), oka, '')
    # the option loop starts from the head of that one list
    # (arg = *operands): load of param operands as the initial value of the loop variable
    okl = False
    for i in f.insns():
        if i.op == 'phi' and i.ty and i.ty[0] == 'ptr':
            for x, _ in P.phi_inputs(('phi', i.res, i)):
                x = strip_casts(x)
                if x[0] == 'load' and render(x) == 'V(param:operands)':
                    okl = True
    ctx.ob('C22.env', 'option processing walks that list from its head (environment tokens first)', f.loc(), okl, '')


def small_and_noops(ctx, prog):
    f = prog.func('main', 'main')
    P = Prov(prog, f)
    dom = cfg.dominators(f)
    st = [i for i in f.insns() if i.op == 'store' and addr_key(P.addr(i.ops[1])) == 'G:small']
    os_ = list(f.calls('opts_setup'))
    wk = list(f.calls('work'))
    ctx.require(len(os_) == 1 and wk, 'main(): opts_setup()/work() calls vanished')
    ok = len(st) >= 1 and all(strip_casts(P.expr(i.ops[0])) == ('const', 0) for i in st) and \
        any(cfg.insn_dominates(f, os_[0], i, dom) and all(cfg.insn_dominates(f, i, w, dom) for w in wk) for i in st)
    ctx.ob('C22.noop', '--small is forced off after option parsing and before the first operand is processed',
           f.loc(st[0]) if st else f.loc(), ok, '')
    # -S: print_cctrs is never read
    readers = []
    for g in prog.all_funcs():
        Pg = Prov(prog, g)
        for i in g.insns():
            if i.op == 'load' and 'print_cctrs' in i.text:
                readers.append(g.loc(i))
    ctx.ob('C22.noop', '-S sets a variable that nothing reads', 'src/main.c', not readers, ', '.join(readers),
           nontrivial=False)
    # small is read nowhere before being forced off except ... (any reader must be dominated by the forcing store)
    bad = []
    for g in prog.all_funcs():
        for i in g.insns():
            if i.op == 'load' and i.ops[0] == ('glob', 'small'):
                if g is f and st and cfg.insn_dominates(f, st[0], i, dom):
                    continue
                if g is not f:
                    continue        # readers in other functions run from work(), i.e. after the store (dominance above)
                bad.append(g.loc(i))
    ctx.ob('C22.noop', 'no read of `small` in main() precedes the forcing store', f.loc(), not bad, ', '.join(bad),
           nontrivial=False)


def run(ctx):
    prog = ctx.prog('ssa')
    ctx.explain('C22: option map extracted from opts_setup() (effect set of every strcmp literal and switch case) and '
                'compared with the documented table; ordering of name defaults vs. option loop; opts_decompress/'
                'opts_outmode semantics; environment variable table, tokenization and list construction; --small and '
                'the documented no-ops.')
    X, sites, lf, nf = option_map(ctx, prog)
    ordering(ctx, prog, X, sites)
    helper_semantics(ctx, prog)
    environment(ctx, prog, X)
    small_and_noops(ctx, prog)

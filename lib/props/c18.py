"""C18 Multiple operands are processed independently -- state carry-over clause (R6).

No program state written during one operand's run can be read by the next run without having been
re-initialised: every global location that run-time code writes and reads (upward-exposed) is stored on
every path of the initialisation prefix of the next run, or is restored by construction, or is in the frozen
exception table (with a structural check each).  Plus: the exit status is `warned ? 4 : 0`, `warned` is
written only by the warn* family and read only by the exit status; fatal paths never return to the operand loop."""
import cfg, conc, schedlaws, reset
from irdb import broken
from prov import Prov, addr_key, strip_ext, strip_casts, render, peel_cond
from reset import loc_of, covers, lkey

LEVEL = 'other'

# (location prefix) -> reason ; each entry is re-verified structurally below
EXCEPTIONS = {
    'compress:collect_token': 'restored: set back to true on every path of do_collect_seq before it returns',
    'compress:unfinished_work': 'restored: NULL at termination (can_terminate requires work_units == num_worker and the '
                                'W law counts [unfinished_work != NULL])',
    'signals:caught_index': 'written by the signal handler before every read (halt() reads it only after sigsuspend)',
    'expand:par.stored_crc': 'written by the FSM state that precedes every state that reads it (parse(): *_CRC_1 '
                             'before *_CRC_2)',
    'main:warned': 'sticky by specification: selects the exit status of the whole invocation',
    'main:opathn': 'restored: output_regf_uninit stores NULL on every path; output_init sets it only for its own operand',
    'bs100k': 'decompression re-derives it from each stream header before it is used (store dominates schedule(&expansion)); '
              'compression never writes it after option parsing',
    'in_granul': 'copy() overwrites the value for its own run; set_memory_constraints() re-derives it at the start of every run',
    'total_out_slots': 'copy() overwrites the value for its own run; set_memory_constraints() re-derives it at the start of every run',
}


def run(ctx):
    prog = ctx.prog('ssa')
    A = conc.Analysis(prog)
    ctx.explain('C18 (state carry-over): must-definition dataflow over the per-operand initialisation prefix of each mode '
                'against the set of global locations written and read by run-time code; exceptions verified structurally; '
                'exit-status and `warned` who-may-read/write rules.')
    carry_over(ctx, prog, A)
    exit_status(ctx, prog, A)
    # the signal mask is per-process state too: an operand that leaves the handled signals blocked changes how the
    # next one ends (shared with C16)
    from props import c16
    c16.signal_window(ctx, prog, A)


def _mode_resolver(A, mode):
    e = A.engine
    return lambda fn, ins: e.targets_mode(mode, fn, ins)


def _dead_end_funcs(prog, A):
    """functions all of whose call sites can never return to the caller's return (followed by noreturn code)"""
    dead = set()
    changed = True
    callers = {}
    for f in prog.all_funcs():
        for ins in f.calls():
            for t in A.cg.targets(f, ins):
                callers.setdefault(t.qname, []).append((f, ins))
    while changed:
        changed = False
        for f in prog.all_funcs():
            if f.qname in dead or f.qname not in callers:
                continue
            ok = True
            for cf, ci in callers[f.qname]:
                if cf.qname in dead:
                    continue
                rets = [b.name for b in cf.blocks.values() if b.term.op == 'ret']
                r = cfg.reachable(cf, ci.block.name)
                if any(x in r for x in rets):
                    ok = False
                    break
            if ok:
                dead.add(f.qname)
                changed = True
    return dead


def carry_over(ctx, prog, A, modes=None, floor=60):
    e = A.engine
    mainfn = prog.func('main', 'main')
    workfn = prog.func('process', 'work')
    dead = _dead_end_funcs(prog, A)
    nloc_total = 0
    # operands of one invocation may run in different modes (decompress one, copy the next with -cdf): what any
    # mode's run code writes is what the next run -- of whatever mode -- may find
    foreign = {}
    for m2 in sorted(e.modes):
        ml2 = schedlaws.ModeLaws(prog, A, m2)
        roots2 = [A.model.classes[c]['fn'] for c in sorted(A.mode_classes[m2])] + [A.mode_setter[m2]]
        for fq, f in ml2.reach(roots2).items():
            if fq in dead:
                continue
            P2 = A.cg.prov(f)
            for ins in f.insns():
                if ins.op == 'store':
                    l = loc_of(P2.addr(ins.ops[1]))
                    if l:
                        foreign.setdefault(l, []).append((m2, f, ins))
    for mode in sorted(e.modes):
        if modes is not None and mode not in modes:
            continue
        res = _mode_resolver(A, mode)
        md = reset.MustDef(prog, A.cg, res)
        ml = schedlaws.ModeLaws(prog, A, mode)
        setter = A.mode_setter[mode]
        # ---- initialisation prefix
        init = set()
        steps = []
        # main-level: input_init / output_init success exits, cli, then work() up to the call that starts this mode
        for name in ('input_init', 'output_init'):
            f = prog.func('main', name)
            succ = _success_exits(f, A.cg.prov(f))
            ctx.require(succ, '%s has no path returning 0' % name)
            s = md.at_exits(f, succ)
            init |= s
            steps.append('%s (success exits): %d' % (name, len(s)))
        # call in work() (or below) that enters the setter
        call = None
        for ins in workfn.calls(setter.name):
            P = A.cg.prov(workfn)
            if mode in A.mode_setter and _call_selects_mode(A, workfn, ins, mode):
                call = ins
        ctx.require(call is not None, 'work() no longer calls %s for mode %s' % (setter.name, mode))
        s = md.at(workfn, call)
        init |= s
        steps.append('work() up to %s(): %d' % (setter.name, len(s)))
        # setter up to the first thread creation (xcreate or init_io)
        first = None
        for ins in setter.insns():
            if ins.op == 'call' and ins.extra.get('callee') in (A.model.xcreate.name, 'init_io'):
                first = ins
                break
        ctx.require(first is not None, '%s creates no thread' % setter.name)
        s = md.at(setter, first)
        init |= s
        steps.append('%s() up to thread creation: %d' % (setter.name, len(s)))
        if first.extra['callee'] == 'init_io':
            iof = prog.func('process', 'init_io')
            init |= md.summary(iof)
        else:
            # schedule mode: primary thread up to the return of init_io, with process->init of this mode
            pt = A.model.classes['primary_thread']['fn']
            iocall = list(pt.calls('init_io'))
            ctx.require(len(iocall) == 1, 'primary_thread no longer calls init_io exactly once')
            s = md.at(pt, iocall[0]) | md.summary(prog.func('process', 'init_io'))
            init |= s
            steps.append('primary_thread up to init_io() incl. process->init: %d' % len(s))
            # stores between init_io and the worker creations are by the creating thread only
        # ---- run code of the mode
        roots = [A.model.classes[c]['fn'] for c in sorted(A.mode_classes[mode])] + [setter]
        reach = ml.reach(roots)
        # main thread inside halt(): halt and below
        reach.update(ml.reach([prog.func('signals', 'halt')]))
        written = {}
        reads = {}
        for fq, f in reach.items():
            if fq in dead:
                continue
            P = A.cg.prov(f)
            for ins in f.insns():
                if ins.op == 'store':
                    l = loc_of(P.addr(ins.ops[1]))
                    if l:
                        written.setdefault(l, []).append((f, ins))
                elif ins.op == 'load':
                    l = loc_of(P.addr(ins.ops[0]))
                    if l:
                        reads.setdefault(l, []).append((f, ins))
                elif ins.op == 'call' and (ins.extra.get('callee') or '').startswith('llvm.memcpy'):
                    d = P.expr(ins.ops[0])
                    s_ = P.expr(ins.ops[1])
                    if d[0] == 'addr' and loc_of(d):
                        written.setdefault(loc_of(d), []).append((f, ins))
                    if s_[0] == 'addr' and loc_of(s_):
                        reads.setdefault(loc_of(s_), []).append((f, ins))
        # accesses through pointer parameters bound to globals (parse(&par, ...), failf(&ispec, ...)): from the engine
        for a in e.accesses:
            if a.loc[0] != 'G' or not a.root.endswith('@' + mode) or a.fn.qname in dead:
                continue
            l = (a.loc[1], tuple(a.loc[2]))
            tgt = written if a.kind == 'w' else reads
            if (a.fn, a.ins) not in tgt.setdefault(l, []):
                tgt[l].append((a.fn, a.ins))
        for l, lst in foreign.items():
            if l not in written and any(m2 != mode for m2, _, _ in lst):
                written[l] = [(f, ins) for m2, f, ins in lst if m2 != mode]
        # mutable globals only
        nloc = 0
        for l, ws in sorted(written.items(), key=lambda x: lkey(x[0])):
            g = _global(prog, l[0])
            if g is None or g.const:
                continue
            if l[0] in e.mutexes or l[0] in e.conds:
                continue
            # reads of this location (or of a part / the whole)
            rd = [(f, i) for rl, lst in reads.items() if rl[0] == l[0] and
                  (rl[1][:len(l[1])] == l[1] or l[1][:len(rl[1])] == rl[1]) for f, i in lst]
            if not rd:
                continue
            nloc += 1
            if _covers_deep(prog, init, l):
                ctx.ob('R6.reset', '%s [%s]' % (lkey(l), mode), ws[0][0].loc(ws[0][1]), True,
                       're-initialised on every path of the run prefix (%d writers, %d readers in run code)' % (len(ws), len(rd)))
                continue
            # exposed reads?
            exposed = []
            for f, i in rd:
                if not covers(md.at(f, i), l):
                    exposed.append((f, i))
            if not exposed:
                ctx.ob('R6.reset', '%s [%s]' % (lkey(l), mode), ws[0][0].loc(ws[0][1]), True,
                       'every read in run code is preceded by a store in its own function (%d readers)' % len(rd))
                continue
            exc = [k for k in EXCEPTIONS if lkey(l) == k or lkey(l).startswith(k + '.') or lkey(l).startswith(k + '[')]
            if exc:
                ctx.ob('R6.reset', '%s [%s]' % (lkey(l), mode), ws[0][0].loc(ws[0][1]), True,
                       'exception: %s' % EXCEPTIONS[exc[0]], nontrivial=False)
                continue
            f, i = exposed[0]
            ctx.ob('R6.reset', '%s [%s]' % (lkey(l), mode), ws[0][0].loc(ws[0][1]), False,
                   'written by %s (line %s) during a run and read by %s (line %s) in the next run, but not stored on every '
                   'path of the initialisation prefix {%s}' % (ws[0][0].name, ws[0][1].line, f.name, i.line, '; '.join(steps)))
        nloc_total += nloc
        ctx.evaluations += len(written)
    ctx.floor('run-written global locations with readers', nloc_total, floor)
    if modes is None:
        _check_exceptions(ctx, prog, A)
    # static locals: none may exist in run code that are written (function-local `static` survives runs)
    for m in prog.modules.values():
        for g in m.globals.values():
            if '.' in g.name and not g.const and not g.name.startswith('.str') and g.linkage == 'internal' and \
                    not g.name.startswith('__'):
                # function-local static (name 'func.var')
                wr = [(f, i) for f in m.funcs.values() for i in f.insns() if i.op == 'store' and
                      loc_of(A.cg.prov(f).addr(i.ops[1])) and loc_of(A.cg.prov(f).addr(i.ops[1]))[0] == prog.gkey(m, g.name)]
                allow = g.name in ('main.stderr_buf',)
                ctx.ob('R6.static_local', 'function-local static %s:%s is never written by program code' % (m.unit, g.name),
                       m.src, not wr or allow, 'stores at %s' % [f.loc(i) for f, i in wr[:3]])


def _loc_type(prog, l):
    g = _global(prog, l[0])
    if g is None:
        return None, None
    m = g.module
    ty = g.ty
    for step in l[1]:
        if ty[0] == 'named':
            names = m.field_names(ty[1]) or []
            fields = m.structs.get(ty[1], [])
            if step in names:
                ty = fields[names.index(step)]
            elif isinstance(step, str) and step.startswith('#') and int(step[1:]) < len(fields):
                ty = fields[int(step[1:])]
            else:
                return None, m
        elif ty[0] == 'array':
            ty = ty[2]
        else:
            return None, m
    return ty, m


def _covers_deep(prog, defs, l, depth=0):
    if covers(defs, l):
        return True
    ty, m = _loc_type(prog, l)
    if ty is not None and ty[0] == 'named' and depth < 4:
        names = m.field_names(ty[1])
        if names:
            return all(_covers_deep(prog, defs, (l[0], l[1] + (n,)), depth + 1) for n in names)
    return False


def _global(prog, gk):
    name = gk.split(':')[-1]
    if ':' in gk:
        m = prog.modules.get(gk.split(':')[0])
        return m.globals.get(name) if m else None
    for m in prog.modules.values():
        g = m.globals.get(name)
        if g is not None and not g.external:
            return g
    return None


def _success_exits(f, P):
    """blocks from which the function returns 0"""
    rets = [b for b in f.blocks.values() if b.term.op == 'ret']
    out = []
    for rb in rets:
        v = strip_casts(P.expr(rb.term.ops[0])) if rb.term.ops else None
        if v is None:
            out.append(rb.name)
        elif v == ('const', 0):
            out.append(rb.name)
        elif v[0] == 'phi':
            for x, bb in P.phi_inputs(v):
                if strip_casts(x) == ('const', 0):
                    out.append(bb)
    return out


def _call_selects_mode(A, f, ins, mode):
    setter = A.mode_setter[mode]
    P = A.cg.prov(f)
    if ins.ops:
        a = P.expr(ins.ops[0])
        if a[0] == 'addr' and a[1][0] == 'G':
            return a[1][1] == mode
    # no argument (copy()): the setter stores the mode itself
    return True


def _check_exceptions(ctx, prog, A):
    # collect_token: every path of do_collect_seq to return stores true after the last store false
    f = prog.func('compress', 'do_collect_seq')
    P = A.cg.prov(f)
    ck = prog.gkey(f.module, 'collect_token')
    setb = {i.block.name for i in f.insns() if i.op == 'store' and P.addr(i.ops[1])[1] == ('G', ck) and
            P.expr(i.ops[0]) != ('const', 0)}
    clr = [i for i in f.insns() if i.op == 'store' and P.addr(i.ops[1])[1] == ('G', ck) and P.expr(i.ops[0]) == ('const', 0)]
    rets = [b.name for b in f.blocks.values() if b.term.op == 'ret']
    ok = bool(clr) and all(cfg.must_pass(f, c.block.name, rets, setb - {c.block.name}) for c in clr)
    ctx.ob('R6.exception', 'collect_token is set again on every path after it is cleared', f.loc(), ok,
           'clear sites %s, set blocks %s' % ([c.line for c in clr], sorted(setb)))
    # initial value true
    g = f.module.globals['collect_token']
    ctx.ob('R6.exception', 'collect_token starts as true', f.module.src, g.init == ('int', 1), str(g.init))
    # unfinished_work: can_terminate requires work_units == num_worker (and the W law holds: C11)
    ct = prog.func('compress', 'can_terminate')
    Pc = A.cg.prov(ct)
    lv = set()
    for b in ct.blocks.values():
        if b.term.op == 'br' and len(b.term.extra['targets']) == 2:
            lv |= {l[1] for l in Pc.leaves(Pc.expr(b.term.ops[0])) if l[0] == 'load'}
    for b in ct.blocks.values():
        if b.term.op == 'ret' and b.term.ops:
            lv |= {l[1] for l in Pc.leaves(Pc.expr(b.term.ops[0])) if l[0] == 'load'}
    ctx.ob('R6.exception', 'compression terminates only with every work unit returned (so unfinished_work == NULL by law W)',
           ct.loc(), {'G:work_units', 'G:num_worker'} <= lv, 'can_terminate reads %s' % sorted(lv))
    # caught_index: written only by the handler; read only in halt() after sigsuspend
    sm = prog.module('signals')
    ck = prog.gkey(sm, 'caught_index')
    wr = [(fn, i) for fn in sm.funcs.values() for i in fn.insns() if i.op == 'store' and
          A.cg.prov(fn).addr(i.ops[1])[1] == ('G', ck)]
    rdx = [(fn, i) for fn in sm.funcs.values() for i in fn.insns() if i.op == 'load' and
           A.cg.prov(fn).addr(i.ops[0])[1] == ('G', ck)]
    hnames = {h.name for h in A.handlers}
    ok = all(fn.name in hnames for fn, _ in wr) and bool(wr)
    ctx.ob('R6.exception', 'caught_index is written only by the signal handler', sm.src, ok, '%s' % [(fn.name, i.line) for fn, i in wr])
    okr = True
    for fn, i in rdx:
        dom = cfg.dominators(fn)
        sus = [c for c in fn.calls('sigsuspend') if cfg.insn_dominates(fn, c, i, dom)]
        okr = okr and bool(sus)
    ctx.ob('R6.exception', 'caught_index is read only after sigsuspend returned', sm.src, okr and bool(rdx),
           '%s' % [(fn.name, i.line) for fn, i in rdx])
    # par.stored_crc: in parse(), every load of ps->stored_crc is in a switch case whose state is only entered from a
    # case that stores it: approximated structurally: every block loading stored_crc is dominated by ... (done in C15)
    pf = prog.func('parse', 'parse')
    Pp = A.cg.prov(pf)
    _lp = cfg.loops(pf)
    sw = [i for i in pf.insns() if i.op == 'switch' and any(i.block.name in body for body in _lp.values())]
    ctx.require(len(sw) == 1, 'parse(): expected one state switch inside the word loop')
    cases = {v: t for v, t in sw[0].extra['cases']}
    store_states = set()
    load_states = set()
    state_set_in = {}      # case value -> set of next states stored
    for v, tgt in cases.items():
        # blocks belonging to this case: reachable from tgt without passing the switch block
        blks = cfg.reachable(pf, tgt, removed_blocks=[sw[0].block.name])
        for bn in blks:
            for i in pf.blocks[bn].insns:
                if i.op == 'store':
                    a = Pp.addr(i.ops[1])
                    if a[1][0] == 'V' and a[2] and a[2][-1][3] == 'stored_crc':
                        store_states.add(v)
                    if a[1][0] == 'V' and a[2] and a[2][-1][3] == 'state':
                        x = Pp.expr(i.ops[0])
                        if x[0] == 'const':
                            state_set_in.setdefault(v, set()).add(x[1])
                elif i.op == 'load':
                    a = Pp.addr(i.ops[0])
                    if a[1][0] == 'V' and a[2] and a[2][-1][3] == 'stored_crc':
                        load_states.add(v)
    # a state that loads stored_crc (without storing first in the same case) must only be entered from states that store it
    bad = []
    for ls in load_states:
        preds = {v for v, nx in state_set_in.items() if ls in nx}
        if not preds or not preds <= store_states:
            bad.append((ls, sorted(preds)))
    ctx.ob('R6.exception', 'par.stored_crc: every FSM state that reads it is entered only from a state that writes it',
           pf.loc(), not bad and bool(load_states), 'reading states %s, writing states %s, bad %s' % (
               sorted(load_states), sorted(store_states), bad))
    # opathn restored
    of = prog.func('main', 'output_regf_uninit')
    Po = A.cg.prov(of)
    ok_ = False
    md = reset.MustDef(prog, A.cg, lambda fn, ins: A.cg.targets(fn, ins))
    opk = prog.gkey(of.module, 'opathn')
    ok_ = covers(md.summary(of), (opk, ()))
    nulls = [i for i in of.insns() if i.op == 'store' and Po.addr(i.ops[1])[1] == ('G', opk) and Po.expr(i.ops[0]) == ('null',)]
    ctx.ob('R6.exception', 'output_regf_uninit stores opathn = NULL on every returning path', of.loc(), ok_ and bool(nulls), '')
    # bs100k: the store in work() dominates schedule(&expansion)
    wf = prog.func('process', 'work')
    Pw = A.cg.prov(wf)
    dom = cfg.dominators(wf)
    sts = [i for i in wf.insns() if i.op == 'store' and Pw.addr(i.ops[1])[1] == ('G', 'bs100k')]
    for c in wf.calls('schedule'):
        a = Pw.expr(c.ops[0])
        if a[0] == 'addr' and a[1][1] == 'expansion':
            ctx.ob('R6.exception', 'bs100k is re-derived from the header before schedule(&expansion)', wf.loc(c),
                   any(cfg.insn_dominates(wf, s, c, dom) for s in sts), '')
    # set_memory_constraints dominates both schedule and copy in work()
    smc = list(wf.calls('set_memory_constraints'))
    for c in list(wf.calls('schedule')) + list(wf.calls('copy')):
        ctx.ob('R6.exception', 'set_memory_constraints() runs before %s() in every run' % c.extra['callee'], wf.loc(c),
               any(cfg.insn_dominates(wf, s, c, dom) for s in smc),
               'slot totals and granularities are re-derived for each operand')


def exit_status(ctx, prog, A):
    mainfn = prog.func('main', 'main')
    P = A.cg.prov(mainfn)
    m = mainfn.module
    wk = prog.gkey(m, 'warned')
    # _exit argument in main: select/phi of 4 and 0 on warned
    ex = [i for i in mainfn.calls('_exit')]
    ctx.floor('_exit calls in main', len(ex), 1)
    for i in ex:
        v = strip_casts(P.expr(i.ops[0]))
        ok = False
        detail = render(v)
        if v[0] == 'select':
            c, pol = peel_cond(v[1])
            c = strip_casts(c)
            a, b = strip_casts(v[2]), strip_casts(v[3])
            if c[0] == 'load' and c[1][1] == ('G', wk):
                t, f_ = (a, b) if pol else (b, a)
                ok = t == ('const', 4) and f_ == ('const', 0)
        elif v[0] == 'phi':
            ins_ = P.phi_inputs(v)
            vals = sorted(x[1] for x, _ in ins_ if x[0] == 'const')
            ok = vals == [0, 4]
        ctx.ob('C18.exit', 'main exits with warned ? 4 : 0', mainfn.loc(i), ok, detail)
    # who writes warned: only functions whose stores are `warned = 1` and that are warn*
    wr = []
    rd = []
    for f in m.funcs.values():
        Pf = A.cg.prov(f)
        for i in f.insns():
            if i.op == 'store' and Pf.addr(i.ops[1])[1] == ('G', wk):
                wr.append((f, i, Pf.expr(i.ops[0])))
            if i.op == 'load' and Pf.addr(i.ops[0])[1] == ('G', wk):
                rd.append((f, i))
    ctx.floor('stores to warned', len(wr), 4)
    for f, i, v in wr:
        ctx.ob('C18.exit', 'warned is only ever set (never cleared) and only by warn*: %s' % f.name, f.loc(i),
               v == ('const', 1) and f.name.startswith('warn'), 'value %s' % render(v))
    allowed = set()
    for e_ in ex:
        v = P.expr(e_.ops[0])
        _collect_loads(P, v, allowed)
        vv = strip_casts(v)
        if vv[0] == 'phi':
            for x, bb in P.phi_inputs(vv):
                for pb in [bb] + mainfn.blocks[bb].preds:
                    t = mainfn.blocks[pb].term
                    if t.op == 'br' and len(t.extra['targets']) == 2:
                        _collect_loads(P, P.expr(t.ops[0]), allowed)
    for f, i in rd:
        ctx.ob('C18.exit', 'warned is read only for the exit status (%s line %s)' % (f.name, i.line), f.loc(i),
               f.name == 'main' and id(i) in allowed, 'a read elsewhere makes one operand depend on warnings about another')
    # fatal functions never return
    for name in ('fail', 'failf', 'failx', 'failfx', 'bailout'):
        ctx.ob('C18.exit', '%s never returns to the operand loop' % name, 'src/main.h', name in prog.noreturn, '')
    # info/warn/display families: non-bail variants do not set warned unless warn
    # operand loop: every operand is consumed: back edge exists
    lp = cfg.loops(mainfn)
    ctx.ob('C18.exit', 'main has an operand loop containing input_init .. input_uninit', mainfn.loc(),
           any({c.block.name for c in mainfn.calls('input_init')} <= body and {c.block.name for c in mainfn.calls('work')} <= body
               for body in lp.values()), '')


def _collect_loads(P, e, out, seen=None):
    seen = seen if seen is not None else set()
    if not isinstance(e, tuple):
        return
    if e and e[0] == 'load':
        out.add(id(e[2]))
        return
    if e and e[0] == 'phi':
        if e[1] in seen:
            return
        seen.add(e[1])
        for x, _ in P.phi_inputs(e):
            _collect_loads(P, x, out, seen)
        return
    for y in e:
        if isinstance(y, tuple):
            _collect_loads(P, y, out, seen)

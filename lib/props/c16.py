"""C16 Interrupted or failed runs never lose data -- ordering facts that make the two allowed end states the
only ones (R5 dominance / must-pass rules on main.c, signals.c, process.c)."""
import cfg, conc, reset, rules
from irdb import broken
from prov import Prov, addr_key, strip_ext, strip_casts, render, peel_cond
from rules import guards, guard_holds, failure_edge, must_reach_call, can_follow, const_arg

LEVEL = 'other'
O_CREAT, O_EXCL, O_TRUNC, O_WRONLY = 0o100, 0o200, 0o1000, 1
SIGUSR1, SIGUSR2, SIGINT, SIGTERM = 10, 12, 2, 15


def run(ctx):
    prog = ctx.prog('ssa')
    A = conc.Analysis(prog)
    ctx.explain('C16: dominance and must-pass-through rules: input removal only after the output is written, '
                'its metadata set, its descriptor closed and its name forgotten; exclusive creation; cleanup before '
                'every abnormal exit; signals deliverable only inside halt(); success is signalled last.')
    order_in_main(ctx, prog, A)
    regf_uninit(ctx, prog, A)
    output_creation(ctx, prog, A)
    abnormal_exits(ctx, prog, A)
    signal_window(ctx, prog, A)
    success_last(ctx, prog, A)


def order_in_main(ctx, prog, A):
    f = prog.func('main', 'main')
    P = A.cg.prov(f)
    dom = cfg.dominators(f)
    rm = list(f.calls('input_oprnd_rm'))
    un = list(f.calls('output_regf_uninit'))
    wk = list(f.calls('work'))
    ctx.require(len(rm) == 1 and len(un) == 1 and len(wk) == 1, 'main(): expected one each of work/output_regf_uninit/input_oprnd_rm')
    ctx.ob('C16.order', 'input removal is dominated by output_regf_uninit()', f.loc(rm[0]),
           cfg.insn_dominates(f, un[0], rm[0], dom), '')
    ctx.ob('C16.order', 'output_regf_uninit() is dominated by work()', f.loc(un[0]), cfg.insn_dominates(f, wk[0], un[0], dom), '')
    ctx.ob('C16.order', 'work() cannot run again before the input is removed (no path removal -> work without a new operand)',
           f.loc(rm[0]), not cfg.reaches(f, rm[0].block.name, wk[0].block.name,
                                         removed_blocks=[c.block.name for c in f.calls('input_init')]), '')
    # at the time the input is removed the output name has been forgotten (so no later fatal path can unlink it)
    md = reset.MustDef(prog, A.cg, lambda fn, ins: A.cg.targets(fn, ins))
    opk = prog.gkey(f.module, 'opathn')
    uf = prog.func('main', 'output_regf_uninit')
    Pu = A.cg.prov(uf)
    sts = [i for i in uf.insns() if i.op == 'store' and Pu.addr(i.ops[1])[1] == ('G', opk)]
    ok = reset.covers(md.summary(uf), (opk, ())) and sts and all(Pu.expr(i.ops[0]) == ('null',) for i in sts)
    ctx.ob('C16.order', 'opathn is NULL when the input is removed (output_regf_uninit clears it on every returning path)',
           f.loc(rm[0]), bool(ok), 'stores to opathn in output_regf_uninit: %s' % [i.line for i in sts])
    # operand removed is the operand processed: unlink(operand->val)
    rf = prog.func('main', 'input_oprnd_rm')
    Pr = A.cg.prov(rf)
    ul = list(rf.calls('unlink'))
    ctx.require(len(ul) == 1, 'input_oprnd_rm: expected one unlink')
    a = strip_casts(Pr.expr(ul[0].ops[0]))
    ctx.ob('C16.order', 'input_oprnd_rm unlinks operand->val', rf.loc(ul[0]),
           a[0] == 'load' and a[1][1][0] == 'V' and a[1][1][1][0] == 'param' and a[1][2] and a[1][2][-1][3] == 'val', render(a))
    # who may unlink at all
    callers = sorted({fn.name for fn, _ in A.cg.callers_of('unlink')})
    ctx.ob('C16.order', 'unlink() is called only by cleanup, input_oprnd_rm and output_init', 'src/main.c',
           callers == ['cleanup', 'input_oprnd_rm', 'output_init'], str(callers))


def regf_uninit(ctx, prog, A):
    f = prog.func('main', 'output_regf_uninit')
    P = A.cg.prov(f)
    dom = cfg.dominators(f)
    cl = list(f.calls('close'))
    ctx.require(len(cl) == 1, 'output_regf_uninit: expected one close')
    close = cl[0]
    a = strip_casts(P.expr(close.ops[0]))
    ctx.ob('C16.close', 'close() is applied to the output descriptor', f.loc(close), a[0] == 'param' and a[1] == 0, render(a))
    for name in ('fchown', 'fchmod', 'futimens'):
        cs = list(f.calls(name))
        ctx.require(cs, 'output_regf_uninit: %s vanished' % name)
        for c in cs:
            ctx.ob('C16.close', '%s precedes close() and cannot follow it' % name, f.loc(c),
                   can_follow(f, c, close) and not can_follow(f, close, c), '')
            fd = strip_casts(P.expr(c.ops[0]))
            ctx.ob('C16.close', '%s is applied to the output descriptor' % name, f.loc(c), fd == a, render(fd))
    fe = failure_edge(f, P, close, '-1')
    ctx.ob('C16.close', 'close() == -1 is fatal', f.loc(close), fe is not None and must_reach_call(f, fe[1], rules.FATAL),
           'failure edge -> %s' % (fe[1] if fe else None))
    opk = prog.gkey(f.module, 'opathn')
    for i in f.insns():
        if i.op == 'store' and P.addr(i.ops[1])[1] == ('G', opk):
            ok = cfg.insn_dominates(f, close, i, dom) and fe is not None and \
                not cfg.reaches(f, f.entry.name, i.block.name, removed_edges=[(fe[0].name, fe[2])])
            ctx.ob('C16.close', 'opathn is cleared only after close() succeeded', f.loc(i), ok,
                   'store reachable only through the success edge of the close() test')


def output_creation(ctx, prog, A):
    f = prog.func('main', 'output_init')
    P = A.cg.prov(f)
    op = [c for c in f.calls() if c.extra.get('callee') in ('open', 'open64')]
    ctx.require(len(op) == 1, 'output_init: expected one open')
    o = op[0]
    flags = const_arg(P, o, 1)
    ctx.ob('C16.create', 'output is created with O_CREAT|O_EXCL and without O_TRUNC', f.loc(o),
           flags is not None and flags & O_CREAT and flags & O_EXCL and not flags & O_TRUNC and flags & 3 == O_WRONLY,
           'flags = %s' % (oct(flags) if flags is not None else render(P.expr(o.ops[1]))))
    # opathn = tmp on the success edge, before any other call
    fe = failure_edge(f, P, o, '-1')
    opk = prog.gkey(f.module, 'opathn')
    sts = [i for i in f.insns() if i.op == 'store' and P.addr(i.ops[1])[1] == ('G', opk)]
    ctx.require(fe is not None, 'output_init: no test of open() == -1')
    ok = len(sts) == 1 and sts[0].block.name == fe[2] and not any(c.block is sts[0].block and c.idx < sts[0].idx for c in f.calls())
    ctx.ob('C16.create', 'opathn is recorded on the success edge of open() before anything else can fail', f.loc(o), ok,
           'stores: %s' % [(i.block.name, i.line) for i in sts])
    if sts:
        v = strip_casts(P.expr(sts[0].ops[0]))
        pa = strip_casts(P.expr(o.ops[0]))
        ctx.ob('C16.create', 'the recorded name is the name passed to open()', f.loc(sts[0]),
               v == pa or (v[0] == 'load' and pa[0] == 'load' and v[1] == pa[1]), '%s vs %s' % (render(v), render(pa)))
    # the failure edge does not record anything and warns
    ctx.ob('C16.create', 'a failed open() is reported with a warning (operand skipped)', f.loc(o),
           must_reach_call(f, fe[1], rules.WARN), '')


def abnormal_exits(ctx, prog, A):
    e = A.engine
    # bailout: main edge: cleanup dominates _exit, status constant 1
    b = prog.func('signals', 'bailout')
    P = A.cg.prov(b)
    dom = cfg.dominators(b)
    ex = list(b.calls('_exit'))
    cu = list(b.calls('cleanup'))
    ctx.require(len(ex) == 1, 'bailout: expected one _exit')
    ctx.ob('C16.cleanup', 'bailout(): cleanup() precedes _exit on the main-thread path', b.loc(ex[0]),
           any(cfg.insn_dominates(b, c_, ex[0], dom) for c_ in cu), 'cleanup calls at %s' % [c_.line for c_ in cu])
    # the unblocking of SIGPIPE/SIGXFSZ may kill the process on the spot (a pending one is delivered): the
    # partial output must already be gone
    um = [c_ for c_ in b.calls('xmask') if const_arg(P, c_, 0) == 1]
    ctx.ob('C16.cleanup', 'bailout(): cleanup() precedes the unblocking of SIGPIPE/SIGXFSZ (a pending one kills the '
           'process at once, so nothing after it is guaranteed to run)', b.loc(um[0]) if um else b.loc(),
           bool(um) and bool(cu) and all(any(cfg.insn_dominates(b, c_, u, dom) for c_ in cu) for u in um),
           'cleanup at %s, unblock at %s' % ([c_.line for c_ in cu], [u.line for u in um]))
    ctx.ob('C16.cleanup', 'bailout(): exit status is 1', b.loc(ex[0]), const_arg(P, ex[0], 0) == 1, render(P.expr(ex[0].ops[0])))
    # halt: default -> cleanup; terminate.  SIGUSR1 -> bailout.  SIGUSR2 -> return
    h = prog.func('signals', 'halt')
    Ph = A.cg.prov(h)
    vd = rules.value_dispatch(h, Ph, lambda e: e[0] == 'load' and addr_key(e[1]).startswith('G:signals:handled_signals['))
    ctx.require(vd is not None, 'halt(): no dispatch (switch or if-chain) on handled_signals[caught_index]')
    cases, dflt, sv_, anchor_ = vd
    sw = [anchor_]
    ctx.ob('C16.cleanup', 'halt(): SIGUSR1 leads to bailout()', h.loc(sw[0]),
           SIGUSR1 in cases and must_reach_call(h, cases[SIGUSR1], {'bailout'}) and
           not list(c for c in h.calls('cleanup') if c.block.name == cases[SIGUSR1]) or
           (SIGUSR1 in cases and must_reach_call(h, cases[SIGUSR1], {'bailout'})), 'cases %s' % cases)
    rets = [bb.name for bb in h.blocks.values() if bb.term.op == 'ret']
    ctx.ob('C16.cleanup', 'halt(): only SIGUSR2 returns to the caller', h.loc(sw[0]),
           SIGUSR2 in cases and any(x in cfg.reachable(h, cases[SIGUSR2]) for x in rets) and
           not any(x in cfg.reachable(h, dflt) for x in rets) and
           not any(x in cfg.reachable(h, cases.get(SIGUSR1, dflt)) for x in rets), '')
    dblk = h.blocks[dflt]
    dcalls = [c.extra.get('callee') for c in dblk.insns if c.op == 'call']
    if not dcalls and len(dblk.succs) == 1:
        dcalls = [c.extra.get('callee') for c in h.blocks[dblk.succs[0]].insns if c.op == 'call']
    ctx.ob('C16.cleanup', 'halt(): any other signal runs cleanup() then terminate()', h.loc(sw[0]),
           dcalls[:2] == ['cleanup', 'terminate'], 'default case calls %s' % dcalls)
    # sig is taken from handled_signals[caught_index]
    sv = sv_
    ctx.ob('C16.cleanup', 'halt() dispatches on handled_signals[caught_index]', h.loc(sw[0]),
           sv[0] == 'load' and addr_key(sv[1]).startswith('G:signals:handled_signals['), render(sv))
    # who may call _exit
    callers = sorted({fn.name for fn, _ in A.cg.callers_of('_exit')})
    ctx.ob('C16.cleanup', '_exit() is called only by main, usage, version, bailout, terminate', 'src/',
           callers == ['bailout', 'main', 'terminate', 'usage', 'version'], str(callers))
    # terminate is called only after cleanup (halt default)
    tcallers = [(fn, i) for fn, i in A.cg.callers_of('terminate')]
    ctx.ob('C16.cleanup', 'terminate() is called only from halt()', 'src/signals.c', [fn.name for fn, _ in tcallers] == ['halt'],
           str([fn.name for fn, _ in tcallers]))
    # cleanup unlinks opathn whenever non-NULL
    c = prog.func('main', 'cleanup')
    Pc = A.cg.prov(c)
    ul = list(c.calls('unlink'))
    ctx.require(len(ul) == 1, 'cleanup: expected one unlink')
    g = guards(c, Pc, ul[0].block.name)
    opk = prog.gkey(c.module, 'opathn')
    a = strip_casts(Pc.expr(ul[0].ops[0]))
    def _nonnull(x, pol):
        if x[0] == 'load' and x[1][1] == ('G', opk):
            return pol
        if x[0] == 'icmp' and x[1] in ('ne', 'eq') and strip_casts(x[2])[0] == 'load' and strip_casts(x[2])[1][1] == ('G', opk) \
                and strip_casts(x[3]) in (('null',), ('const', 0)):
            return pol if x[1] == 'ne' else not pol
        return False
    only_null = len(g) == 1 and guard_holds(g, _nonnull)
    ctx.ob('C16.cleanup', 'cleanup() unlinks opathn whenever it is non-NULL (and for no other reason not)', c.loc(ul[0]),
           only_null and a[0] == 'load' and a[1][1] == ('G', opk), 'guards %s arg %s' % ([render(x) for _, x, _ in g], render(a)))
    # sub-threads never reach _exit / unlink / cleanup
    bad = []
    for root, cls, mode in A.roots:
        if cls in ('main', 'handler'):
            continue
        for (fq, bn) in e.visited_blocks.get(root, ()):
            fn = prog.modules[fq.split(':')[0]].funcs[fq.split(':')[1]]
            for i in fn.blocks[bn].insns:
                if i.op == 'call' and i.extra.get('callee') in ('_exit', 'unlink', 'cleanup'):
                    bad.append((root, fq, i.line))
    ctx.ob('C16.cleanup', 'threads other than main can reach neither _exit nor unlink nor cleanup', 'src/signals.c', not bad,
           '%s' % bad[:3], evals=sum(len(v) for v in e.visited_blocks.values()))
    # non-main edge of bailout: SIGUSR1 is raised then the thread exits
    xr = [c2 for c2 in b.calls('xraise')]
    pe = list(b.calls('pthread_exit'))
    ctx.ob('C16.cleanup', 'bailout() in a sub-thread raises SIGUSR1 and ends the thread', b.loc(),
           len(xr) == 1 and const_arg(P, xr[0], 0) == SIGUSR1 and len(pe) == 1 and cfg.insn_dominates(b, xr[0], pe[0], dom), '')


def signal_window(ctx, prog, A):
    f = prog.func('main', 'main')
    P = A.cg.prov(f)
    dom = cfg.dominators(f)
    cli = list(f.calls('cli'))
    sti = list(f.calls('sti'))
    ctx.require(len(cli) == 1 and len(sti) == 1, 'main(): expected one cli() and one sti()')
    for name in ('output_init', 'work', 'output_regf_uninit', 'input_oprnd_rm'):
        for c in f.calls(name):
            ok = cfg.insn_dominates(f, cli[0], c, dom) and \
                not cfg.reaches(f, sti[0].block.name, c.block.name, removed_blocks=[cli[0].block.name]) and \
                not (sti[0].block is c.block and sti[0].idx < c.idx)
            ctx.ob('C16.signals', '%s() runs with the handled signals blocked (between cli() and sti())' % name, f.loc(c), ok, '')
    # pairing: whatever happens to the operand (output not created, work done), the signals are unblocked again
    # before the next operand is looked at or main() returns -- else the next run waits in halt() with the success
    # signal blocked
    rets = [b.name for b in f.blocks.values() if b.term.op == 'ret']
    again = cfg.reachable(f, cli[0].block.name, removed_blocks=[sti[0].block.name])
    # reaching cli() a second time, or a return, without passing sti()
    loops_back = any(cli[0].block.name in f.blocks[b].succs for b in again)
    leaves = [r for r in rets if r in again]
    ctx.ob('C16.signals', 'every path from cli() to the next operand or out of main() passes sti() (the window is closed '
           'whether or not the output could be created)', f.loc(sti[0]), not loops_back and not leaves,
           'sti() can be bypassed on the way %s' % ('back to cli()' if loops_back else 'to a return of main()'))
    # signal tables
    hs = rules.global_ints(prog, 'signals', 'handled_signals')
    ctx.ob('C16.signals', 'handled signals include SIGINT, SIGTERM, SIGUSR1, SIGUSR2', 'src/signals.c',
           {SIGINT, SIGTERM, SIGUSR1, SIGUSR2} <= set(hs), str(hs))
    # cli blocks exactly `handled`, installs the handler for every handled signal; sti restores defaults and unblocks
    c = prog.func('signals', 'cli')
    Pc = A.cg.prov(c)
    xm = list(c.calls('xmask'))
    ok = len(xm) == 1 and const_arg(Pc, xm[0], 0) == 0 and addr_key(Pc.addr(xm[0].ops[1])) == 'G:signals:handled' and \
        addr_key(Pc.addr(xm[0].ops[2])) == 'G:signals:saved'
    ctx.ob('C16.signals', 'cli() blocks the handled set and remembers the previous mask in `saved`', c.loc(), ok, '')
    h = prog.func('signals', 'halt')
    Ph = A.cg.prov(h)
    ss = list(h.calls('sigsuspend'))
    ctx.ob('C16.signals', 'halt() waits with the mask saved by cli()', h.loc(), len(ss) == 1 and
           addr_key(Ph.addr(ss[0].ops[0])) == 'G:signals:saved', '')
    # setup_signals: the handled set is unblocked at process level *after* it has been filled
    s = prog.func('signals', 'setup_signals')
    Ps = A.cg.prov(s)
    fills = [x for x in s.calls('xadd') if addr_key(Ps.addr(x.ops[0])) == 'G:signals:handled']
    unb = [x for x in s.calls() if x.extra.get('callee') in ('sigprocmask', 'pthread_sigmask', 'xmask') and
           const_arg(Ps, x, 0) == 1 and addr_key(Ps.addr(x.ops[1])) == 'G:signals:handled']
    ok = bool(fills) and len(unb) >= 1 and all(can_follow(s, fl, unb[0]) and not can_follow(s, unb[0], fl) for fl in fills)
    ctx.ob('C16.signals', 'setup_signals() unblocks the handled signals after filling the set (a parent may have blocked them)',
           s.loc(), ok, 'fill sites %s, unblock sites %s' % ([x.line for x in fills], [x.line for x in unb]))
    # the handler only records the index
    for hd in A.handlers:
        Phd = A.cg.prov(hd)
        stores = [i for i in hd.insns() if i.op == 'store' and Phd.addr(i.ops[1])[1][0] == 'G']
        calls = [i.extra.get('callee') for i in hd.calls() if i.extra.get('callee') != 'abort']
        ctx.ob('C16.signals', 'the signal handler only records which signal arrived', hd.loc(),
               all(addr_key(Phd.addr(i.ops[1])) == 'G:signals:caught_index' for i in stores) and not calls,
               'stores %s calls %s' % ([addr_key(Phd.addr(i.ops[1])) for i in stores], calls))


def success_last(ctx, prog, A):
    """the success signal (SIGUSR2) is the last thing the primary thread does: everything that can still fail
    (trailer write in process->uninit, joins) happens before it"""
    f = A.model.classes['primary_thread']['fn']
    P = A.cg.prov(f)
    xr = [c for c in f.calls('xraise')]
    ctx.require(len(xr) == 1 and const_arg(P, xr[0], 0) == SIGUSR2, 'primary_thread: expected one xraise(SIGUSR2)')
    after = [c for c in f.calls() if c is not xr[0] and can_follow(f, xr[0], c)]
    ctx.ob('C16.success', 'primary thread raises SIGUSR2 as its very last action', f.loc(xr[0]), not after,
           'calls that can run after it: %s' % [(c.extra.get('callee') or 'process->callback', c.line) for c in after])
    dom = cfg.dominators(f)
    for c in f.calls():
        if c.extra.get('callee') is None or c.extra.get('callee') in ('uninit_io', 'pthread_join'):
            ctx.ob('C16.success', '%s precedes the success signal' % (c.extra.get('callee') or 'process->callback'), f.loc(c),
                   cfg.insn_dominates(f, c, xr[0], dom) or can_follow(f, c, xr[0]), '')
    # who may raise SIGUSR2
    raisers = []
    for fn, i in A.cg.callers_of('xraise'):
        if const_arg(A.cg.prov(fn), i, 0) == SIGUSR2:
            raisers.append(fn.name)
    ctx.ob('C16.success', 'SIGUSR2 is raised only by primary_thread and copy_terminate', 'src/process.c',
           sorted(raisers) == ['copy_terminate', 'primary_thread'], str(sorted(raisers)))

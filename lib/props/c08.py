"""C08 No undefined behaviour for any input -- the clauses whose truth is in the shape of the code.

 (a) no local is read before it is assigned, on any path of any function (SSA definite-assignment rule), and every
     local of the resumable decoder functions that is live across a suspension point is re-established;
 (b) every fixed-size buffer whose required size is a function of format constants is large enough (compile-time
     witnesses evaluated by the compiler on the repository's own definitions);
 (c) index closure: every index into a constant table is provably below the table's dimension (bit-field width of a
     peek, masks, byte values, values read from a table whose maximum is below the indexed dimension, struct fields
     bounded by everything ever stored into them); the scanner automaton never indexes mini_dfa in state ACCEPT (C14);
 (d) queue capacities cover the token totals (with NDEBUG no queue macro checks capacity, an overrun is a silent heap
     overflow) -- rule R4 of C11;
 (e) the run-length accumulator and its shift count are bounded; the primary index is below the block size before it
     indexes tt[]; an input block is freed only by the holder of its last reference.
It makes NO claim about indices computed from stream contents (perm[], base[k+1], tt[...], divbwt's stacks), other
shift amounts or signed overflow: those are numerical."""
import cfg, conc, codecrules, expandrules, witness, bounds
from irdb import broken
from prov import Prov, addr_key, render, strip_casts
import rules
from props import c05, c06, c11, c12, c14

LEVEL = 'other'

# (function, table): the index is bounded by something this rule does not model -- reason
EXEMPT = {
    ('scan', 'mini_dfa'): 'row index is the automaton state; closure incl. exclusion of ACCEPT is rule C14.closure',
    ('scan', 'big_dfa'): 'row index is the automaton state; closure is rule C14.closure (big_dfa has a row for ACCEPT)',
    ('ss_isqrt', 'sqq_table'): 'argument contract of the integer square root (x < 2^16 split by lg_table); numerical',
    ('opts_setup', 'ev_name'): 'loop counter bounded by the loop condition sizeof ev_name / sizeof ev_name[0]',
    ('suffix_xform', 'suffix'): 'loop counter bounded by the loop condition over suffix[]',
    ('halt', 'handled_signals'): 'caught_index is written only by the signal handler, with the loop-bounded position at '
                                 'which it found the signal in this very table (C16.signals)',
}


def _guard_bound(f, P, ins, ix):
    """upper bound of an index from a comparison with a constant that guards the access (`for (i = 0; i < N; i++)`)"""
    from prov import cmp_norm, peel_cond
    best = bounds.BIG
    want = strip_casts(ix)
    for blk, cond, pol in rules.guards(f, P, ins.block.name):
        core, p2 = peel_cond(cond)
        cn = cmp_norm(strip_casts(core))
        if cn is None:
            continue
        pred, x, y = cn
        eff = pol == p2
        y = strip_casts(y)
        if strip_casts(x) != want or y[0] != 'const':
            continue
        k = y[1]
        if pred in ('ult', 'slt') and eff:
            best = min(best, k - 1)
        elif pred in ('ule', 'sle') and eff:
            best = min(best, k)
        elif pred in ('uge', 'sge') and not eff:
            best = min(best, k - 1)
        elif pred in ('ugt', 'sgt') and not eff:
            best = min(best, k)
    return best


def index_closure(ctx, prog):
    sites = {}
    for m in prog.modules.values():
        for f in m.funcs.values():
            P = None
            for i in f.insns():
                if i.op != 'load':
                    continue
                P = P or Prov(prog, f)
                a = P.addr(i.ops[0])
                if a[1][0] != 'G':
                    continue
                gname = a[1][1].split(':')[-1]
                own = prog.global_owner(m, gname)
                if own is None or own.ty is None or own.ty[0] != 'array' or not (own.const or gname == 'crc_table'):
                    continue
                dims = []
                t = own.ty
                while t[0] == 'array':
                    dims.append(t[1])
                    t = t[2]
                idx = [s[1] for s in a[2] if s[0] == 'i']
                U = bounds.UB(prog, P)
                res = []
                for d, ix in zip(dims, idx):
                    if isinstance(ix, int):
                        res.append((str(ix), ix, d))
                    else:
                        u = U.ub(ix)
                        if not u < d:
                            u = min(u, _guard_bound(f, P, i, ix))
                        res.append((render(ix)[:70], u, d))
                sites.setdefault((f.name, gname), []).append((f.loc(i), res))
    ctx.floor('C08 constant-table index sites', sum(len(v) for v in sites.values()), 40)
    for (fn, tb), lst in sorted(sites.items()):
        if (fn, tb) in EXEMPT:
            # still require the column index (2nd dimension) to be closed where there is one
            bad = []
            for loc, res in lst:
                for k, (txt, u, d) in enumerate(res):
                    if k >= 1 and not u < d:
                        bad.append('%s: index %d `%s` <= %s, dimension %d' % (loc, k, txt, u, d))
            ctx.ob('C08.index_closure', '%s() indexing %s: first index not decided here (%s)' % (fn, tb, EXEMPT[(fn, tb)]),
                   lst[0][0], not bad, '; '.join(bad), nontrivial=bool(len(lst[0][1]) > 1), evals=len(lst))
            continue
        bad = []
        for loc, res in lst:
            for k, (txt, u, d) in enumerate(res):
                if not u < d:
                    bad.append('%s: index `%s` is only known to be <= %s, dimension is %d' % (
                        loc, txt, u if u < bounds.BIG else 'unbounded', d))
        ctx.ob('C08.index_closure', '%s() indexes %s below its dimension at all %d sites' % (fn, tb, len(lst)), lst[0][0],
               not bad, '; '.join(bad[:3]) or 'bounds: %s' % sorted({(u, d) for _, r in lst for _, u, d in r}), evals=len(lst))


def witnesses(ctx, prog):
    r = witness.check(ctx, 'encode', [
        ('selector[] holds one entry per group of a full block plus EOB group and sentinel',
         'sizeof(((struct encoder_state *)0)->u.s.selector) >= (MAX_BLOCK_SIZE + 1 + GROUP_SIZE - 1) / GROUP_SIZE + 1'),
        ('selectorMTF[] holds the selectors plus byte-alignment padding',
         'sizeof(((struct encoder_state *)0)->u.s.selectorMTF) >= (MAX_BLOCK_SIZE + 1 + GROUP_SIZE - 1) / GROUP_SIZE + 7'),
        ('length/code/frequency tables hold MAX_ALPHA_SIZE symbols plus the sentinel',
         'sizeof(((struct encoder_state *)0)->u.s.length[0]) >= MAX_ALPHA_SIZE + 1 && '
         'sizeof(((struct encoder_state *)0)->u.s.code[0]) / 4 >= MAX_ALPHA_SIZE + 1 && '
         'sizeof(((struct encoder_state *)0)->u.s.frequency[0]) / 4 >= MAX_ALPHA_SIZE + 1'),
        ('six tables', 'sizeof(((struct encoder_state *)0)->u.s.length) / sizeof(((struct encoder_state *)0)->u.s.length[0]) == MAX_TREES'),
        ('bucket[] holds 65536 two-byte buckets plus 256', 'sizeof(((struct encoder_state *)0)->u.bucket) / 4 >= 65536 + 256'),
        ('cmap[] has 256 entries', 'sizeof(((struct encoder_state *)0)->cmap) >= 256'),
        ('a maximal run is 4 + 255 bytes', 'MAX_RUN_LENGTH == 259'),
    ])
    for name, ok in r.items():
        ctx.ob('C08.witness', 'encoder: ' + name, 'src/encode.c', ok, 'evaluated by the compiler')
    c06.witnesses(ctx, prog)
    # decompression input granules are whole words (on_input_avail pads to 4 and bits_init divides by 4)
    f = prog.func('process', 'set_memory_constraints')
    P = Prov(prog, f)
    vals = []
    for i in f.insns():
        if i.op == 'store' and addr_key(P.addr(i.ops[1])) == 'G:in_granul':
            from prov import strip_casts
            v = strip_casts(P.expr(i.ops[0]))
            if v[0] == 'const':
                vals.append(v[1])
    ctx.ob('C08.witness', 'decompression input granules are positive multiples of 4 bytes', f.loc(), bool(vals) and
           all(v > 0 and v % 4 == 0 for v in vals), str(vals))


def run(ctx):
    prog = ctx.prog('ssa')
    A = conc.Analysis(prog)
    ctx.explain('C08: SSA definite-assignment rule over every function; re-establishment of locals across suspension '
                'points; compile-time witnesses for buffer sizes; index-closure rule (upper bounds by structural '
                'induction over the index expression, table maxima and store-side field invariants); queue capacities '
                '(C11 R4); run-length/shift bound; primary-index test; reference-count protocol.')
    codecrules.uninit(ctx, prog, 'C08')
    codecrules.resume(ctx, prog, 'C08')
    witnesses(ctx, prog)
    index_closure(ctx, prog)
    c14.run(ctx)
    c11.r4(ctx, prog, A)
    c05.run_bound_rule(ctx, prog, pfx='C08')
    c06.limits(ctx, prog)
    c06.fast_path_reserve(ctx, prog, pfx='C08')
    expandrules.refcount_obligations(ctx, prog, 'C08')
    # use of a block after it was handed to another thread or freed (ownership rule of C12)
    c12._ownership(ctx, prog, A)
    codecrules.unrle_walk(ctx, prog, 'C08', only=('space', 'read'))
    c11.ring_rule(ctx, prog, pfx='C08')
    tt_dump_bound(ctx, prog)
    # the run-length collector writes only inside the block (abstract walk of collect()/encode(), shared with C04)
    from props import c04
    ent = c04.collect_rule(ctx, prog, pfx='C08', only=('capacity', 'input', 'fourth', 'assert'))
    c04.flush_rule(ctx, prog, ent, pfx='C08')


def tt_dump_bound(ctx, prog, pfx='C08'):
    """retrieve() writes decoded symbols through the cursor `tt` in run-dump loops; every such store lies behind a
    test `run > tt_limit - tt` that leaves with an error when the run does not fit into what is left of the
    MAX_BLOCK_SIZE-word array -- the space left is computed from the cursor itself, not from a saved count"""
    from prov import cmp_norm, peel_cond
    f = prog.func('decode', 'retrieve')
    P = Prov(prog, f)
    sites = []
    for i in f.insns():
        if i.op == 'store' and i.extra.get('vty') == ('int', 32):
            a = P.addr(i.ops[1])
            if a[1][0] == 'V' and strip_casts(a[1][1])[0] == 'phi' and not a[2] and \
                    strip_casts(a[1][1])[2].ty and strip_casts(a[1][1])[2].ty[0] == 'ptr':
                sites.append((i, strip_casts(a[1][1])))
    ctx.floor(pfx + ' retrieve(): stores through the tt cursor', len(sites), 3)

    def is_space_left(e):
        e = strip_casts(e)
        if e[0] == 'bin' and e[1] in ('sdiv', 'udiv', 'ashr', 'lshr'):
            e = strip_casts(e[2])
        if e[0] == 'bin' and e[1] == 'sub':
            hi, lo = strip_casts(e[2]), strip_casts(e[3])
            return hi[0] == 'phi' and lo[0] == 'phi' and hi[2].ty and hi[2].ty[0] == 'ptr' and lo[2].ty and \
                lo[2].ty[0] == 'ptr'
        return False
    for i, cur in sites:
        ok = False
        for blk, cond, pol in rules.guards(f, P, i.block.name):
            core, p2 = peel_cond(cond)
            cn = cmp_norm(strip_casts(core))
            if cn is None:
                continue
            pred, x, y = cn
            eff = pol == p2
            if is_space_left(y) and ((pred in ('ugt', 'sgt') and not eff) or (pred in ('ule', 'sle') and eff)):
                ok = True
            if is_space_left(x) and ((pred in ('ult', 'slt') and not eff) or (pred in ('uge', 'sge') and eff)):
                ok = True
        ctx.ob(pfx + '.tt_bound', 'retrieve(): the run dumped through the tt cursor at line %s was tested against the '
               'space left in the array (limit - cursor)' % i.line, f.loc(i), ok,
               '' if ok else 'no guard of the form run > (tt_limit - tt) on the way to this store')
    # the limit is the array's end: ds->tt + MAX_BLOCK_SIZE
    lim = [i for i in f.insns() if i.op == 'getelementptr' and len(i.ops) == 2 and i.ops[1] == ('int', 900000)]
    ctx.ob(pfx + '.tt_bound', 'retrieve(): tt_limit is ds->tt + MAX_BLOCK_SIZE (the allocation of decoder_init())',
           f.loc(lim[0]) if lim else f.loc(), bool(lim) and all('.tt' in render(P.expr(i.ops[0])) for i in lim),
           '; '.join(render(P.expr(i.ops[0]))[:40] for i in lim))

"""C10 Speculative block discovery never influences the output.

Output and failure are decided only where the sequential parser's position is matched:
 (a) order_q is fed only by do_parse() with the parser's own position, re-inserted only by do_reorder() (minor+1);
 (b) do_reorder() takes the order head, writes or fails only when reord_q's top is not behind that head; a block
     behind it (or any block once the order is exhausted) is freed silently; can_reorder() enables the task exactly
     for top <= head or (order empty and parsing done);
 (c) the speculative tasks do_scan/do_retrieve/do_emit raise no diagnostic of their own (errors are data);
 (d) do_scan() creates a candidate only ahead of the parser; do_parse() adopts a scanned candidate only at exactly
     its own position and disowns every candidate it has passed;
 (e) do_retrieve() moves the parser (advance(), parse_token) only as the parser's own job or as a candidate the
     parser has adopted (complete && legitimate).
Does not decide that equal positions imply equal bit offsets (arithmetic of detach())."""
import cfg, rules, expandrules, conc
from expandrules import (pos_fact_matchers, pos_relations, drop_facts, nonempty_fact, flag_fact, callee, codes,
                         memcpy_dst_src, _load_key, _is_field)
from irdb import broken, enumerators
from pathsens import Explorer, OTHER
from prov import Prov, strip_casts, strip_ext, addr_key, path_key, render, cmp_norm

LEVEL = 'other'
DIAG = {'fail', 'failf', 'failx', 'failfx', 'warn', 'warnf', 'warnx', 'warnfx', 'info', 'infof', 'infox', 'infofx',
        'bailout', '_exit', 'exit', 'display', 'log_generic'}


def is_reord_top(k):
    return k.startswith('V(V(G:expand:reord_q.root)') and k.endswith('.base')


def is_order_head(k):
    return k.startswith('V(G:expand:order_q.root)[') and k.endswith('.base')


def reorder_cut(ctx, prog):
    f = prog.func('expand', 'do_reorder')
    P = Prov(prog, f)
    facts = [nonempty_fact('order_q')] + pos_fact_matchers('RO', is_reord_top, is_order_head)
    ex = Explorer(prog, f, {}, facts, P)
    events = []

    def on_call(ins, st):
        c = callee(ins)
        if c.startswith('llvm.memcpy'):
            d, s = memcpy_dst_src(P, ins)
            if d == 'A:' + expandrules.ord_local(prog) and 'order_q.root' in (s or ''):
                st['facts']['committed'] = True
                events.append(('commit', ins, dict(st['facts'])))
        elif c in ('sink_write_buffer', 'failf'):
            events.append((c, ins, dict(st['facts'])))
        elif c == 'free':
            st['facts']['freed'] = True
    exits = ex.explore([{'cells': {}, 'facts': {}}], on_call)
    commits = [e for e in events if e[0] == 'commit']
    ctx.floor('C10 do_reorder: order head taken', len(commits), 1)
    bad = []
    for kind, ins, fa in events:
        if fa.get('nonempty:order_q') is not True:
            bad.append('%s at line %s although order_q may be empty' % (kind, ins.line))
        rel = pos_relations('RO', fa)
        if 'LT' in rel:
            bad.append('%s at line %s although the top of reord_q may be behind the order head' % (kind, ins.line))
    ctx.ob('C10.reorder.cut', 'do_reorder() takes the order head, writes and fails only when order_q is non-empty '
           'and reord_q\'s top is not behind its head', f.loc(commits[0][1]), not bad, '; '.join(sorted(set(bad))) or
           '%d events on all paths' % len(events), evals=len(events))
    bad = []
    n = 0
    for kind, blk, st in exits:
        fa = st['facts']
        if fa.get('committed'):
            continue
        n += 1
        if kind != 'ret' or not fa.get('freed'):
            bad.append('rejected block is not freed / path does not return (exit %s at %s)' % (kind, blk))
        rel = pos_relations('RO', fa)
        if fa.get('nonempty:order_q') is True and rel - {'LT'}:
            bad.append('a block that is not behind the order head is discarded')
    ctx.ob('C10.reorder.discard', 'the only blocks do_reorder() discards are those behind the order head (or left '
           'over when the order is exhausted), silently and with their memory freed', f.loc(), n > 0 and not bad,
           '; '.join(sorted(set(bad))), evals=n)


def can_reorder_rule(ctx, prog):
    f = prog.func('expand', 'can_reorder')
    P = Prov(prog, f)
    facts = [nonempty_fact('order_q'), nonempty_fact('reord_q'), flag_fact('parsing_done', 'G:expand:parsing_done')] + \
        pos_fact_matchers('RO', is_reord_top, is_order_head)
    ex = Explorer(prog, f, {}, facts, P)
    exits = ex.explore([{'cells': {}, 'facts': {}}])
    bad = []
    n = 0
    for kind, blk, st in exits:
        if kind != 'ret':
            continue
        val, fa = ex.ret_bool(st, blk), st['facts']
        n += 1
        rel = pos_relations('RO', fa)
        ne_r, ne_o, pd = fa.get('nonempty:reord_q'), fa.get('nonempty:order_q'), fa.get('parsing_done')
        if val is None:
            bad.append('return value not decided by the tracked conditions')
            continue
        if val:
            if ne_r is not True:
                bad.append('ready although reord_q may be empty')
            elif ne_o is True:
                if rel - {'LT', 'EQ'}:
                    bad.append('ready although the top of reord_q may be ahead of the order head')
            elif ne_o is False:
                if pd is not True:
                    bad.append('ready with an empty order although parsing is not done')
            else:
                bad.append('ready without testing order_q')
        else:
            # not ready: must not refuse the legitimate head
            if ne_r is True and ne_o is True and rel and rel <= {'LT', 'EQ'}:
                bad.append('refuses a block at or behind the order head')
            if ne_r is True and ne_o is False and pd is True:
                bad.append('refuses left-over blocks after parsing is done')
    ctx.ob('C10.can_reorder', 'can_reorder() is true exactly for: reord_q non-empty and (top <= order head, or order '
           'empty and parsing done)', f.loc(), n >= 4 and not bad, '; '.join(sorted(set(bad))) or '%d paths' % n, evals=n)


def order_feed(ctx, prog):
    """(a) who writes order_q and with which position"""
    exp = prog.module('expand')
    HEAD = 'A:' + expandrules.head_local(prog)
    ORD = 'A:' + expandrules.ord_local(prog)
    writers = {}
    for f in exp.funcs.values():
        P = Prov(prog, f)
        for i in f.insns():
            if i.op == 'call' and callee(i).startswith('llvm.memcpy'):
                d, s = memcpy_dst_src(P, i)
                if d and 'order_q.root' in d:
                    writers.setdefault(f.name, []).append((i, s))
            elif i.op == 'store' and addr_key(P.addr(i.ops[1])).startswith('V(G:expand:order_q.root)'):
                writers.setdefault(f.name, []).append((i, 'store'))
    ctx.ob('C10.order_feed', 'order_q elements are written only by do_parse() (push) and do_reorder() (unshift)',
           'src/expand.c', set(writers) == {'do_parse', 'do_reorder'}, str(sorted(writers)))
    f = prog.func('expand', 'do_parse')
    P = Prov(prog, f)
    dom = cfg.dominators(f)
    pushes = writers.get('do_parse', [])
    base_sets = []
    for i in f.insns():
        if i.op == 'call' and callee(i).startswith('llvm.memcpy'):
            d, s = memcpy_dst_src(P, i)
            if d in (HEAD, HEAD + '.base') and s in ('G:expand:parser_bs', 'G:expand:parser_bs.pos'):
                sz = strip_casts(P.expr(i.ops[2]))
                if sz == ('const', 16):
                    base_sets.append(i)
    ok = len(pushes) == 1 and pushes[0][1] == HEAD and any(
        cfg.insn_dominates(f, b, pushes[0][0], dom) for b in base_sets)
    # nothing may overwrite head_blk.base between that copy and the push
    between = []
    if ok:
        for i in f.insns():
            if i.op == 'store' and addr_key(P.addr(i.ops[1])).startswith(HEAD + '.base'):
                between.append(f.loc(i))
    ctx.ob('C10.order_feed', 'the position pushed on order_q is the parser\'s own (head_blk.base = parser_bs.pos)',
           f.loc(pushes[0][0]) if pushes else f.loc(), ok and not between, 'copies: %d, other stores: %s' % (
               len(base_sets), between))
    # do_reorder's re-insertion: the element written back is `ord` with only base.minor changed
    r = prog.func('expand', 'do_reorder')
    Pr = Prov(prog, r)
    ws = writers.get('do_reorder', [])
    okr = len(ws) == 1 and ws[0][1] == ORD
    st = [i for i in r.insns() if i.op == 'store' and addr_key(Pr.addr(i.ops[1])).startswith(ORD)]
    okm = len(st) == 1 and addr_key(Pr.addr(st[0].ops[1])) == ORD + '.base.minor'
    if okm:
        v = strip_casts(Pr.expr(st[0].ops[0]))
        okm = v[0] == 'bin' and v[1] == 'add' and strip_casts(v[3]) == ('const', 1) and \
            _load_key(v[2]) == ORD + '.base.minor'
    ctx.ob('C10.order_feed', 'do_reorder() re-inserts the same head with minor+1 (continuation of a block that '
           'needed more output space)', r.loc(ws[0][0]) if ws else r.loc(), okr and okm, '')


def no_diagnostics(ctx, prog):
    cg = conc.CallGraph(prog)
    for name in ('do_scan', 'do_retrieve', 'do_emit'):
        f = prog.func('expand', name)
        reach = cg.reachable_funcs([f])
        bad = []
        for g in reach.values():
            if g is f and name == 'do_retrieve':
                continue        # judged path-sensitively by C10.retrieve.mastership (own job vs. candidate)
            if g.name in ('xmalloc', 'xrealloc', 'xalloc'):
                continue        # out of memory is fatal everywhere (not an input-dependent decision)
            if g.name in DIAG or g.name in ('sched_lock', 'sched_unlock', 'xlock', 'xunlock', 'xsignal', 'xwait',
                                            'source_release_buffer', 'sink_write_buffer'):
                continue        # bodies of the diagnostics / of the pthread wrappers (their failure = broken lock)
            for i in g.calls():
                c = callee(i)
                if c in DIAG:
                    bad.append('%s calls %s at %s' % (g.name, c, g.loc(i)))
        # direct calls from the closure into lock wrappers are fine; what matters is a diagnostic call site outside
        ctx.ob('C10.speculative_silent', '%s() and everything it calls raise no diagnostic and do not end the process '
               '(errors of speculative work travel as data)' % name, f.loc(), not bad, '; '.join(bad[:4]) or
               '%d functions in its call closure' % len(reach), evals=len(reach))


def scan_rule(ctx, prog):
    f = prog.func('expand', 'do_scan')
    P = Prov(prog, f)
    E = enumerators(f.module)

    def is_scanpos(k):
        return k.startswith('V(V(G:expand:scan_q.root)') and k.endswith('.pos')

    def is_parser(k):
        return k == 'G:expand:parser_bs.pos'

    def is_rv(e):
        return e[0] == 'call' and e[1] == 'scan'
    facts = [flag_fact('parsing_done', 'G:expand:parsing_done')] + pos_fact_matchers('SP', is_scanpos, is_parser)
    ex = Explorer(prog, f, {}, facts, P, vals={'rv': is_rv})
    events = []

    def on_call(ins, st):
        c = callee(ins)
        if c in ('attach', 'detach', 'scan'):
            # the lock is dropped inside attach()/re-taken in detach(): positions may have moved
            drop_facts(st, 'SP')
            st['facts'].pop('parsing_done', None)
        elif c == 'xmalloc':
            events.append(('alloc', ins, dict(st['cells']), dict(st['facts'])))
        elif c == 'up_heap':
            a0 = render(P.expr(ins.ops[0]))
            for q in ('unord_q', 'retr_q'):
                if q in a0:
                    events.append((q, ins, dict(st['cells']), dict(st['facts'])))
    ex.explore([{'cells': {'rv': v}, 'facts': {}} for v in (E['OK'], E['MORE'], OTHER)], on_call)
    cand = [e for e in events if e[0] in ('unord_q', 'retr_q')]
    ctx.floor('C10 do_scan: candidate creation sites explored', len(cand), 2)
    bad = []
    for kind, ins, cells, fa in cand + [e for e in events if e[0] == 'alloc']:
        if cells['rv'] != E['OK']:
            bad.append('candidate created although scan() returned %s' % cells['rv'])
        if fa.get('parsing_done') is not False:
            bad.append('candidate created although parsing may be done')
        rel = pos_relations('SP', fa)
        if rel != {'GT'}:
            bad.append('candidate created at a position that may be at or behind the parser (possible: %s)' % sorted(rel))
    ctx.ob('C10.scan.ahead_only', 'do_scan() creates a candidate (unord_q + retr_q) only for a match strictly ahead '
           'of the parser, found by a successful scan while parsing is still in progress', f.loc(cand[0][1]), not bad,
           '; '.join(sorted(set(bad))), evals=len(cand))
    # the candidate's identity is the scanner's position
    st = []
    for i in f.insns():
        if i.op == 'call' and callee(i).startswith('llvm.memcpy'):
            d, s = memcpy_dst_src(P, i)
            if d and d.startswith('V(xmalloc') and d.endswith('.base'):
                st.append((d, s))
    ok = len(st) == 2 and all(is_scanpos(s) or s.endswith('.pos') and 'scan_q' in s for d, s in st)
    ctx.ob('C10.scan.identity', 'both records of a candidate carry the scanner\'s position as base', f.loc(), ok, str(st))


def parse_adopt_rule(ctx, prog):
    f = prog.func('expand', 'do_parse')
    P = Prov(prog, f)
    E = enumerators(f.module)

    def is_unord_top(k):
        return k.startswith('V(V(G:expand:unord_q.root)') and k.endswith('.base')

    def is_parser(k):
        return k == 'G:expand:parser_bs.pos'

    def is_rv(e):
        return e[0] == 'call' and e[1] == 'parse'

    def is_legit(a):
        return _is_field(a, 'legitimate', 'unord_q')
    facts = [nonempty_fact('unord_q')] + pos_fact_matchers('UP', is_unord_top, is_parser)
    ex = Explorer(prog, f, {'legit': is_legit}, facts, P, vals={'rv': is_rv})
    events = []

    def on_call(ins, st):
        c = callee(ins)
        if c in ('down_heap', 'up_heap'):
            a0 = render(P.expr(ins.ops[0]))
            if 'unord_q' in a0:
                # the top changed: comparisons made before no longer describe it -- but the element just taken is
                # the one the comparisons were about: remember them under another tag
                for k in list(st['facts']):
                    if isinstance(k, str) and k.startswith('UP:'):
                        st['facts']['TAKEN:' + k[3:]] = st['facts'].pop(k)
                st['facts'].pop('nonempty:unord_q', None)
        elif c == 'advance':
            a = render(P.expr(ins.ops[0]))
            events.append(('advance', ins, dict(st['cells']), dict(st['facts']), a))
    stores = []

    def on_store(ins, n, st):
        stores.append((ins, st['cells'].get('legit'), dict(st['facts'])))
    ex.explore([{'cells': {'rv': E['OK'], 'legit': None}, 'facts': {}}], on_call, on_store)
    ctx.floor('C10 do_parse: stores to unord_blk.legitimate explored', len(stores), 2)
    bad = []
    for ins, val, fa in stores:
        rel = pos_relations('TAKEN', fa)
        if val == 1 and rel != {'EQ'}:
            bad.append('a candidate is adopted (legitimate = true) at line %s although its position may differ from '
                       'the parser\'s (possible: %s)' % (ins.line, sorted(rel)))
        if val == 0 and 'EQ' in rel and 'TAKEN:maj:eq' in fa:
            bad.append('the candidate at the parser\'s own position is disowned at line %s' % ins.line)
        if val not in (0, 1):
            bad.append('legitimate set to a non-constant at line %s' % ins.line)
    ctx.ob('C10.parse.adopt_exact', 'do_parse() adopts a scanner candidate only at exactly the parser\'s position and '
           'disowns the ones it dequeues as passed', f.loc(stores[0][0]), not bad, '; '.join(sorted(set(bad))),
           evals=len(stores))
    # advance(ublk->end_pos) (skipping over the candidate's data) only for the adopted candidate
    adv = [e for e in events if e[0] == 'advance' and 'unord_q' in e[4]]
    bad = []
    for _, ins, cells, fa, a in adv:
        rel = pos_relations('TAKEN', fa)
        if rel != {'EQ'}:
            bad.append('parser jumps to a candidate\'s end position although the candidate may not be at the parser\'s '
                       'position (possible: %s)' % sorted(rel))
    ctx.ob('C10.parse.adopt_exact', 'the parser skips to a candidate\'s end position only for the adopted candidate',
           f.loc(adv[0][1]) if adv else f.loc(), bool(adv) and not bad, '; '.join(bad))


def retrieve_mastership(ctx, prog):
    f = prog.func('expand', 'do_retrieve')
    P = Prov(prog, f)
    E = enumerators(f.module)

    def is_link(a):
        return path_key(a[2]).endswith('.unord_link') and 'retr_q' in addr_key(a)

    def is_complete(a):
        return path_key(a[2]).endswith('.complete') and 'unord_link' in addr_key(a)

    def is_legit(a):
        return path_key(a[2]).endswith('.legitimate') and 'unord_link' in addr_key(a)

    def is_token(a):
        return addr_key(a) == 'G:expand:parse_token'

    def is_rv(e):
        return e[0] == 'call' and e[1] == 'retrieve'
    ex = Explorer(prog, f, {'link': is_link, 'complete': is_complete, 'legit': is_legit, 'token': is_token},
                  [flag_fact('parsing_done', 'G:expand:parsing_done')], P, vals={'rv': is_rv})
    events = []

    def on_call(ins, st):
        c = callee(ins)
        if c == 'advance':
            events.append(('advance', ins, dict(st['cells']), dict(st['facts'])))
        elif c in DIAG:
            events.append(('diag', ins, dict(st['cells']), dict(st['facts'])))
        elif c == 'up_heap':
            a0 = render(P.expr(ins.ops[0]))
            if 'emit_q' in a0:
                events.append(('emit', ins, dict(st['cells']), dict(st['facts'])))

    def on_store(ins, n, st):
        if n == 'token':
            events.append(('token', ins, dict(st['cells']), dict(st['facts'])))
        if n == 'complete':
            st['facts']['self_completed'] = True     # the retriever finished ahead of the parser
    init = []
    for link in (0, OTHER):
        for comp in (0, 1):
            for leg in (0, 1):
                if link == 0 and (comp, leg) != (0, 0):
                    continue
                for rv in (E['OK'], E['MORE'], OTHER):
                    init.append({'cells': {'link': link, 'complete': comp, 'legit': leg, 'rv': rv, 'token': 0},
                                 'facts': {}})
    ex.explore(init, on_call, on_store)
    adv = [e for e in events if e[0] in ('advance', 'token')]
    ctx.floor('C10 do_retrieve: advance()/parse_token sites explored', len(adv), 2)
    bad = []
    for kind, ins, cells, fa in adv:
        own = cells['link'] == 0
        adopted = cells['link'] == OTHER and cells['complete'] == 1 and cells['legit'] == 1
        if fa.get('parsing_done') is not False:
            bad.append('%s at line %s although parsing may be finished' % (kind, ins.line))
        if not (own or adopted):
            bad.append('%s at line %s by a candidate the parser has not adopted (complete=%s, legitimate=%s)' % (
                'advance()' if kind == 'advance' else 'parse_token = 1', ins.line, cells['complete'], cells['legit']))
    ctx.ob('C10.retrieve.mastership', 'do_retrieve() moves the parser position / returns the parse token only as the '
           'parser\'s own job or as a candidate the parser has adopted (complete && legitimate)', f.loc(adv[0][1]),
           not bad, '; '.join(sorted(set(bad))), evals=len(adv))
    # a diagnostic raised by do_retrieve() itself is tolerable only for the parser's own job (a block whose header
    # the sequential parser has read): for a scanner candidate the error may be an artefact of a spurious pattern
    bad = []
    diags = [e for e in events if e[0] == 'diag']
    for kind, ins, cells, fa in diags:
        if cells['link'] != 0:
            bad.append('%s at line %s may be raised for a scanner candidate' % (callee(ins), ins.line))
    ctx.ob('C10.speculative_silent', 'do_retrieve() itself raises no diagnostic for a scanner-found candidate', f.loc(),
           not bad, '; '.join(sorted(set(bad))) or '%d diagnostic site(s), all on own-job paths' % len(diags),
           nontrivial=False)
    # a disowned candidate never reaches the emitter
    bad = []
    for kind, ins, cells, fa in events:
        if kind == 'emit' and cells['link'] == OTHER and cells['complete'] == 1 and cells['legit'] == 0 \
                and not fa.get('self_completed'):
            bad.append('a candidate the parser has passed (complete, not legitimate) is queued for emission')
    # (its output would be discarded by do_reorder anyway; the abort branch is what releases its resources early)
    ctx.ob('C10.retrieve.abort_disowned', 'a candidate already disowned by the parser is aborted, not emitted',
           f.loc(), not bad, '; '.join(bad), nontrivial=True)


def run(ctx):
    prog = ctx.prog('ssa')
    ctx.explain('C10: path-sensitive exploration of do_reorder/can_reorder/do_scan/do_parse/do_retrieve over position '
                'comparison facts (major/minor comparisons are turned into the set of possible relations LT/EQ/GT) '
                'and the candidate bookkeeping flags; who-writes rules for order_q; call-closure rule for the '
                'speculative tasks.')
    order_feed(ctx, prog)
    reorder_cut(ctx, prog)
    can_reorder_rule(ctx, prog)
    no_diagnostics(ctx, prog)
    scan_rule(ctx, prog)
    parse_adopt_rule(ctx, prog)
    retrieve_mastership(ctx, prog)
    expandrules.retrieve_obligations(ctx, prog, 'C10')
    expandrules.reorder_obligations(ctx, prog, 'C10', parts=('write', 'fatal'))
    # a speculative task that keeps its work unit stalls the run: token conservation laws (shared with C11)
    import conc
    from props import c11
    c11.r3(ctx, prog, conc.Analysis(prog), only_modes=('expan',), floor=10)

"""C11 Schedulers are deadlock-free, bounded and order-preserving -- the safety skeleton only
(liveness under every interleaving is NOT decided by static analysis).

(a) R1 monitor discipline: lock typestate, role contracts, acyclic lock order
(b) R3 token conservation on every path of every task / callback / I/O-thread loop
(c) R4 queue capacities cover the token totals and the threshold reservations
(d) wake-up discipline: select_task + signal before every release of the scheduler monitor, waits in loops,
    enabling stores followed by a signal
(e) reservation thresholds
(g) stale-tolerant head-of-line tests in the decompressor's ready predicates
"""
import os
import cfg, conc, schedlaws, balance
from irdb import broken
from prov import Prov, addr_key, strip_ext, strip_casts, render, poly, path_key

LEVEL = 'other'


def run(ctx):
    prog = ctx.prog('ssa')
    A = conc.Analysis(prog)
    ctx.explain('C11 safety skeleton: lock typestate over every path (interprocedural, mode-resolved callbacks); '
                'conservation laws W/O/I summed over every path of every task, callback and I/O loop; queue '
                'capacities compared symbolically with token totals and thresholds; wake-up and reservation rules; '
                'stale-tolerant head tests. Termination itself is not decided.')
    r1(ctx, prog, A)
    r3(ctx, prog, A)
    r4(ctx, prog, A)
    wake(ctx, prog, A)
    thresholds(ctx, prog, A)
    stale_head(ctx, prog, A)
    predicates(ctx, prog, A)
    reader_announces_eof(ctx, prog, A)
    ring_rule(ctx, prog)


# ------------------------------------------------------------------ (a)
def r1(ctx, prog, A):
    e = A.engine
    viol = {}
    for rule, fn, ins, d in e.violations:
        viol.setdefault((fn.qname, id(ins)), []).append((rule, d))
    n = 0
    for kind in ('lock', 'unlock', 'wait'):
        for fq, iid, loc in sorted(e.lock_sites[kind], key=lambda x: x[2]):
            v = viol.get((fq, iid))
            n += 1
            ctx.ob('R1.typestate', '%s at %s' % (kind, loc), loc, not v,
                   'mutex state is right on every path and in every calling context' if not v else '; '.join(
                       '%s: %s' % x for x in v))
    ctx.floor('lock operations', len(e.lock_sites['lock']), 8)
    ctx.floor('unlock operations', len(e.lock_sites['unlock']), 7)
    ctx.floor('cond_wait operations', len(e.lock_sites['wait']), 3)
    sched = _mutex(e, 'sched_mutex')
    # role contracts
    for mode in sorted(e.modes):
        slots = e.modes[mode]
        roles = []
        for idx, v in slots.items():
            if isinstance(v, tuple):
                for f in v[1].get(1, []):
                    roles.append(('ready', f, {sched}, {sched}, True))
                for f in v[1].get(2, []):
                    roles.append(('run', f, {sched}, {sched}, False))
            elif v and idx == 3:
                roles.append(('finished', v[0], {sched}, {sched}, True))
            elif v and idx in (4, 5):
                roles.append(('callback', v[0], set(), set(), False))
        for role, f, entry, exit_, nolock in roles:
            exits = set()
            found = False
            for (root, fq, state, bind), ex in e.memo.items():
                if fq != f.qname or A.mode_of_root(root) not in (mode, None):
                    continue
                locks, alive = state
                if not (alive - {'main'}):
                    continue        # no other thread exists yet (primary's first select_task): no contract needed
                found = True
                ctx.ob('R1.role', '%s %s [%s] is entered with %s' % (role, f.name, mode, sorted(entry) or 'no lock'),
                       f.loc(), set(locks) == entry, 'entered from %s with %s' % (root, sorted(locks)))
                if set(locks) == entry:
                    for x in ex:
                        exits.add(frozenset(x[0]))
            if not found:
                continue
            ctx.ob('R1.role', '%s %s [%s] returns with %s' % (role, f.name, mode, sorted(exit_) or 'no lock'), f.loc(),
                   exits <= {frozenset(exit_)}, 'exit locksets %s' % [sorted(x) for x in exits])
            if nolock:
                inner = [l for kind in ('lock', 'unlock', 'wait') for (fq, iid, l) in e.lock_sites[kind]
                         if fq in A.cg.reachable_funcs([f])]
                ctx.ob('R1.role', '%s %s [%s] performs no lock operation' % (role, f.name, mode), f.loc(), not inner,
                       'lock ops at %s' % inner)
    # thread roots: empty -> empty
    for root, cls, mode in A.roots:
        if cls in ('main', 'handler'):
            continue
        f = A.model.classes[cls]['fn']
        exits = set()
        for (r, fq, locks), ex in e.summaries.items():
            if r == root and fq == f.qname:
                exits |= {frozenset(x) for x in ex}
        ctx.ob('R1.role', 'thread root %s returns holding nothing' % root, f.loc(), exits <= {frozenset()},
               'exit locksets %s' % [sorted(x) for x in exits])
    # single exit lockset per entry lockset for every function (attach: {sched}->{}, detach: {}->{sched})
    amb = 0
    nfn = 0
    for (root, fq, locks), ex in sorted(e.summaries.items()):
        nfn += 1
        if len({frozenset(x) for x in ex}) > 1:
            amb += 1
            ctx.ob('R1.summary', '%s has one exit lockset per entry lockset' % fq, fq, False,
                   'entered with %s, may return with %s' % (sorted(locks), [sorted(x) for x in ex]))
    ctx.ob('R1.summary', 'every function has a single exit lockset per entry lockset', 'src/', amb == 0,
           '%d (root, function, entry lockset) summaries' % nfn, evals=nfn)
    # lock order acyclic
    edges = list(e.lock_order)
    cyc = _cycle(edges)
    ctx.ob('R1.lockorder', 'lock-order graph is acyclic', 'src/process.c', cyc is None,
           'edges: %s' % ['%s -> %s (%s)' % (a.split(':')[-1], b.split(':')[-1], l) for (a, b), l in e.lock_order.items()]
           if cyc is None else 'cycle: %s' % cyc, evals=max(1, len(edges)))
    # all mutex operands known
    ctx.ob('R1.typestate', 'every mutex/condvar operand is one of the known globals', 'src/process.c',
           len(e.mutexes) == 3 and len(e.conds) == 3, 'mutexes %s conds %s' % (sorted(e.mutexes), sorted(e.conds)))


def _mutex(e, name):
    for m in e.mutexes:
        if m.endswith(':' + name) or m == name:
            return m
    broken('mutex %s vanished' % name)


def _cycle(edges):
    g = {}
    for a, b in edges:
        g.setdefault(a, set()).add(b)
    color = {}

    def dfs(u, path):
        color[u] = 1
        for v in g.get(u, ()):
            if color.get(v) == 1:
                return path + [u, v]
            if v not in color:
                r = dfs(v, path + [u])
                if r:
                    return r
        color[u] = 2
        return None
    for u in list(g):
        if u not in color:
            r = dfs(u, [])
            if r:
                return r
    return None


# ------------------------------------------------------------------ (b)
def r3(ctx, prog, A, kinds=('token',), rule='R3.token', only_modes=None, floor=30):
    total = 0
    for mode in sorted(A.engine.modes):
        if only_modes is not None and not any(x in str(mode) for x in only_modes):
            continue
        ml = schedlaws.ModeLaws(prog, A, mode, kinds=('token', 'object'))
        names = set(schedlaws.MODES[mode][kinds[0]]) if len(kinds) == 1 else None
        total += ml.check(ctx, rule, only_laws=names)
        # anti-vacuity: every queue size / counter touched by run code is covered by a law or declared token-less
        known = set(ml.lawset.counters) | set(schedlaws.TOKENLESS_QUEUES.get(mode, []))
        for key, (f, ins) in sorted(schedlaws.queue_sizes_written(prog, A, ml).items()):
            if key not in known:
                broken('queue %s is modified in %s (%s) but belongs to no conservation law' % (key, f.name, f.loc(ins)))
        for ck, f, ins in ml.unknown_effects():
            # an object created or released at a site no law accounts for: the token tied to it (input slot, work
            # unit, output slot) cannot be shown to be taken or given back there
            ctx.ob(rule, 'allocation/release class %s [%s] is accounted for by a conservation law' % (ck, mode), f.loc(ins),
                   False, 'objects of this class are created or released here outside the sites the token laws know')
    ctx.floor('law obligations', total, floor)


# ------------------------------------------------------------------ (c)
def _init_capacities(prog, A, unit):
    """queue -> capacity expression (prov) from the init function of a mode"""
    f = prog.func(unit, 'init')
    P = A.cg.prov(f)
    caps = {}
    for ins in f.insns():
        if ins.op == 'store':
            a = P.addr(ins.ops[1])
            if a[1][0] == 'G' and a[2] and a[2][-1][0] == 'f' and a[2][-1][3] == 'root':
                v = strip_casts(P.expr(ins.ops[0]))
                if v[0] == 'call' and v[1] == 'xmalloc':
                    size = strip_casts(P.expr(v[2].ops[0]))
                    caps[a[1][1]] = (size, ins)
    return f, P, caps


def _leafname(e):
    e = strip_casts(e)
    if e[0] == 'load' and e[1][1][0] == 'G':
        return e[1][1][1] + path_key(e[1][2])
    if e[0] == 'select':
        return None
    return None


def _cap_poly(size):
    """xmalloc(n * sizeof(elem)) -> polynomial of n ; select(c, a-k, 0) is resolved to its non-zero arm"""
    size = strip_casts(size)
    if size[0] == 'bin' and size[1] == 'mul':
        a, b = strip_casts(size[2]), strip_casts(size[3])
        n = a if b[0] == 'const' else b
        n = strip_casts(n)
        guard = None
        if n[0] == 'select':
            guard = n[1]
            arms = [strip_casts(n[2]), strip_casts(n[3])]
            nz = [x for x in arms if x != ('const', 0)]
            if len(nz) == 1:
                n = nz[0]
        if n[0] == 'phi':
            return None, None
        return poly(n, _leafname), guard
    return None, None


def r4(ctx, prog, A):
    # compression: each queue's elements hold one token of the law it appears in
    expect = {
        'compress': {'compress:coll_q': {('in_slots',): 1}, 'compress:trans_q': {('work_units',): 1},
                     'compress:reord_q': {('out_slots',): 1}},
        'expand': {'expand:input_q': {('in_slots',): 1}, 'expand:scan_q': {('in_slots',): 1},
                   'expand:retr_q': {('work_units',): 1}, 'expand:emit_q': {('work_units',): 1},
                   'expand:reord_q': {('out_slots',): 1},
                   'expand:order_q': {('work_units',): 1, ('out_slots',): 1},
                   'expand:unord_q': 'thresholds'},
    }
    thr = _thresholds(prog, A)
    for unit, table in expect.items():
        f, P, caps = _init_capacities(prog, A, unit)
        ctx.floor('queue initialisations in %s:init' % unit, len(caps), len(table))
        for q in caps:
            if q not in table:
                broken('queue %s initialised in %s:init has no capacity rule' % (q, unit))
        for q, want in sorted(table.items()):
            if q not in caps:
                broken('queue %s is no longer initialised in %s:init' % (q, unit))
            size, ins = caps[q]
            pl, guard = _cap_poly(size)
            if pl is None:
                # phi of (expr, 0): the conditional form; handle through the phi inputs
                n = strip_casts(size)
                n = strip_casts(n[2]) if n[0] == 'bin' and strip_casts(n[3])[0] == 'const' else n
                if n[0] == 'phi':
                    arms = [strip_casts(x) for x, _ in P.phi_inputs(n)]
                    nz = [x for x in arms if x != ('const', 0)]
                    if len(nz) == 1:
                        pl = poly(nz[0], _leafname)
            if want == 'thresholds':
                t_emit = thr.get(('expand', 'can_emit', 'out_slots'))
                t_scan = thr.get(('expand', 'can_scan', 'work_units'))
                ctx.require(t_emit is not None and t_scan is not None, 'cannot extract emit/scan thresholds')
                w = {('work_units',): 1, ('out_slots',): 1, (): -(t_emit + t_scan)}
                ok = pl is not None and all(pl.get(k, 0) == v for k, v in w.items()) and set(pl) <= set(w) and \
                    pl.get((), 0) >= -(t_emit + t_scan)
                ctx.ob('R4.capacity', '%s >= work_units + out_slots - (emit reserve %d + scan reserve %d)' % (
                    q, t_emit, t_scan), f.loc(ins), ok, 'capacity polynomial %s' % _pp(pl))
            else:
                ok = pl is not None and all(pl.get(k, 0) >= v for k, v in want.items()) and pl.get((), 0) >= 0 and \
                    all(c >= 0 for c in pl.values())
                ctx.ob('R4.capacity', '%s >= %s' % (q, _pp(want)), f.loc(ins), ok, 'capacity polynomial %s' % _pp(pl))
    # output_q of the I/O layer: out_slots ; copy mode: in_slots <= capacity
    f = prog.func('process', 'init_io')
    P = A.cg.prov(f)
    cap = None
    for ins in f.insns():
        if ins.op == 'store':
            a = P.addr(ins.ops[1])
            if a[1][0] == 'G' and a[1][1].endswith('output_q') and a[2] and a[2][-1][3] == 'modulus':
                cap = (poly(strip_casts(P.expr(ins.ops[0])), _leafname), ins)
    ctx.require(cap is not None, 'output_q initialisation vanished from init_io')
    ctx.ob('R4.capacity', 'process:output_q >= out_slots', f.loc(cap[1]), cap[0] == {('out_slots',): 1},
           'capacity polynomial %s' % _pp(cap[0]))
    # copy(): constants
    cf = prog.func('process', 'copy')
    Pc = A.cg.prov(cf)
    consts = {}
    for ins in cf.insns():
        if ins.op == 'store':
            a = Pc.addr(ins.ops[1])
            v = Pc.expr(ins.ops[0])
            if a[1][0] == 'G' and not a[2] and v[0] == 'const':
                consts[a[1][1]] = v[1]
    ctx.ob('R4.capacity', 'copy(): in_slots <= out_slots (= capacity of output_q)', cf.loc(),
           'in_slots' in consts and 'out_slots' in consts and consts['in_slots'] <= consts['out_slots'],
           'constants %s' % consts)
    ctx.ob('R4.capacity', 'copy(): out_slots == total_out_slots (the termination test can become true)', cf.loc(),
           consts.get('out_slots') is not None and consts.get('out_slots') == consts.get('total_out_slots'),
           'constants %s' % consts)


def _pp(pl):
    if pl is None:
        return '<not polynomial>'
    if not pl:
        return '0'
    return ' + '.join(('%d*' % c if c != 1 or not m else '') + ('*'.join(m) if m else ('' if c == 1 and m else '')) or str(c)
                      for m, c in sorted(pl.items(), key=lambda x: (len(x[0]) == 0, x[0]))).replace('+ -', '- ')


# ------------------------------------------------------------------ (e)
def _thresholds(prog, A):
    """for every ready predicate: {(unit, fn, counter): largest K in a test `counter > K` that is not paired with
    a head-of-order exemption}.  `>= K` is normalised to `> K-1`."""
    out = {}
    for mode, slots in A.engine.modes.items():
        for v in slots.values():
            if isinstance(v, tuple):
                for f in v[1].get(1, []):
                    P = A.cg.prov(f)
                    for b in f.blocks.values():
                        t = b.term
                        if t.op != 'br' or len(t.extra['targets']) != 2:
                            continue
                        # `counter > K` in any spelling (>=, <, <=, negated, early-return form): the fact name
                        # produced by the counter matcher carries the K
                        import expandrules as X
                        from prov import peel_cond as _peel
                        core, _ = _peel(P.expr(t.ops[0]))
                        r = X.counter_fact({'G:work_units', 'G:out_slots', 'G:in_slots'})[1](core)
                        if r is not None:
                            gname, k = r[0].split('>')
                            key = (f.module.unit, f.name, gname[2:])
                            out[key] = max(out.get(key, -1), int(k))
    return out


def thresholds(ctx, prog, A):
    thr = _thresholds(prog, A)
    want = {('compress', 'can_transmit', 'out_slots'): 'transmit', ('expand', 'can_emit', 'out_slots'): 'emit',
            ('expand', 'can_scan', 'work_units'): 'scan'}
    for key, nm in want.items():
        ctx.require(key in thr, 'threshold test on %s vanished from %s' % (key[2], key[1]))
        f = prog.func(key[0], key[1])
        ctx.ob('C11.reserve', '%s() keeps at least one %s in reserve (threshold %d)' % (key[1], key[2], thr[key]), f.loc(),
               thr[key] >= 1, 'the last unit is reserved for the block the writer needs next')
    # cross-unit constant: total_out_slots (compression) = 2*num_worker + TRANSM_THRESH
    smc = prog.func('process', 'set_memory_constraints')
    P = A.cg.prov(smc)
    totals = {}
    for ins in smc.insns():
        if ins.op == 'store':
            a = P.addr(ins.ops[1])
            if a[1][0] == 'G' and not a[2] and a[1][1] in ('total_out_slots', 'total_in_slots'):
                totals.setdefault(a[1][1], []).append((poly(strip_casts(P.expr(ins.ops[0])), _leafname), ins))
    ctx.floor('stores to total_out_slots', len(totals.get('total_out_slots', [])), 3)
    # identify the compression branch: controlled by `decompress` false -> first store in layout order
    dom = cfg.dominators(smc)
    tt = thr[('compress', 'can_transmit', 'out_slots')]
    comp = [(pl, ins) for pl, ins in totals['total_out_slots'] if _on_edge(smc, P, ins, 'decompress', False)]
    ctx.require(len(comp) == 1, 'cannot identify the compression branch of set_memory_constraints')
    pl, ins = comp[0]
    ctx.ob('C11.reserve', 'compression total_out_slots = a*num_worker + TRANSM_THRESH', smc.loc(ins),
           pl is not None and pl.get((), 0) == tt and pl.get(('num_worker',), 0) >= 1, 'total_out_slots = %s, threshold %d' % (
               _pp(pl), tt))
    for name, lst in totals.items():
        for pl, ins in lst:
            ok = pl is not None and set(pl) <= {(), ('num_worker',)} and all(c >= 0 for c in pl.values()) and \
                (pl.get(('num_worker',), 0) >= 1 or pl.get((), 0) >= 1)
            ctx.ob('C11.reserve', '%s is affine and positive in num_worker' % name, smc.loc(ins), ok, _pp(pl))
    # decompression: emit reserve must be available: total_out_slots > EMIT_THRESH for every num_worker >= 1
    te = thr[('expand', 'can_emit', 'out_slots')]
    for pl, ins in totals['total_out_slots']:
        if _on_edge(smc, P, ins, 'decompress', True):
            mn = (pl or {}).get(('num_worker',), 0) * 1 + (pl or {}).get((), 0)
            ctx.ob('C11.reserve', 'decompression total_out_slots covers the emit reserve for num_worker >= 1',
                   smc.loc(ins), pl is not None and mn >= te, 'minimum %s at num_worker=1, reserve %d' % (mn, te))


def _on_edge(fn, P, ins, gname, polarity):
    """is `ins` reachable only through the edge on which global `gname` is (non-)zero"""
    for b in fn.blocks.values():
        t = b.term
        if t.op == 'br' and len(t.extra['targets']) == 2:
            c = strip_casts(P.expr(t.ops[0]))
            pol = True
            while c[0] == 'icmp' and strip_casts(c[3]) == ('const', 0) and c[1] in ('ne', 'eq'):
                if c[1] == 'eq':
                    pol = not pol
                c = strip_casts(c[2])
            if c[0] == 'trunc':
                c = strip_casts(c[2])
            if c[0] == 'load' and c[1][1] == ('G', gname) and not c[1][2]:
                te, fe = t.extra['targets'] if pol else t.extra['targets'][::-1]
                want, other = (te, fe) if polarity else (fe, te)
                if not cfg.reaches(fn, fn.entry.name, ins.block.name, removed_edges=[(b.name, want)]) and \
                        cfg.reaches(fn, want, ins.block.name):
                    return True
    return False


# ------------------------------------------------------------------ (d)
def wake(ctx, prog, A):
    e = A.engine
    sched = _mutex(e, 'sched_mutex')
    schedc = [c for c in e.conds if c.endswith('sched_cond')][0]
    # who may release the scheduler monitor
    rel = []
    for f in prog.all_funcs():
        P = A.cg.prov(f)
        for ins in f.calls():
            n = ins.extra.get('callee')
            if n == conc.UNLOCK_FN and e._mutex_arg(f, ins) == sched:
                rel.append((f, ins, 'unlock'))
            if n == conc.WAIT_FN and e._mutex_arg(f, ins, 1) == sched:
                rel.append((f, ins, 'wait'))
    ctx.floor('releases of sched_mutex', len(rel), 3)
    roots = {d['fn'].qname for d in A.model.classes.values()}
    for f, ins, kind in rel:
        P = A.cg.prov(f)
        dom = cfg.dominators(f)
        if kind == 'unlock' and f.qname not in roots:
            st = [c for c in f.calls('select_task') if cfg.insn_dominates(f, c, ins, dom)]
            ctx.ob('C11.wake', '%s: select_task() runs before sched_mutex is released' % f.name, f.loc(ins), bool(st), '')
            sigs = [c for c in f.calls() if c.extra.get('callee') in conc.SIGNAL_FNS and e._mutex_arg(f, c) == schedc]
            sigblocks = {c.block.name for c in sigs}
            # edges on which a task is runnable or the process finished
            need = []
            for b in f.blocks.values():
                t = b.term
                if t.op == 'br' and len(t.extra['targets']) == 2 and st and cfg.insn_dominates(f, st[0], t, dom):
                    c = strip_casts(P.expr(t.ops[0]))
                    pol = True
                    while c[0] == 'icmp' and c[1] in ('ne', 'eq') and strip_casts(c[3]) in (('const', 0), ('null',)):
                        if c[1] == 'eq':
                            pol = not pol
                        c = strip_casts(c[2])
                    if c[0] == 'trunc':
                        c = strip_casts(c[2])
                    if c[0] == 'load' and addr_key(c[1]).endswith(':next_task'):
                        need.append(('next_task != NULL', t.extra['targets'][0 if pol else 1]))
                    if c[0] == 'call' and c[1] is None and A.cg.slot_key(f, c[2]) and A.cg.slot_key(f, c[2])[2] == 'finished':
                        need.append(('finished()', t.extra['targets'][0 if pol else 1]))
            ctx.ob('C11.wake', '%s: tests next_task and finished() after select_task' % f.name, f.loc(ins),
                   {n for n, _ in need} == {'next_task != NULL', 'finished()'}, 'tests found: %s' % [n for n, _ in need])
            for nm, tgt in need:
                ok = cfg.must_pass(f, tgt, [ins.block.name], sigblocks)
                ctx.ob('C11.wake', '%s: a worker is signalled whenever %s' % (f.name, nm), f.loc(ins), ok,
                       'every path from that edge to the unlock passes pthread_cond_signal(&sched_cond)')
        elif kind == 'unlock':
            # thread exit: broadcast before the final unlock
            bc = [c for c in f.calls('pthread_cond_broadcast') if e._mutex_arg(f, c) == schedc and
                  cfg.insn_dominates(f, c, ins, dom)]
            ctx.ob('C11.wake', '%s: exiting worker broadcasts before releasing sched_mutex' % f.name, f.loc(ins), bool(bc), '')
        else:
            ctx.ob('C11.wake', 'cond_wait on sched_cond only in the worker loop', f.loc(ins), f.qname in roots, f.name)
    # every wait sits in a loop that re-evaluates its predicate
    nwait = 0
    for f in prog.all_funcs():
        lp = None
        for ins in f.calls(conc.WAIT_FN):
            nwait += 1
            lp = lp or cfg.loops(f)
            P = A.cg.prov(f)
            inl = [(h, b) for h, b in lp.items() if ins.block.name in b]
            ok = False
            pv = set()
            if inl:
                h, body = min(inl, key=lambda x: len(x[1]))
                # loop-exit conditions must read globals (the predicate) -- collect them
                for bn in body:
                    t = f.blocks[bn].term
                    if t.op == 'br' and len(t.extra['targets']) == 2:
                        lvs = P.leaves(P.expr(t.ops[0]))
                        if any(l[0] == 'call' and l[1] in (conc.WAIT_FN, 'abort') for l in lvs):
                            continue
                        for lf in lvs:
                            if lf[0] == 'load' and lf[1].startswith('G:'):
                                pv.add(lf[1])
                            if lf[0] == 'call':
                                pv.add('call')
                ok = bool(pv)
            # after the wait returns, control must get back to the guard that led to the wait without doing
            # anything else (no store, no call): `while (pred) wait`, not `if (pred) wait`
            guards = [p_ for p_ in ins.block.preds if f.blocks[p_].term.op == 'br' and len(f.blocks[p_].term.extra['targets']) == 2]
            back = False
            if guards:
                seen_b = set()
                st = [s_ for s_ in ins.block.succs]
                while st:
                    bn = st.pop()
                    if bn in seen_b:
                        continue
                    seen_b.add(bn)
                    if bn in guards:
                        back = True
                        break
                    blk = f.blocks[bn]
                    if blk.term.op == 'unreachable':
                        continue
                    if any(i.op == 'store' or (i.op == 'call' and i.extra.get('callee') != 'abort') for i in blk.insns):
                        continue
                    st.extend(blk.succs)
            ctx.ob('C11.wake', 'cond_wait in %s is in a loop re-testing its predicate' % f.name, f.loc(ins), ok and back,
                   'predicate reads %s; control returns to the guard right after the wait: %s' % (sorted(pv), back))
            # enabling stores for source/sink condvars
            c = e._mutex_arg(f, ins, 0)
            m = e._mutex_arg(f, ins, 1)
            if c != schedc:
                _enabling(ctx, prog, A, c, m, {x for x in pv if x.startswith('G:')})
    ctx.floor('cond_wait sites', nwait, 3)


def _enabling(ctx, prog, A, cond, mutex, pvars):
    e = A.engine
    n = 0
    for f in prog.all_funcs():
        P = A.cg.prov(f)
        for ins in f.insns():
            if ins.op != 'store':
                continue
            a = P.addr(ins.ops[1])
            if a[1][0] != 'G':
                continue
            key = 'G:' + a[1][1] + path_key(a[2])
            if key not in pvars:
                continue
            v = strip_ext(P.expr(ins.ops[0]))
            enabling = False
            if v[0] == 'bin' and v[1] == 'add' and strip_ext(v[3])[0] == 'const' and strip_ext(v[3])[1] > 0:
                enabling = True
            if v[0] == 'const' and v[1] != 0:
                enabling = True
            if not enabling:
                continue
            # must be followed by a signal on `cond` before the unlock of `mutex`, except through branches on pvars
            unl = [c for c in f.calls(conc.UNLOCK_FN) if e._mutex_arg(f, c) == mutex]
            sig = {c.block.name for c in f.calls() if c.extra.get('callee') in conc.SIGNAL_FNS and e._mutex_arg(f, c) == cond}
            if not unl:
                continue        # not under that mutex in this function (e.g. initialisation before threads exist)
            n += 1
            # allowed bypass edges: branches whose condition leaves are only predicate variables
            bypass = []
            for b in f.blocks.values():
                t = b.term
                if t.op == 'br' and len(t.extra['targets']) == 2:
                    lv = P.leaves(P.expr(t.ops[0]))
                    gl = {l[1] for l in lv if l[0] == 'load'}
                    other = [l for l in lv if l[0] not in ('load', 'const')]
                    if gl and gl <= pvars and not other:
                        bypass.extend((b.name, s) for s in b.succs)
            # the signal must be reachable from the store before the unlock, on the non-bypass structure: i.e.
            # removing signal blocks, unlock is reachable from the store only via a predicate-variable branch
            ok = True
            same_block_sig = any(c.block is ins.block and c.idx > ins.idx for c in f.calls()
                                 if c.extra.get('callee') in conc.SIGNAL_FNS and e._mutex_arg(f, c) == cond)
            if not same_block_sig:
                for u in unl:
                    r = cfg.reachable(f, ins.block.name, removed_blocks=sig - {ins.block.name}, removed_edges=bypass)
                    if u.block.name in r and not (u.block is ins.block and u.idx < ins.idx):
                        ok = False
                ok = ok and bool(sig)
            ctx.ob('C11.wake', 'enabling store to %s in %s is followed by a signal on %s' % (
                key, f.name, cond.split(':')[-1]), f.loc(ins), ok,
                'only a test of the predicate variables themselves may skip the signal')
    ctx.floor('enabling stores for %s' % cond, n, 2)


# ------------------------------------------------------------------ (g)
def stale_head(ctx, prog, A):
    """ready predicates of the decompressor that compare the head of a queue with the head of order_q must use an
    ordering comparison (a passed-over speculative candidate at the head must not block the reserved units)"""
    e = A.engine
    slots = e.modes.get('expansion')
    ctx.require(slots is not None, 'expansion mode vanished')
    ready = []
    for v in slots.values():
        if isinstance(v, tuple):
            ready = v[1].get(1, [])
    n = 0
    for f in ready:
        P = A.cg.prov(f)
        cmps = {}
        for ins in f.insns():
            if ins.op != 'icmp':
                continue
            a, b = strip_ext(P.expr(ins.ops[0])), strip_ext(P.expr(ins.ops[1]))
            if a[0] == 'load' and b[0] == 'load':
                ka, kb = addr_key(a[1]), addr_key(b[1])
                if ('order_q.root' in ka) != ('order_q.root' in kb) and ('.root' in ka and '.root' in kb):
                    q = (kb if 'order_q.root' in ka else ka)
                    qn = q.split('.root')[0].split(':')[-1]
                    cmps.setdefault(qn, set()).add(ins.extra['pred'])
        for qn, preds in sorted(cmps.items()):
            n += 1
            ordering = preds & {'ult', 'ugt', 'ule', 'uge'}
            ctx.ob('C11.stale_head', '%s(): head of %s vs. head of order_q uses an ordering test' % (f.name, qn), f.loc(),
                   bool(ordering), 'icmp predicates %s (an equality-only test lets a passed-over candidate at the head of '
                   '%s block the reserved units for ever)' % (sorted(preds), qn))
    ctx.floor('head-of-line tests in decompressor predicates', n, 2)
    # the speculative producer exists: do_scan creates retrieve jobs whose position comes from the scanner
    f = prog.func('expand', 'do_scan')
    P = A.cg.prov(f)
    spec = False
    for ins in f.insns():
        if ins.op == 'call' and (ins.extra.get('callee') or '').startswith('llvm.memcpy'):
            d = P.addr(ins.ops[0])
            s = P.addr(ins.ops[1])
            if addr_key(d).endswith('.base') and 'retr_blk' in str(d) and addr_key(s).endswith('.pos'):
                spec = True
    ctx.ob('C11.stale_head', 'speculative origin: do_scan stamps retrieve jobs with scanner positions', f.loc(), spec,
           'rb->base = bs->pos')


def reader_announces_eof(ctx, prog, A):
    """every way the reader thread ends -- end of file, or the early close requested by the decompressor -- sets
    `eof` under the scheduler lock: both can_terminate() predicates wait for it"""
    f = prog.func('process', 'source_thread_proc')
    P = A.cg.prov(f)
    st = [i for i in f.insns() if i.op == 'store' and addr_key(P.addr(i.ops[1])) == 'G:eof' and
          strip_casts(P.expr(i.ops[0])) == ('const', 1)]
    rets = [b.name for b in f.blocks.values() if b.term.op == 'ret']
    dom = cfg.dominators(f)
    ok = bool(st) and bool(rets) and all(any(i.block.name in dom[r] for i in st) for r in rets)
    ctx.ob('C11.wake', 'the reader thread sets eof on every path by which it ends (termination of either scheduler '
           'waits for it)', f.loc(st[0]) if st else f.loc(), ok, 'stores at %s, returns from %s' % ([i.line for i in st], rets))


# ------------------------------------------------------------------ (e') ready predicates, tabulated
def predicates(ctx, prog, A):
    """Necessary conditions on the ready predicates, decided on the predicates' complete decision tables (every path,
    with comparisons of counters named by what they mean, positions by the relation they imply) so that they do not
    depend on how a predicate is written:
      N1  a predicate that is true guarantees what its task takes unconditionally (token > 0, queue non-empty);
      N2  reserved units (counter <= threshold, threshold >= 1) are granted only to the head of the order, and
      N2' they ARE granted to every block at or behind that head (else the writer's next block can starve: F3);
      N3  a task that already holds its work unit (unfinished_work) can be resumed without a second one."""
    import expandrules as X
    from expandrules import (counter_fact, counter_gt, pos_fact_matchers, pos_relations, flag_fact, nonnull_fact,
                             nonempty_q, predicate_table, eq_fact)
    WU, OS = 'G:work_units', 'G:out_slots'
    cf = counter_fact({WU, OS, 'G:in_slots'})

    def is_emit_top(k):
        return k.startswith('V(V(G:expand:emit_q.root)') and k.endswith('.base')

    def is_order_head(k):
        return k.startswith('V(G:expand:order_q.root)[') and k.endswith('.base')

    def is_trans_top(k):
        return k.startswith('V(V(G:compress:trans_q.root)') and k.endswith('.pos')

    def is_order_c(k):
        return k == 'G:compress:order'

    def thr(rows, key):
        ks = set()
        for _, fa in rows:
            for n in fa:
                if isinstance(n, str) and n.startswith(key + '>'):
                    ks.add(int(n[len(key) + 1:]))
        return max(ks) if ks else None

    # ---- can_emit
    f, rows = predicate_table(prog, 'expand', 'can_emit', [cf, nonempty_q('expand', 'emit_q'), nonempty_q('expand', 'order_q')]
                              + pos_fact_matchers('EO', is_emit_top, is_order_head))
    ctx.floor('C11 can_emit decision paths', len(rows), 2)
    T = thr(rows, OS)
    bad = []
    for val, fa in rows:
        rel = pos_relations('EO', fa)
        if val is None:
            bad.append('result not determined by the tracked conditions')
        elif val:
            if fa.get('nonempty:emit_q') is not True:
                bad.append('ready with a possibly empty emit_q')
            if counter_gt(fa, OS, 0) is not True:
                bad.append('ready although out_slots may be 0 (do_emit takes one unconditionally)')
            if T is not None and counter_gt(fa, OS, T) is not True:
                if fa.get('nonempty:order_q') is not True or (rel - {'LT', 'EQ'}):
                    bad.append('a reserved output slot (out_slots <= %d) is granted to a block that may be ahead of the '
                               'order head (possible relations %s)' % (T, sorted(rel)))
        else:
            # a `false` row must not be compatible with a state in which the block at the head of emit_q is at or
            # behind the order head while a slot is free
            if fa.get('nonempty:emit_q') is not False and counter_gt(fa, OS, 0) is not False and \
                    fa.get('nonempty:order_q') is not False and (rel & {'LT', 'EQ'}):
                bad.append('refuses a reserved slot to a block at or behind the order head (relations %s): a passed-over '
                           'candidate at the head of emit_q would block the writer\'s next block for ever' % sorted(rel))
    ctx.ob('C11.predicate', 'can_emit(): N1, reserve threshold >= 1, reserve only for blocks not ahead of the order head, '
           'and always for blocks at or behind it', f.loc(), T is not None and T >= 1 and not bad,
           '; '.join(sorted(set(bad))) or 'threshold %s, %d decision paths' % (T, len(rows)), evals=len(rows))
    # ---- can_transmit
    f, rows = predicate_table(prog, 'compress', 'can_transmit', [cf, nonempty_q('compress', 'trans_q')]
                              + pos_fact_matchers('TO', is_trans_top, is_order_c))
    ctx.floor('C11 can_transmit decision paths', len(rows), 2)
    T = thr(rows, OS)
    bad = []
    for val, fa in rows:
        rel = pos_relations('TO', fa)
        if val is None:
            bad.append('result not determined by the tracked conditions')
        elif val:
            if fa.get('nonempty:trans_q') is not True:
                bad.append('ready with a possibly empty trans_q')
            if counter_gt(fa, OS, 0) is not True:
                bad.append('ready although out_slots may be 0')
            if T is not None and counter_gt(fa, OS, T) is not True and rel != {'EQ'}:
                bad.append('a reserved output slot is granted to a block that may not be the next in order (%s)' % sorted(rel))
        else:
            if fa.get('nonempty:trans_q') is not False and counter_gt(fa, OS, 0) is not False and 'EQ' in rel:
                bad.append('refuses the reserved slot to the block that is next in order')
    ctx.ob('C11.predicate', 'can_transmit(): N1, reserve threshold >= 1, reserve exactly for the block next in order',
           f.loc(), T is not None and T >= 1 and not bad, '; '.join(sorted(set(bad))) or 'threshold %s, %d paths' % (T, len(rows)),
           evals=len(rows))
    # ---- can_scan
    f, rows = predicate_table(prog, 'expand', 'can_scan', [cf, nonempty_q('expand', 'scan_q'),
                                                           flag_fact('parse_token', 'G:expand:parse_token'),
                                                           flag_fact('ultra', 'G:ultra')])
    T = thr(rows, WU)
    bad = []
    for val, fa in rows:
        if val is not False:
            if counter_gt(fa, WU, 0) is not True:
                bad.append('ready although work_units may be 0')
            if fa.get('nonempty:scan_q') is not True:
                bad.append('ready with a possibly empty scan_q')
            if T is not None and counter_gt(fa, WU, T) is not True and fa.get('parse_token') is not False:
                bad.append('the last work unit is granted to the scanner although the parser may want it')
    ctx.ob('C11.predicate', 'can_scan(): N1, the last work unit goes to the scanner only while the parser cannot run',
           f.loc(), T is not None and T >= 1 and bool(rows) and not bad, '; '.join(sorted(set(bad))) or
           'threshold %s, %d paths' % (T, len(rows)), evals=len(rows))
    # ---- simple N1 predicates
    for unit, name, need_q, need_c in (('compress', 'can_collect', 'coll_q', WU), ('expand', 'can_parse', None, WU),
                                       ('expand', 'can_retrieve', 'retr_q', None)):
        facts = [cf]
        if need_q:
            facts.append(nonempty_q(unit, need_q))
        f, rows = predicate_table(prog, unit, name, facts)
        bad = []
        for val, fa in rows:
            if val is not False:       # (None: decided by a callee such as can_attach() -- possibly true)
                if need_q and fa.get('nonempty:' + need_q) is not True:
                    bad.append('ready with a possibly empty %s' % need_q)
                if need_c and counter_gt(fa, need_c, 0) is not True:
                    bad.append('ready although %s may be 0' % need_c.split(':')[-1])
        ctx.ob('C11.predicate', '%s(): true only when its task can take what it takes unconditionally' % name, f.loc(),
               bool(rows) and any(v is not False for v, _ in rows) and not bad, '; '.join(sorted(set(bad))) or '%d paths' % len(rows),
               evals=len(rows))
    # ---- can_collect_seq: N1 + N3
    f, rows = predicate_table(prog, 'compress', 'can_collect_seq', [
        cf, nonempty_q('compress', 'coll_q'), flag_fact('ultra', 'G:ultra'), flag_fact('token', 'G:compress:collect_token'),
        flag_fact('eof', 'G:eof'), nonnull_fact('unfinished', 'G:compress:unfinished_work')])
    bad = []
    for val, fa in rows:
        unf = fa.get('unfinished')
        if val:
            if fa.get('token') is not True:
                bad.append('ready without the collect token')
            if unf is not True and counter_gt(fa, WU, 0) is not True:
                bad.append('ready to start a new block although work_units may be 0')
            if fa.get('nonempty:coll_q') is not True and not (fa.get('eof') is True and unf is True):
                bad.append('ready with nothing to collect and nothing to flush')
        else:
            if unf is not False and fa.get('ultra') is not False and fa.get('token') is not False and \
                    (fa.get('nonempty:coll_q') is not False or fa.get('eof') is not False):
                bad.append('refuses to continue an unfinished block (which already holds its work unit) because '
                           'work_units is 0: with one worker the block is never finished')
    ctx.ob('C11.predicate', 'can_collect_seq(): N1, and an unfinished block can always be continued/flushed without a '
           'second work unit (no hold-and-wait)', f.loc(), bool(rows) and not bad, '; '.join(sorted(set(bad))) or
           '%d paths' % len(rows), evals=len(rows))
    # ---- can_terminate (both modes): all tokens returned
    for unit in ('compress', 'expand'):
        f, rows = predicate_table(prog, unit, 'can_terminate', [
            flag_fact('eof', 'G:eof'), eq_fact('wu_all', 'G:work_units', 'G:num_worker'),
            eq_fact('os_all', 'G:out_slots', 'G:total_out_slots')])
        bad = []
        for val, fa in rows:
            if val and not (fa.get('eof') is True and fa.get('wu_all') is True and fa.get('os_all') is True):
                bad.append('terminates with eof=%s, all work units back=%s, all output slots back=%s' % (
                    fa.get('eof'), fa.get('wu_all'), fa.get('os_all')))
        ctx.ob('C11.predicate', '%s can_terminate(): true only at end of input with every work unit and output slot '
               'returned' % unit, f.loc(), bool(rows) and any(v for v, _ in rows) and not bad, '; '.join(sorted(set(bad))),
               evals=len(rows))


# ------------------------------------------------------------------ ring arithmetic of the deques
def ring_rule(ctx, prog, pfx='C11'):
    """deque(T) objects are rings addressed by `head` modulo `modulus`: every new value of `head` stays below
    `modulus` and is the old one moved by exactly one position (the same direction at a site), and every index into
    `root` computed from head/size stays below `modulus` -- tabulated from the IR (32-bit arithmetic as compiled,
    the wrap-around trick of min() included) for all heads of several moduli.  A head that leaves the ring makes
    the order queue lose or duplicate an entry: the writer stalls or blocks are dropped."""
    from frag import Frag, Unknown, Ptr as FPtr
    from prov import Prov, addr_key
    MODS = (1, 2, 3, 5, 17, 34)
    sites = idx_sites = 0
    for f in prog.all_funcs():
        if f.module.unit not in ('expand', 'compress', 'process'):
            continue
        P = Prov(prog, f)
        loads = {}
        for i in f.insns():
            if i.op == 'load':
                k = str(addr_key(P.addr(i.ops[0])))
                if k.startswith('G:') and k.rsplit('.', 1)[-1] in ('head', 'size', 'modulus'):
                    loads[id(i)] = (i, k)
        for st in f.insns():
            target = None
            if st.op == 'store':
                k = str(addr_key(P.addr(st.ops[1])))
                if k.startswith('G:') and k.endswith('.head'):
                    target = ('head', k[:-5], st.ops[0])
            elif st.op == 'getelementptr' and len(st.ops) == 2:
                be = P.expr(st.ops[0])
                if be[0] == 'load':
                    bk = str(addr_key(be[1]))
                    if bk.startswith('G:') and bk.endswith('.root'):
                        target = ('index', bk[:-5], st.ops[1])
            if target is None:
                continue
            kind, q, valop = target
            lv = P.leaves(P.expr(valop))
            if not any(x[0] == 'load' and str(x[1]) == q + '.head' for x in lv):
                continue            # initialisation, or an index that does not involve the ring position
            # the earliest load of a field of q in this block chain that the value depends on
            qloads = [i for i, k in loads.values() if k.startswith(q + '.') and i.block is st.block and i.idx < st.idx]
            starts = [i for i in qloads]
            pre = st.block
            # the min() trick branches: walk back through single-predecessor blocks
            chain = [st.block]
            while not starts and len(chain[-1].preds) >= 1 and len(chain) < 8:
                ps = chain[-1].preds
                doms = cfg.dominators(f)
                cands = [p for p in ps if p in doms[st.block.name]]
                if not cands:
                    # join of the two arms of min(): continue from their common dominator
                    common = set.intersection(*[doms[p] for p in ps]) if ps else set()
                    common = [b for b in common if b != chain[-1].name]
                    if not common:
                        break
                    # the closest common dominator
                    best = max(common, key=lambda b: len(doms[b]))
                    chain.append(f.blocks[best])
                else:
                    chain.append(f.blocks[cands[0]])
                more = [i for i, k in loads.values() if k.startswith(q + '.') and i.block is chain[-1]]
                if more:
                    starts = more
                    pre = chain[-1]
                    break
                if starts:
                    break
            if not starts:
                continue
            first = min(starts, key=lambda i: i.idx)
            bad = []
            evald = 0
            skipped = False
            for m in MODS:
                direction = None
                for h in range(m):
                    for s in ((0,) if kind == 'head' else tuple(sorted({0, 1, m // 2, max(m - 1, 0), m}))):
                        def oracle(key, ins, h=h, m=m, s=s):
                            root, path = key
                            if root[0] == 'G' and root[1] == q.split(':')[-1] and len(path) == 1:
                                if path[0] == 'head':
                                    return h
                                if path[0] == 'modulus':
                                    return m
                                if path[0] == 'size':
                                    return s
                                if path[0] == 'root':
                                    return FPtr(('ring', q))
                            if root[0] == 'A':
                                return 0        # contents of a local being copied into the ring: irrelevant here
                            raise Unknown('load of %r' % (key,))
                        fr = Frag(prog, f, oracle=oracle, max_steps=400)
                        try:
                            fr.run(first.block.name, first.idx, stop=lambda ins, _fr: ins is st)
                            r = fr.val(valop)
                        except Unknown as e:
                            skipped = True
                            if os.environ.get('VERIF_DEBUG_RING'):
                                print('ring: skipped', f.name, f.loc(st), kind, e)
                            break
                        if isinstance(r, FPtr):
                            skipped = True
                            break
                        ns = fr.mem.get((('G', q.split(':')[-1]), ('size',)))
                        if isinstance(ns, int) and not (0 <= (ns & 0xFFFFFFFF) <= m):
                            continue        # outside the macro's precondition (push on a full / pop on an empty ring)
                        r &= 0xFFFFFFFF if kind == 'head' else (1 << 64) - 1
                        evald += 1
                        if not (0 <= r < m):
                            bad.append('modulus %d, head %d%s: %s becomes %d' % (m, h, '' if kind == 'head' else
                                                                              ', size %d' % s, kind, r))
                        elif kind == 'head':
                            d = (r - h) % m
                            if m > 2:
                                if d not in (1, m - 1):
                                    bad.append('modulus %d, head %d: head becomes %d (not a neighbour)' % (m, h, r))
                                elif direction is None:
                                    direction = d
                                elif d != direction:
                                    bad.append('modulus %d: head moves in both directions at one site' % m)
                    if skipped:
                        break
                if skipped:
                    break
            if skipped and not bad:
                continue
            if kind == 'head':
                sites += 1
            else:
                idx_sites += 1
            ctx.ob(pfx + '.ring', ('%s(): the new head of %s stays in the ring and moves by one position'
                                   if kind == 'head' else '%s(): the index into %s.root computed from head/size stays '
                                   'below modulus') % (f.name, q[2:]), f.loc(st), not bad, '; '.join(bad[:3]) or
                   '%d (modulus, head%s) cases' % (evald, '' if kind == 'head' else ', size'), evals=max(evald, 1))
    ctx.floor(pfx + ' deque head updates tabulated', sites, 2)
    ctx.floor(pfx + ' deque index computations tabulated', idx_sites, 2)

"""C06 Every conforming bzip2 file is decompressed -- limits and tables only.

Decides that the decoder's hard limits are not stricter than the format and that its constant tables and header
automaton agree with the format wherever the reference accepts:
  * delta-code and selector-code steps agree with the reference rule on every case (shared with C05);
  * the header automaton accepts every valid header sequence: concatenated streams with any level, byte alignment
    between streams, trailing data (shared tabulation);
  * field widths read by retrieve() are the format's (1, 24, 16, 16, 3, 15, 5 bits);
  * 2..6 tables, 1..32767 selectors are accepted, surplus selectors are clamped no lower than the number a full
    block needs (18001), primary index is rejected only when >= block size, the size test uses each stream's own
    level and rejects only sizes above level*100000;
  * rand_table equals the reference table shipped with the repository's own test tools, crc_table the CRC-32/BZIP2
    table; buffers are sized for the format maxima (compile-time witnesses).
Does not decide acceptance of arbitrary valid streams (the decoding arithmetic itself)."""
import os, re
import cfg, rules, expandrules, witness
from irdb import broken, enumerators, init_ints
from prov import Prov, strip_casts, strip_ext, addr_key, path_key, render, peel_cond, cmp_norm
from props import c05, c15

LEVEL = 'other'

FIELD_WIDTHS = {'rand': 1, 'bwt_idx': 24, 'big': 16, 'small': 16, 'num_trees': 3, 'num_selectors': 15, 'code_len': 5}


def field_widths(ctx, prog):
    f = prog.func('decode', 'retrieve')
    P = Prov(prog, f)
    found = {}
    for i in f.insns():
        if i.op != 'store':
            continue
        a = P.addr(i.ops[1])
        pk = path_key(a[2])
        name = pk.strip('.').split('[')[0].split('.')[-1]
        if name not in FIELD_WIDTHS:
            continue
        v = strip_casts(peel_cond(P.expr(i.ops[0]))[0])
        if v[0] == 'bin' and v[1] == 'lshr' and strip_casts(v[3])[0] == 'const' and strip_casts(v[2])[0] in ('phi', 'load', 'bin'):
            w = 64 - strip_casts(v[3])[1]
            if 0 < w < 64:
                found.setdefault(name, set()).add(w)
    for name, w in FIELD_WIDTHS.items():
        ctx.ob('C06.field_widths', 'retrieve() reads `%s` as a %d-bit field' % (name, w), f.loc(), found.get(name) == {w},
               'found widths %s' % sorted(found.get(name, [])))


def limits(ctx, prog):
    f = prog.func('decode', 'retrieve')
    P = Prov(prog, f)
    E = enumerators(f.module)
    rs = c05.ret_sources(f)

    def guard_of_return(code):
        blks = rs.get(E[code], [])
        ctx.require(len(blks) == 1, 'retrieve(): expected one return site for %s' % code)
        return blks[0], rules.guards(f, P, blks[0])

    # primary index: rejected iff bwt_idx >= block_size
    blk, gs = guard_of_return('ERR_BWTIDX')
    ok = False
    seen = []
    for b, e, pol in gs:
        c, p2 = peel_cond(e)
        cn = cmp_norm(c)
        if cn is None:
            continue
        pred, x, y = cn
        kx = path_key(strip_casts(x)[1][2]) if strip_casts(x)[0] == 'load' else ''
        ky = path_key(strip_casts(y)[1][2]) if strip_casts(y)[0] == 'load' else ''
        if {kx, ky} == {'.bwt_idx', '.block_size'}:
            eff = pol == p2
            seen.append('%s %s %s (%s)' % (kx, pred, ky, eff))
            if kx == '.bwt_idx':
                ok = (pred == 'uge' and eff) or (pred == 'ult' and not eff)
            else:
                ok = (pred == 'ule' and eff) or (pred == 'ugt' and not eff)
    ctx.ob('C06.limits', 'the primary index is rejected exactly when it is >= the block size (so size-1 is accepted and '
           'size itself is not)', f.loc(f.blocks[blk].term), ok, '; '.join(seen))
    # number of tables 2..6, selectors >= 1
    blk, gs = guard_of_return('ERR_TREES')
    consts = set()
    for b, e, pol in gs:
        c, p2 = peel_cond(e)
        cn = cmp_norm(c)
        if cn and cn[2][0] == 'const':
            consts.add((cn[0], cn[2][1], pol == p2))
    # `a < 2 || a > 6` lowers to two branches, each an alternative guard: collect them from the predecessors instead
    preds = []
    for pb in f.blocks[blk].preds:
        t = f.blocks[pb].term
        if t.op == 'br' and len(t.extra['targets']) == 2:
            c, p2 = peel_cond(P.expr(t.ops[0]))
            cn = cmp_norm(c)
            if cn and cn[2][0] == 'const':
                on_true = t.extra['targets'][0] == blk
                preds.append((cn[0], cn[2][1], on_true == p2))
    want = {('ult', 2, True), ('ugt', 6, True)}
    alt = {('ule', 1, True), ('uge', 7, True)}
    ctx.ob('C06.limits', '2..6 coding tables are accepted (ERR_TREES only for < 2 or > 6)', f.loc(f.blocks[blk].term),
           set(preds) in (want, alt, {('ult', 2, True), ('uge', 7, True)}, {('ule', 1, True), ('ugt', 6, True)}), str(preds))
    blk, gs = guard_of_return('ERR_GROUPS')
    okg = rules.guard_holds(gs, lambda c, pol: (c[0] == 'load' and path_key(c[1][2]).endswith('.num_selectors') and not pol))
    if not okg:
        for b, e, pol in gs:
            c, p2 = peel_cond(e)
            cn = cmp_norm(c)
            if cn and cn[2] == ('const', 0) and cn[0] == 'eq' and (pol == p2):
                okg = True
    ctx.ob('C06.limits', 'any selector count 1..32767 is accepted (ERR_GROUPS only for 0)', f.loc(f.blocks[blk].term), okg, '')
    # selector clamp: num_selectors = K only when num_selectors > K, K >= ceil((MAX_BLOCK_SIZE+1)/GROUP_SIZE)
    clamp = []
    for i in f.insns():
        if i.op == 'store' and path_key(P.addr(i.ops[1])[2]).endswith('.num_selectors'):
            v = strip_casts(P.expr(i.ops[0]))
            if v[0] == 'const':
                g = rules.guards(f, P, i.block.name)
                okc = False
                for b, e, pol in g:
                    c, p2 = peel_cond(e)
                    cn = cmp_norm(c)
                    if cn and cn[2] == ('const', v[1]) and cn[0] == 'ugt' and pol == p2 and \
                            strip_casts(cn[1])[0] == 'load' and path_key(strip_casts(cn[1])[1][2]).endswith('.num_selectors'):
                        okc = True
                clamp.append((v[1], okc, i))
    need = (900000 + 1 + 49) // 50
    ctx.ob('C06.limits', 'surplus selectors are tolerated: the count is clamped to K only when it exceeds K, with K >= %d '
           '(groups a full block incl. its end-of-block symbol needs)' % need, f.loc(clamp[0][2]) if clamp else f.loc(),
           len(clamp) == 1 and clamp[0][1] and clamp[0][0] >= need, str([(k, o) for k, o, _ in clamp]))


def fast_path_reserve(ctx, prog, pfx='C06'):
    """retrieve() decodes a whole group without availability checks (NEED_FAST) when enough input is buffered.
    NEED_FAST fetches whole 32-bit words whenever fewer than 32 bits are left, so one group of GROUP_SIZE codes of
    up to MAX_CODE_LENGTH bits can fetch floor((GROUP_SIZE*MAX_CODE_LENGTH + 43)/32) = 32 words: the guard must imply
    that many whole words are available, whatever the number of bits already in the buffer."""
    import bounds
    from irdb import reg_var_names
    f = prog.func('decode', 'retrieve')
    P = Prov(prog, f)
    names = reg_var_names(f)
    from irdb import var_roles
    roles = var_roles(f, P)
    NEXT, LIMIT, W = roles.get('.data', 'next'), roles.get('.limit', 'limit'), roles.get('.live', 'w')
    dom = cfg.dominators(f)
    guards = []
    for b in f.blocks.values():
        t = b.term
        if t.op != 'br' or len(t.extra['targets']) != 2:
            continue
        e = P.expr(t.ops[0])
        lv = {names.get(x[1]) for x in P.leaves(e, expand_phi=False) if x[0] == 'phi'}
        if not ({LIMIT, NEXT} <= lv):
            continue
        c, pol = peel_cond(e)
        cn = cmp_norm(c)
        if cn and cn[0] in ('eq', 'ne') and strip_casts(cn[1])[0] == 'phi' and strip_casts(cn[2])[0] == 'phi':
            continue        # NEED(): next == limit
        guards.append((b, t, e))
    ctx.require(len(guards) == 1, 'retrieve(): expected exactly one fast-path guard over (limit, next), found %d' % len(guards))
    b, t, e = guards[0]
    # which successor is the fast path: the one whose region never suspends (no store to rs->state)
    fast = None
    for k, tg in enumerate(t.extra['targets']):
        region = cfg.reachable(f, tg, removed_blocks=[b.name]) | {tg}
        susp = any(i.op == 'store' and path_key(P.addr(i.ops[1])[2]).endswith('.state') for bn in region for i in f.blocks[bn].insns)
        if not susp:
            fast = k
    ctx.require(fast is not None, 'retrieve(): cannot tell the fast path from the slow path')
    need = (50 * 20 + 43) // 32
    leaves = [x for x in P.leaves(e, expand_phi=False) if x[0] == 'phi']
    bad = []
    n = 0
    for avail in range(0, 41):
        for w in range(0, 64):
            env = {}
            for x in leaves:
                nm = names.get(x[1])
                env[('phi', x[1])] = {NEXT: 0x1000, LIMIT: 0x1000 + 4 * avail, W: w}.get(nm, 0)
            n += 1
            try:
                v = bounds.eval_expr(e, env) & 1
            except KeyError as ex:
                broken('retrieve(): fast-path guard not evaluable: %s' % ex)
            taken_fast = (v == 1) == (fast == 0)
            if taken_fast and avail < need:
                bad.append((avail, w))
    ctx.ob(pfx + '.fast_path', 'the unchecked group decoder of retrieve() is entered only when at least %d whole input '
           'words are buffered (what one group can fetch)' % need, f.loc(t), not bad,
           '%d (words available, bits buffered) cases' % n if not bad else
           'entered with only %d words available (w=%d)' % min(bad), evals=n)


def rand_index_rule(ctx, prog, pfx='C06'):
    """derandomisation walks rand_table cyclically: index = (index + 1) mod 512, carried in a register wide enough"""
    f = prog.func('decode', 'decode')
    P = Prov(prog, f)
    sites = [i for i in f.insns() if i.op == 'load' and addr_key(P.addr(i.ops[0])).startswith('G:decode:rand_table')]
    ctx.require(len(sites) >= 1, 'decode(): rand_table is not used')
    bad = []
    for i in sites:
        ix = P.addr(i.ops[0])[2][-1][1]
        if not isinstance(ix, tuple):
            bad.append('constant index')
            continue
        e = strip_ext(ix)
        # accepted shapes: ((phi + 1) & 511) used directly, or a phi carrying exactly that value
        def is_step(x):
            x = strip_ext(x)
            return x[0] == 'bin' and x[1] == 'and' and strip_casts(x[3]) == ('const', 511) and \
                strip_ext(x[2])[0] == 'bin' and strip_ext(x[2])[1] == 'add' and strip_casts(strip_ext(x[2])[3]) == ('const', 1)
        carrier = None
        if is_step(e):
            carrier = strip_ext(strip_ext(e[2])[2])
        elif e[0] == 'phi':
            carrier = e
        if carrier is None or carrier[0] != 'phi':
            bad.append('index %s is not (i + 1) & 511 over a loop-carried i' % render(e)[:60])
            continue
        bits = carrier[2].ty[1] if carrier[2].ty and carrier[2].ty[0] == 'int' else 0
        inc = [strip_casts(x) for x, _ in P.phi_inputs(carrier)]
        narrow = [x for x, _ in P.phi_inputs(carrier) if x[0] == 'trunc' and x[1] < 9]
        steps = [x for x, _ in P.phi_inputs(carrier) if is_step(x) or (x[0] == 'trunc' and is_step(x[2]))]
        if bits < 9 or narrow:
            bad.append('the index is carried in %d bits: it wraps at %d, not at 512' % (bits, 1 << bits))
        if not steps:
            bad.append('the loop-carried index is not advanced by (i + 1) & 511')
    ctx.ob(pfx + '.rand_index', 'derandomisation steps through rand_table modulo 512 with an index of at least 9 bits',
           f.loc(sites[0]), not bad, '; '.join(bad))


def rand_table_rule(ctx, prog):
    g = prog.module('decode').globals.get('rand_table')
    ctx.require(g is not None, 'decode.c: rand_table vanished')
    vals = init_ints(g.init)
    refs = {}
    for fn, pat in (('tests/bzip2-0.1pl2.c', r'rNums\[512\]\s*=\s*\{(.*?)\};'), ('tests/minbzcat.c', r'\[512\]\s*=\s*\{(.*?)\};')):
        p = os.path.join(ctx.root, fn)
        if not os.path.exists(p):
            continue
        m = re.search(pat, open(p, errors='replace').read(), re.S)
        if m:
            nums = [int(x) for x in re.findall(r'\d+', m.group(1))]
            if len(nums) == 512:
                refs[fn] = nums
    ctx.require(refs, 'no reference copy of the randomisation table found under tests/')
    for fn, nums in refs.items():
        bad = [(i, vals[i], nums[i]) for i in range(512) if vals[i] != nums[i]]
        ctx.ob('C06.rand_table', 'rand_table[512] equals the table in %s' % fn, 'src/decode.c', len(vals) == 512 and not bad,
               'all 512 entries' if not bad else str(bad[:4]), evals=512)


def witnesses(ctx, prog):
    r = witness.check(ctx, 'decode', [
        ('MAX_SELECTORS is the largest 15-bit count', 'MAX_SELECTORS == 32767'),
        ('the selector array holds MAX_SELECTORS entries',
         'sizeof(((struct retriever_internal_state *)0)->selector) >= MAX_SELECTORS'),
        ('MAX_BLOCK_SIZE == 900000', 'MAX_BLOCK_SIZE == 900000'),
        ('MAX_CODE_LENGTH == 20 and the start table is not wider', 'MAX_CODE_LENGTH == 20 && HUFF_START_WIDTH <= MAX_CODE_LENGTH'),
        ('MAX_TREES == 6, MIN_TREES == 2', 'MAX_TREES == 6 && MIN_TREES == 2'),
        ('MAX_ALPHA_SIZE == 258', 'MAX_ALPHA_SIZE == 258 && MIN_ALPHA_SIZE == 3'),
        ('code_len/perm hold a full alphabet', 'sizeof(((struct retriever_internal_state *)0)->code_len) >= MAX_ALPHA_SIZE '
         '&& sizeof(((struct tree *)0)->perm) / sizeof(uint16_t) >= MAX_ALPHA_SIZE'),
        ('NUM_ROWS * ROW_WIDTH == 256', 'NUM_ROWS * ROW_WIDTH == 256'),
        ('the sliding list has room for the initial 256 entries', 'SLIDE_LENGTH >= 256 + ROW_WIDTH && CMAP_BASE + 256 <= SLIDE_LENGTH'),
        ('GROUP_SIZE == 50', 'GROUP_SIZE == 50'),
        ('a full group fits the fast path reservation of 32 words',
         '((GROUP_SIZE) * MAX_CODE_LENGTH + 63) / 32 <= 32 + 1'),
    ])
    for name, ok in r.items():
        ctx.ob('C06.witness', name, 'src/decode.c', ok, 'evaluated by the compiler on the repository\'s own definitions')
    f = prog.func('decode', 'decoder_init')
    P = Prov(prog, f)
    xm = [c for c in f.calls('xmalloc')]
    sizes = sorted(strip_casts(P.expr(c.ops[0]))[1] for c in xm if strip_casts(P.expr(c.ops[0]))[0] == 'const')
    ctx.ob('C06.witness', 'the inverse-BWT array is allocated for 900000 entries', f.loc(), 3600000 in sizes, str(sizes))


def run(ctx):
    prog = ctx.prog('ssa')
    ctx.explain('C06: exhaustive tabulation of delta/selector steps and of the header automaton (shared with C05), field '
                'widths and limit comparisons read from retrieve()\'s IR, table equivalence for rand_table/crc_table, '
                'compile-time witnesses on the repository\'s own constants, per-stream size test in do_reorder().')
    c05.delta_rule(ctx, prog)
    c05.selector_rule(ctx, prog)
    c05.parse_fsm_rule(ctx, prog, pfx='C06')
    field_widths(ctx, prog)
    limits(ctx, prog)
    rand_table_rule(ctx, prog)
    rand_index_rule(ctx, prog)
    fast_path_reserve(ctx, prog)
    import codecrules
    codecrules.unrle_walk(ctx, prog, 'C06', only=('runlen', 'more', 'ok', 'repeat'))
    c15.table_rule(ctx, prog, pfx='C06')
    witnesses(ctx, prog)
    expandrules.reorder_obligations(ctx, prog, 'C06', parts=('size', 'write'))
    c05.run_bound_rule(ctx, prog, pfx='C06')

"""C17 File operands follow the documented naming and safety rules -- admission cuts, suffix table,
output creation arguments, metadata transfer, removal guard (R5 + R7)."""
import cfg, conc, rules
from irdb import broken, init_ints
from prov import Prov, addr_key, strip_ext, strip_casts, render, peel_cond, cmp_norm
from rules import guards, guard_holds, failure_edge, must_reach_call, can_follow, const_arg

LEVEL = 'other'
S_IFMT, S_IFREG = 0o170000, 0o100000
OM_STDOUT, OM_DISCARD, OM_REGF = 0, 1, 2

SUFFIX_SPEC = [('.bz2', '', 1), ('.tbz2', '.tar', 1), ('.tbz', '.tar', 1), ('.tz2', '.tar', 1), ('', '.out', 0)]


def run(ctx):
    prog = ctx.prog('ssa')
    A = conc.Analysis(prog)
    ctx.explain('C17: guard cuts in input_init (regular file, link count, compressed suffix), suffix table compared with '
                'the documented map, output_init arguments (pre-unlink only with -f, O_EXCL, mode & 0600), metadata '
                'transfer in output_regf_uninit, exact guard of the input removal.')
    admission(ctx, prog, A)
    suffixes(ctx, prog, A)
    output_args(ctx, prog, A)
    metadata(ctx, prog, A)
    removal(ctx, prog, A)
    # an existing file is never removed or replaced: exclusive creation, and the output name is remembered for
    # cleanup() only once this process has created the file
    from props import c16
    c16.output_creation(ctx, prog, A)


def _outmode_key(prog):
    return prog.gkey(prog.module('main'), 'outmode')


def admission(ctx, prog, A):
    f = prog.func('main', 'input_init')
    P = A.cg.prov(f)
    op = [c for c in f.calls() if c.extra.get('callee') in ('open', 'open64')]
    ctx.require(len(op) == 1, 'input_init: expected one open')
    o = op[0]
    omk = _outmode_key(prog)
    # skip branches: the blocks that warn and return -1 without opening
    # (1) not a regular file: edge <force==0> & <outmode==REGF> & <(st_mode & S_IFMT) != S_IFREG> must not reach open
    tests = {'reg': None, 'nlink': None, 'suffix': None, 'lstat': None}
    for b in f.blocks.values():
        t = b.term
        if t.op != 'br' or len(t.extra['targets']) != 2:
            continue
        c, pol = peel_cond(P.expr(t.ops[0]))
        c = strip_casts(c)
        tt, ft = t.extra['targets'] if pol else t.extra['targets'][::-1]
        if c[0] == 'icmp':
            x, y = strip_casts(c[2]), strip_casts(c[3])
            if x[0] == 'bin' and x[1] == 'and' and strip_casts(x[3]) == ('const', S_IFMT) and y == ('const', S_IFREG) and \
                    addr_key(strip_casts(x[2])[1] if strip_casts(x[2])[0] == 'load' else ('addr', ('A', '?'), ())).endswith('st_mode'):
                # edge where the file IS regular
                tests['reg'] = (b, tt if c[1] == 'eq' else ft, ft if c[1] == 'eq' else tt)
            if x[0] == 'load' and addr_key(x[1]).endswith('st_nlink') and y == ('const', 1) and c[1] in ('ugt', 'ule'):
                tests['nlink'] = (b, ft if c[1] == 'ugt' else tt, tt if c[1] == 'ugt' else ft)   # (ok edge, skip edge)
        if c[0] == 'call' and c[1] == 'suffix_xform':
            tests['suffix'] = (b, ft, tt)       # ok edge = returned 0
    for k in ('reg', 'nlink', 'suffix'):
        ctx.require(tests[k] is not None, 'input_init: the %s test vanished' % k)
    ls = [c for c in f.calls() if c.extra.get('callee') in ('lstat', 'lstat64')]
    ctx.require(len(ls) == 1, 'input_init: expected one lstat')

    def skip_rule(name, key, extra_guards, desc):
        b, ok_edge, skip_edge = tests[key]
        # the skip edge never reaches open() and always warns
        r_ok = not cfg.reaches(f, skip_edge, o.block.name)
        w_ok = must_reach_call(f, skip_edge, rules.WARN)
        ctx.ob('C17.admit', '%s: skipped operand is never opened and a warning is issued' % desc, f.loc(b.term), r_ok and w_ok,
               'skip edge %s: reaches open: %s, always warns: %s' % (skip_edge, not r_ok, w_ok))
        # the test itself is applied on every path to open() unless an exempting option holds: removing the edges of
        # the exempting conditions and the ok edge, open must be unreachable
        exempt_edges = []
        for bb in f.blocks.values():
            t = bb.term
            if t.op == 'br' and len(t.extra['targets']) == 2:
                c, pol = peel_cond(P.expr(t.ops[0]))
                c = strip_casts(c)
                tt, ft = t.extra['targets'] if pol else t.extra['targets'][::-1]
                for (gk, want_nonzero) in extra_guards:
                    if c[0] == 'load' and c[1][1] == ('G', gk) and not c[1][2]:
                        exempt_edges.append((bb.name, tt if want_nonzero else ft))
                    cn = cmp_norm(c)
                    if gk == omk and cn and cn[0] in ('eq', 'ne') and cn[1][0] == 'load' and \
                            cn[1][1][1] == ('G', omk) and cn[2] == ('const', OM_REGF):
                        # exempt when outmode != REGF
                        exempt_edges.append((bb.name, ft if cn[0] == 'eq' else tt))
        cut = exempt_edges + [(b.name, ok_edge)]
        ok = not cfg.reaches(f, f.entry.name, o.block.name, removed_edges=cut)
        ctx.ob('C17.admit', '%s: the test guards open() on every path not exempted by %s' % (desc, name), f.loc(b.term), ok,
               'cut edges %s' % cut)
    skip_rule('-f / -c / -t', 'reg', [('force', True), (omk, None)], 'not a regular file')
    skip_rule('-f / -k / -c / -t', 'nlink', [('force', True), ('keep', True), (omk, None)], 'more than one link')
    skip_rule('-d', 'suffix', [('decompress', True)], 'compressed suffix while compressing')
    # the suffix test is *not* exempted by -f
    b, ok_edge, skip_edge = tests['suffix']
    gs = guards(f, P, b.name)
    ctx.ob('C17.admit', 'the compressed-suffix test does not depend on -f', f.loc(b.term),
           not guard_holds(gs, lambda c, pol: c[0] == 'load' and c[1][1] == ('G', 'force')), '')
    # lstat failure skips with a warning
    fe = failure_edge(f, P, ls[0], '-1')
    ctx.ob('C17.admit', 'lstat() failure skips the operand with a warning', f.loc(ls[0]), fe is not None and
           not cfg.reaches(f, fe[1], o.block.name) and must_reach_call(f, fe[1], rules.WARN), '')
    # open flags: read-only
    fl = const_arg(P, o, 1)
    ctx.ob('C17.admit', 'operands are opened read-only', f.loc(o), fl is not None and fl & 3 == 0, 'flags %s' % (oct(fl) if fl is not None else None))
    # skip => main exits 4: every warn* sets warned (checked in C18.exit); return -1 on skip edges
    # suffix_xform called with NULL second argument here (query mode)
    sx = [c for c in f.calls('suffix_xform')]
    ctx.ob('C17.admit', 'suffix query uses the operand name', f.loc(sx[0]) if sx else f.loc(),
           len(sx) == 1 and strip_casts(P.expr(sx[0].ops[1])) == ('null',), '')


def _strings(prog, m, val):
    if val[0] == 'cgep' and val[2][0] == 'glob':
        g = m.globals.get(val[2][1])
        if g is not None and g.init and g.init[0] == 'bytes':
            return bytes(g.init[1]).split(b'\0')[0].decode('latin1')
        if g is not None and g.init and g.init[0] == 'zero':
            return ''
    return None


def suffixes(ctx, prog, A):
    m = prog.module('main')
    g = prog.glob('main', 'suffix')
    ctx.require(g.init is not None and g.init[0] == 'agg', 'suffix table has no initialiser')
    rows = []
    for t, v in g.init[1]:
        flds = v[1]
        rows.append((_strings(prog, m, flds[0][1]), flds[1][1][1], _strings(prog, m, flds[2][1]), flds[3][1][1], flds[4][1][1]))
    ctx.ob('C17.suffix', 'suffix table has the documented rows in the documented order', m.src,
           [(r[0], r[2], r[4]) for r in rows] == SUFFIX_SPEC, str([(r[0], r[2], r[4]) for r in rows]), evals=len(rows))
    for r in rows:
        ctx.ob('C17.suffix', 'lengths of %r -> %r are consistent' % (r[0], r[2]), m.src,
               r[0] is not None and r[2] is not None and r[1] == len(r[0]) and r[3] == len(r[2]), str(r))
    # the catch-all row ("" -> ".out") must be last and must not be used for the compression-side test
    ctx.ob('C17.suffix', 'the catch-all row is last and not used to detect compressed operands', m.src,
           rows and rows[-1][0] == '' and rows[-1][4] == 0 and all(r[4] == 1 for r in rows[:-1]), '')
    # suffix_xform: compares the tail of the name with suffix[i].compr via strcmp, honours chk_compr
    f = prog.func('main', 'suffix_xform')
    P = A.cg.prov(f)
    sc = list(f.calls('strcmp'))
    ok = False
    for c in sc:
        a0, a1 = strip_casts(P.expr(c.ops[0])), strip_casts(P.expr(c.ops[1]))
        if a1[0] == 'load' and addr_key(a1[1]).startswith('G:main:suffix[') and addr_key(a1[1]).endswith('.compr'):
            ok = True
    ctx.ob('C17.suffix', 'suffix_xform compares the name tail with suffix[i].compr', f.loc(), ok, '')
    lv = set()
    for b in f.blocks.values():
        if b.term.op == 'br' and len(b.term.extra['targets']) == 2:
            lv |= {l[1] for l in P.leaves(P.expr(b.term.ops[0])) if l[0] == 'load'}
    ctx.ob('C17.suffix', 'suffix_xform honours chk_compr and the suffix length', f.loc(),
           any(x.endswith('.chk_compr') for x in lv) and any(x.endswith('.compr_len') for x in lv), str(sorted(lv)))
    # the tail comparison is applied to every name at least as long as the suffix (a name that *is* the suffix
    # included) and to no shorter one (len - compr_len must not wrap)
    tail = [c for c in sc if strip_casts(P.expr(c.ops[1]))[0] == 'load' and
            addr_key(strip_casts(P.expr(c.ops[1]))[1]).endswith('.compr')]
    okl = False
    seen = []
    if tail:
        for b, e, pol in guards(f, P, tail[0].block.name):
            c, p2 = peel_cond(e)
            cn = cmp_norm(c)
            if cn is None:
                continue
            pred, x, y = cn
            kx = render(strip_casts(x))
            ky = render(strip_casts(y))
            if 'compr_len' in kx or 'compr_len' in ky:
                eff = pol == p2
                seen.append('%s %s %s (%s)' % (kx[:30], pred, ky[:30], eff))
                if 'compr_len' in ky and 'strlen' in kx:
                    okl = (pred == 'uge' and eff) or (pred == 'ult' and not eff)
                elif 'compr_len' in kx and 'strlen' in ky:
                    okl = (pred == 'ule' and eff) or (pred == 'ugt' and not eff)
    ctx.ob('C17.suffix', 'the suffix test applies to every name of length >= the suffix length (strlen(name) >= '
           'compr_len), so a name consisting of the suffix alone counts as compressed', f.loc(tail[0]) if tail else f.loc(),
           okl, '; '.join(seen))
    # compression name: operand + ".bz2"
    oi = prog.func('main', 'output_init')
    Po = A.cg.prov(oi)
    sc = [c for c in oi.calls('strcpy')]
    ok = any(strip_casts(Po.expr(c.ops[1])) == ('str', '.bz2') for c in sc)
    ctx.ob('C17.suffix', 'compression appends ".bz2" to the operand name', oi.loc(), ok,
           '%s' % [render(Po.expr(c.ops[1])) for c in sc])
    sx = [c for c in oi.calls('suffix_xform')]
    gs = guards(oi, Po, sx[0].block.name) if sx else []
    ctx.ob('C17.suffix', 'decompression derives the output name through suffix_xform', oi.loc(),
           len(sx) == 1 and guard_holds(gs, lambda c, pol: pol and c[0] == 'load' and c[1][1] == ('G', 'decompress')), '')


def output_args(ctx, prog, A):
    f = prog.func('main', 'output_init')
    P = A.cg.prov(f)
    ul = list(f.calls('unlink'))
    ctx.require(len(ul) == 1, 'output_init: expected one unlink')
    gs = guards(f, P, ul[0].block.name)
    ctx.ob('C17.output', 'an existing output is removed only with -f', f.loc(ul[0]),
           guard_holds(gs, lambda c, pol: pol and c[0] == 'load' and c[1][1] == ('G', 'force')), 'guards %s' % [render(e) for _, e, _ in gs])
    op = [c for c in f.calls() if c.extra.get('callee') in ('open', 'open64')]
    ctx.require(len(op) == 1, 'output_init: expected one open')
    fl = const_arg(P, op[0], 1)
    ctx.ob('C17.output', 'without -f an existing output file is never modified: open() uses O_CREAT|O_EXCL, no O_TRUNC',
           f.loc(op[0]), fl is not None and fl & 0o100 and fl & 0o200 and not fl & 0o1000, oct(fl) if fl is not None else '?')
    md = strip_casts(P.expr(op[0].ops[2])) if len(op[0].ops) > 2 else None
    ok = md is not None and md[0] == 'bin' and md[1] == 'and' and strip_casts(md[3]) == ('const', 0o600) and \
        strip_casts(md[2])[0] == 'load' and addr_key(strip_casts(md[2])[1]).endswith('st_mode')
    ctx.ob('C17.output', 'the output is created with the input mode restricted to 0600', f.loc(op[0]), ok, render(md) if md else '')
    # the regular-file branch is taken only for outmode == REGF (switch)
    sw = [i for i in f.insns() if i.op == 'switch']
    ctx.require(len(sw) == 1, 'output_init: expected a switch on outmode')
    cases = dict(sw[0].extra['cases'])
    sv = strip_casts(P.expr(sw[0].ops[0]))
    ctx.ob('C17.output', 'files are created only in OM_REGF mode', f.loc(sw[0]), sv[0] == 'load' and sv[1][1] == ('G', _outmode_key(prog)) and
           OM_REGF in cases and not cfg.reaches(f, f.entry.name, op[0].block.name,
                                                removed_edges=[(sw[0].block.name, cases[OM_REGF])]), str(cases))
    # -c writes to fd 1, -t to fd -1
    for case, want in ((OM_STDOUT, 1), (OM_DISCARD, -1)):
        blk = cases.get(case)
        ok = False
        if blk:
            for i in f.blocks[blk].insns:
                if i.op == 'store' and addr_key(P.addr(i.ops[1])) == 'G:ospec.fd' and P.expr(i.ops[0]) == ('const', want):
                    ok = True
        ctx.ob('C17.output', 'outmode %d writes to descriptor %d' % (case, want), f.loc(sw[0]), ok, '')


def metadata(ctx, prog, A):
    f = prog.func('main', 'output_regf_uninit')
    P = A.cg.prov(f)
    cl = list(f.calls('close'))
    ch = list(f.calls('fchown'))
    cm = list(f.calls('fchmod'))
    ft = list(f.calls('futimens'))
    ctx.require(len(cl) == 1 and len(ch) == 1 and len(cm) == 1 and len(ft) == 1, 'output_regf_uninit: metadata calls changed')
    # fchmod(outfd, st_mode & 0777)
    md = strip_casts(P.expr(cm[0].ops[1]))
    ok = md[0] == 'bin' and md[1] == 'and' and strip_casts(md[3]) == ('const', 0o777) and strip_casts(md[2])[0] == 'load' and \
        addr_key(strip_casts(md[2])[1]).endswith('st_mode')
    ctx.ob('C17.meta', 'permission bits copied are st_mode & 0777', f.loc(cm[0]), ok, render(md))
    # fchmod happens whenever fchown succeeded
    fe = failure_edge(f, P, ch[0], '-1')
    ctx.require(fe is not None, 'output_regf_uninit: fchown result not tested')
    ok = cfg.must_pass(f, fe[2], [cl[0].block.name], {cm[0].block.name})
    ctx.ob('C17.meta', 'fchmod() is applied on every path on which fchown() succeeded', f.loc(cm[0]), ok,
           'every path from the fchown-success edge to close() passes fchmod()')
    # after failed fchown, no fchmod (file stays 0600 with our uid)
    ctx.ob('C17.meta', 'after a failed fchown() the mode is left at 0600', f.loc(ch[0]),
           not cfg.reaches(f, fe[1], cm[0].block.name), '')
    # fchown(uid, gid) from sbuf
    a1, a2 = strip_casts(P.expr(ch[0].ops[1])), strip_casts(P.expr(ch[0].ops[2]))
    ctx.ob('C17.meta', 'ownership is taken from the input (st_uid, st_gid)', f.loc(ch[0]),
           a1[0] == 'load' and addr_key(a1[1]).endswith('st_uid') and a2[0] == 'load' and addr_key(a2[1]).endswith('st_gid'), '')
    # futimens array: ts[0] = st_atim, ts[1] = st_mtim ; applied on every path to close
    srcs = {}
    for c in f.calls():
        if (c.extra.get('callee') or '').startswith('llvm.memcpy'):
            d, s = P.addr(c.ops[0]), P.addr(c.ops[1])
            ta = strip_casts(P.expr(ft[0].ops[1])) if ft and len(ft[0].ops) > 1 else None
            if ta is not None and ta[0] == 'addr' and ta[1][0] == 'A' and d[1] == ta[1]:      # the array handed to futimens()
                idx = d[2][0][1] if d[2] else 0
                srcs[idx] = addr_key(s)
    ctx.ob('C17.meta', 'futimens() receives {st_atim, st_mtim}', f.loc(ft[0]),
           srcs.get(0, '').endswith('st_atim') and srcs.get(1, '').endswith('st_mtim'), str(srcs))
    ctx.ob('C17.meta', 'timestamps are set on every path to close()', f.loc(ft[0]),
           cfg.must_pass(f, f.entry.name, [cl[0].block.name], {ft[0].block.name}), '')
    for c in (ch[0], cm[0], ft[0]):
        fe2 = failure_edge(f, P, c, '-1')
        ctx.ob('C17.meta', '%s failure is reported as a warning' % c.extra['callee'], f.loc(c),
               fe2 is not None and must_reach_call(f, fe2[1], rules.WARN | rules.FATAL) and
               cfg.reaches(f, fe2[1], cl[0].block.name), '')


def removal(ctx, prog, A):
    f = prog.func('main', 'main')
    P = A.cg.prov(f)
    rm = list(f.calls('input_oprnd_rm'))
    wk = list(f.calls('work'))
    ctx.require(len(rm) == 1 and len(wk) == 1, 'main(): expected one input_oprnd_rm and one work')
    omk = _outmode_key(prog)
    # guards between work() and the removal: exactly {outmode == REGF, keep == 0}
    dom = cfg.dominators(f)
    gs = [g for g in guards(f, P, rm[0].block.name) if cfg.insn_dominates(f, wk[0], g[0].term, dom)]
    desc = []
    have_mode = have_keep = False
    extra = []
    for b, e, pol in gs:
        c, p2 = peel_cond(e)
        c = strip_casts(c)
        eff = (pol == p2)
        cn = cmp_norm(c)
        if cn and cn[0] in ('eq', 'ne') and cn[1][0] == 'load' and cn[1][1][1] == ('G', omk) and cn[2] == ('const', OM_REGF):
            if eff == (cn[0] == 'eq'):
                have_mode = True
                continue
        if c[0] == 'load' and c[1][1] == ('G', 'keep') and not eff:
            have_keep = True
            continue
        extra.append(render(e))
    ctx.ob('C17.remove', 'the input is removed only when writing files and -k is absent', f.loc(rm[0]), have_mode and have_keep, '')
    ctx.ob('C17.remove', 'no other condition decides the removal of a successfully processed operand', f.loc(rm[0]), not extra,
           'additional guards after work(): %s' % extra)
    # -c / -t change outmode away from REGF (opts_outmode), so they imply keeping the input
    om = prog.func('main', 'opts_outmode')
    Po = A.cg.prov(om)
    vals = sorted(Po.expr(i.ops[0])[1] for i in om.insns() if i.op == 'store' and Po.addr(i.ops[1])[1] == ('G', omk)
                  and Po.expr(i.ops[0])[0] == 'const')
    ctx.ob('C17.remove', '-c and -t select an output mode other than OM_REGF', om.loc(), vals == [OM_STDOUT, OM_DISCARD], str(vals))

"""C14 Block-header scanner matches exactly the header pattern.

(a) proof level: mini_dfa / big_dfa equal the string-matching automaton of the 48-bit pattern,
    computed here from first principles (not by the repo's generator), all 96 + 12544 entries.
(b) scan() structure: byte order of the word loop, replay-from-saved-state on ACCEPT, 32-bit trailer,
    index closure of the automaton state.
"""
from irdb import broken, init_ints
from prov import Prov, strip_ext, strip_casts, render, addr_key
import cfg

LEVEL = 'proof'
PATTERN = 0x314159265359
NBITS = 48


def delta_spec():
    """delta[s][b] for s in 0..47: length of the longest prefix of the pattern that is a suffix of
    (pattern[:s] + b); state 48 = whole pattern seen."""
    bits = [(PATTERN >> (NBITS - 1 - i)) & 1 for i in range(NBITS)]
    d = []
    for s in range(NBITS):
        row = []
        for b in (0, 1):
            text = bits[:s] + [b]
            k = min(len(text), NBITS)
            while k > 0 and text[len(text) - k:] != bits[:k]:
                k -= 1
            row.append(k)
        d.append(row)
    return d


def run(ctx):
    prog = ctx.prog('ssa')
    m = prog.module('parse')
    ctx.explain('C14: (a) exhaustive table equivalence of mini_dfa/big_dfa with the KMP automaton of '
                '0x314159265359 computed independently; (b) structural rules on scan(): byte order, '
                'state replay on ACCEPT, 32-bit trailer consumption, index closure.')
    ctx.exhaustive = True
    for g in ('mini_dfa', 'big_dfa'):
        ctx.require(g in m.globals, 'table %s vanished from parse.c/scantab.h' % g)
    mini_g = m.globals['mini_dfa']
    big_g = m.globals['big_dfa']
    ctx.require(mini_g.const and big_g.const, 'scanner tables are no longer const')
    mini = init_ints(mini_g.init)
    big = init_ints(big_g.init)
    d = delta_spec()
    # dimensions
    ctx.ob('C14.dims', 'mini_dfa', 'src/scantab.h', mini_g.ty == ('array', 48, ('array', 2, ('int', 8))),
           'type %r' % (mini_g.ty,))
    ctx.ob('C14.dims', 'big_dfa', 'src/scantab.h', big_g.ty == ('array', 49, ('array', 256, ('int', 8))),
           'type %r' % (big_g.ty,))
    if mini_g.ty != ('array', 48, ('array', 2, ('int', 8))) or big_g.ty != ('array', 49, ('array', 256, ('int', 8))):
        return
    accept = NBITS
    # (a) mini
    bad = []
    for s in range(48):
        for b in (0, 1):
            got = mini[s * 2 + b]
            if got != d[s][b]:
                bad.append((s, b, got, d[s][b]))
    ctx.ob('C14.table.mini_dfa', 'all 96 entries', 'src/scantab.h', not bad,
           'mini_dfa[s][b] == delta(s,b)' if not bad else 'mismatch (s,b,got,want): %s' % bad[:8], evals=96)
    for (s, b, got, want) in bad[:16]:
        ctx.ob('C14.table.mini_dfa', 'mini_dfa[%d][%d]' % (s, b), 'src/scantab.h', False,
               'is %d, automaton says %d' % (got, want))
    # (a) big: delta applied to 8 bits msb first, 48 absorbing
    bad = []
    for s in range(49):
        for c in range(256):
            st = s
            for i in range(8):
                if st == accept:
                    break
                st = d[st][(c >> (7 - i)) & 1]
            got = big[s * 256 + c]
            if got != st:
                bad.append((s, c, got, st))
    ctx.ob('C14.table.big_dfa', 'all 12544 entries', 'src/scantab.h', not bad,
           'big_dfa[s][c] == delta*(s, bits of c msb first), 48 absorbing' if not bad
           else 'mismatch (s,c,got,want): %s' % bad[:8], evals=12544)
    for (s, c, got, want) in bad[:16]:
        ctx.ob('C14.table.big_dfa', 'big_dfa[%d][%d]' % (s, c), 'src/scantab.h', False,
               'is %d, automaton says %d' % (got, want))
    ctx.extra['table_obligations'] = 96 + 12544

    # ------------------------------------------------------------------ (b) scan()
    f = prog.func('parse', 'scan')
    P = Prov(prog, f)
    dom = cfg.dominators(f)

    def table_loads(tname):
        out = []
        for ins in f.insns():
            if ins.op == 'load':
                a = P.addr(ins.ops[0])
                if a[1] == ('G', prog.gkey(m, tname)):
                    out.append((ins, a))
        return out

    bigl = table_loads('big_dfa')
    minil = table_loads('mini_dfa')
    ctx.floor('C14.scan big_dfa lookups', len(bigl), 4)
    ctx.floor('C14.scan mini_dfa lookups', len(minil), 1)

    # byte order: chain of 4 lookups; row of k-th is result of (k-1)-th; column shifts 24,16,8,0 of ntohl(word)
    def col_shift(e):
        """column expr -> (shift, source expr) where column == (src >> shift) & 0xff (or >>24 of 32-bit)"""
        e = strip_ext(e)
        if e[0] == 'trunc' and e[1] == 8:
            x = strip_ext(e[2])
            if x[0] == 'bin' and x[1] == 'lshr' and x[3][0] == 'const':
                return x[3][1], x[2]
            return 0, x
        if e[0] == 'bin' and e[1] == 'lshr' and e[3][0] == 'const':
            return e[3][1], e[2]
        if e[0] == 'bin' and e[1] == 'and' and e[3] == ('const', 255):
            s, src = col_shift(e[2])
            return s, src
        return None, e

    def idx_of(a):
        steps = a[2]
        if len(steps) != 2 or steps[0][0] != 'i' or steps[1][0] != 'i':
            broken('C14: unexpected addressing of scanner table: %s' % addr_key(a))
        return steps[0][1], steps[1][1]

    by_res = {ins.res: (ins, a) for ins, a in bigl}
    chains = []
    for ins, a in bigl:
        row, col = idx_of(a)
        rowe = strip_ext(row) if isinstance(row, tuple) else ('const', row)
        prev = None
        if rowe[0] == 'load' and rowe[2].res in by_res:
            prev = rowe[2].res
        chains.append((ins, prev, col))
    # order chain
    heads = [c for c in chains if c[1] is None]
    ctx.ob('C14.scan.byteorder', 'one lookup chain per word', f.loc(heads[0][0]) if heads else 'src/parse.c',
           len(heads) == 1 and len(chains) == 4, 'heads=%d lookups=%d' % (len(heads), len(chains)))
    if len(heads) == 1 and len(chains) == 4:
        seq = [heads[0]]
        while True:
            nxt = [c for c in chains if c[1] == seq[-1][0].res]
            if not nxt:
                break
            seq.append(nxt[0])
        shifts = []
        srcs = []
        for ins, prev, col in seq:
            s, src = col_shift(col if isinstance(col, tuple) else ('const', col))
            shifts.append(s)
            srcs.append(src)
        ok = shifts == [24, 16, 8, 0]
        ctx.ob('C14.scan.byteorder', 'shift amounts 24,16,8,0 in chain order', f.loc(seq[0][0]), ok,
               'shifts %s' % shifts)
        src_ok = all(strip_ext(s)[0] == 'call' and strip_ext(s)[1] == 'ntohl' for s in srcs) and \
            len({id(strip_ext(s)[2]) for s in srcs}) == 1
        ctx.ob('C14.scan.byteorder', 'all four columns come from one ntohl(word)', f.loc(seq[0][0]), src_ok,
               'sources %s' % [render(s) for s in srcs])
        if src_ok:
            w = strip_ext(srcs[0])[2]
            arg = P.expr(w.ops[0])
            ctx.ob('C14.scan.byteorder', 'ntohl argument is the word loaded from the data pointer', f.loc(w),
                   arg[0] == 'load', render(arg))
        last = seq[-1][0]
        first_row = idx_of(seq[0][0] and P.addr(seq[0][0].ops[0]))[0]
        # ACCEPT handling in the word loop: branch on last == 48
        acc_br = None
        for b in f.blocks.values():
            t = b.term
            if t.op == 'br' and len(t.extra['targets']) == 2:
                c = strip_casts(P.expr(t.ops[0]))
                # peel (x != 0) wrappers from __builtin_expect
                while c[0] == 'icmp' and c[1] == 'ne' and c[3] == ('const', 0):
                    c = strip_casts(c[2])
                if c[0] == 'icmp' and c[1] == 'eq' and c[3] == ('const', accept):
                    x = strip_ext(c[2])
                    if x[0] == 'load' and x[2] is last:
                        acc_br = (b, t)
        ctx.ob('C14.scan.accept_word', 'word-loop result compared with ACCEPT', f.loc(last), acc_br is not None,
               'branch on (big_dfa[..][(uint8_t)word] == %d)' % accept)
        if acc_br:
            b, t = acc_br
            tgt = t.extra['targets'][0]
            # along the accept edge: state restored to the pre-word state and bs->data = current word pointer
            row0 = strip_ext(first_row) if isinstance(first_row, tuple) else None
            # find the 'again' phi: a phi that receives row0 (the loop-top state) from a block reachable from tgt
            r = cfg.reachable(f, tgt, removed_blocks=[b.name])
            restored = False
            for ins in f.insns():
                if ins.op == 'phi' and ins.block.name in r:
                    for v, bbn in ins.extra['incoming']:
                        if bbn in r or bbn == tgt:
                            e = strip_ext(P.expr(v))
                            if row0 is not None and e == row0 and ins.block.name not in cfg.loops(f).get(b.name, ()):
                                restored = True
            ctx.ob('C14.scan.accept_word', 'state restored to pre-word value before bit replay', f.loc(t), restored,
                   'phi fed with %s on the accept path' % (render(row0) if row0 else '?'))
            # store to bs->data of the *unincremented* word pointer on accept path
            wval = None
            if src_ok:
                warg = P.expr(strip_ext(srcs[0])[2].ops[0])
                if warg[0] == 'load' and warg[1][1][0] == 'V' and not warg[1][2]:
                    wval = warg[1][1][1]          # the pointer value the word was loaded through
            st_ok = False
            first_store = None
            order = [tgt] + [bn for bn in f.blocks if bn != tgt and bn in dom and tgt in dom[bn]]
            for bn in order:           # blocks dominated by the accept edge target, in layout order
                for ins in f.blocks[bn].insns:
                    if ins.op == 'store' and first_store is None:
                        a = P.addr(ins.ops[1])
                        if a[1][0] == 'V' and a[1][1][0] == 'param' and a[2] and a[2][-1][0] == 'f' \
                                and a[2][-1][3] == 'data':
                            first_store = ins
            if first_store is not None and wval is not None and P.expr(first_store.ops[0]) == wval:
                st_ok = True
            ctx.ob('C14.scan.accept_word', 'bs->data rewound to the accepting word', f.loc(t), st_ok,
                   'store of the current word pointer to bs->data on the accept path')

    # bit loop: mini_dfa[state][bit], bit = top bit of buff
    mins, mina = minil[0]
    row, col = idx_of(mina)
    ce = strip_ext(col) if isinstance(col, tuple) else None
    bit_ok = False
    if ce is not None:
        x = ce
        if x[0] == 'trunc':
            x = strip_ext(x[2])
        if x[0] == 'bin' and x[1] == 'lshr' and x[3] == ('const', 63) and x[2][0] == 'load' \
                and addr_key(x[2][1]).endswith('.buff'):
            bit_ok = True
    ctx.ob('C14.scan.bitloop', 'column is the most significant bit of the bit buffer', f.loc(mins), bit_ok,
           render(ce) if ce else str(col))
    # accept in bit loop -> return OK only with 32 more bits, which are dumped
    acc2 = None
    for b in f.blocks.values():
        t = b.term
        if t.op == 'br' and len(t.extra['targets']) == 2:
            c = strip_casts(P.expr(t.ops[0]))
            while c[0] == 'icmp' and c[1] == 'ne' and c[3] == ('const', 0):
                c = strip_casts(c[2])
            if c[0] == 'icmp' and c[1] == 'eq' and c[3] == ('const', accept):
                x = strip_ext(c[2])
                if x[0] == 'load' and x[2] is mins:
                    acc2 = (b, t)
    ctx.ob('C14.scan.accept_bit', 'bit-loop result compared with ACCEPT', f.loc(mins), acc2 is not None, '')
    if acc2:
        b, t = acc2
        tgt = t.extra['targets'][0]
        region = cfg.reachable(f, tgt, removed_blocks=[b.name])
        # returns reachable from the accept edge and their values
        rets = [bb for bb in f.blocks.values() if bb.term.op == 'ret']
        ctx.require(len(rets) == 1, 'scan(): expected a single return block')
        rb = rets[0]
        rv = P.expr(rb.term.ops[0])
        ctx.require(rv[0] == 'phi', 'scan(): return value is not a phi')
        ok_preds = [bbn for (e, bbn) in P.phi_inputs(rv) if e == ('const', 0)]
        ctx.ob('C14.scan.accept_bit', 'exactly one path returns OK', f.loc(rb.term), len(ok_preds) == 1,
               'OK-returning predecessors: %s' % ok_preds)
        for bbn in ok_preds:
            blk = f.blocks[bbn]
            inreg = bbn in region
            # the block must dump 32 bits: live -= 32 and buff <<= 32
            dumped = False
            for ins in blk.insns:
                if ins.op == 'store':
                    a = P.addr(ins.ops[1])
                    if addr_key(a).endswith('.live'):
                        v = P.expr(ins.ops[0])
                        if v[0] == 'bin' and v[1] == 'sub' and v[3] == ('const', 32):
                            dumped = True
            # guarded by bits_need(32) == OK: the block is control dependent on a compare of a phi whose inputs
            # are 0 only where live >= 32 or a word was fetched
            ctx.ob('C14.scan.accept_bit', 'OK is returned only on the ACCEPT path of the bit loop', f.loc(blk.term),
                   inreg and not cfg.reaches(f, f.entry.name, bbn, removed_edges=[(b.name, tgt)]),
                   'block %s reachable only through the accept edge' % bbn)
            ctx.ob('C14.scan.accept_bit', '32 trailer bits are consumed before returning OK', f.loc(blk.term), dumped,
                   'live -= 32 in %s' % bbn)
            # the guard: predecessor branch on (need == OK)
            guard_ok = False
            for pn in blk.preds:
                pt = f.blocks[pn].term
                if pt.op == 'br' and len(pt.extra['targets']) == 2 and pt.extra['targets'][0] == bbn:
                    c = strip_casts(P.expr(pt.ops[0]))
                    if c[0] == 'icmp' and c[1] == 'eq' and c[3] == ('const', 0) and c[2][0] == 'phi':
                        # inputs: 0 from (32 <= live) true edge, or from the fetch block; nonzero otherwise
                        ins_ = P.phi_inputs(c[2])
                        consts_ok = True
                        for e, pb in _flatten_phi(P, c[2]):
                            if e == ('const', 0):
                                # pb must be the 'enough bits' edge or the fetch block (stores live += 32)
                                pblk = f.blocks[pb]
                                fetch = any(i.op == 'store' and addr_key(P.addr(i.ops[1])).endswith('.live') and
                                            P.expr(i.ops[0])[0] == 'bin' and P.expr(i.ops[0])[1] == 'add' and
                                            P.expr(i.ops[0])[3] == ('const', 32) for i in pblk.insns)
                                enough = False
                                for ppn in pblk.preds:
                                    ppt = f.blocks[ppn].term
                                    if ppt.op == 'br' and len(ppt.extra['targets']) == 2 and ppt.extra['targets'][0] == pb:
                                        cc = strip_casts(P.expr(ppt.ops[0]))
                                        if cc[0] == 'icmp' and cc[1] in ('ule', 'uge', 'ugt', 'ult'):
                                            lits = [x for x in (cc[2], cc[3]) if x[0] == 'const']
                                            if lits and lits[0][1] == 32:
                                                enough = True
                                if not (fetch or enough):
                                    consts_ok = False
                        guard_ok = consts_ok
            ctx.ob('C14.scan.accept_bit', 'OK requires bits_need(bs,32) == OK', f.loc(blk.term), guard_ok,
                   'guarding compare is on the result of the 32-bit availability test')

    # index closure: every value flowing into the row index of either table is 0, or a table value on the
    # not-ACCEPT edge of a compare with ACCEPT; and no table value exceeds ACCEPT
    ctx.ob('C14.closure', 'mini_dfa values <= ACCEPT', 'src/scantab.h', max(mini) <= accept, 'max %d' % max(mini), evals=96)
    ctx.ob('C14.closure', 'big_dfa values <= ACCEPT', 'src/scantab.h', max(big) <= accept, 'max %d' % max(big), evals=12544)
    tbl_res = {ins.res for ins, _ in bigl} | {ins.res for ins, _ in minil}
    for ins, a in minil + bigl:
        row, col = idx_of(a)
        nrows = 48 if ins in [x for x, _ in minil] else 49
        if not isinstance(row, tuple):
            ctx.ob('C14.closure', 'row index constant', f.loc(ins), row < nrows, str(row))
            continue
        bad = []
        n = 0
        for e, via in _flow_sources(P, strip_ext(row)):
            n += 1
            e = strip_ext(e)
            if e[0] == 'const':
                if not (0 <= e[1] < nrows):
                    bad.append('const %d' % e[1])
            elif e[0] == 'load' and e[2].res in tbl_res:
                if nrows == 49:
                    continue        # big_dfa has a row for ACCEPT
                # must be guarded: find branch comparing this load with ACCEPT whose false edge dominates 'via'
                guarded = False
                for b in f.blocks.values():
                    t = b.term
                    if t.op == 'br' and len(t.extra['targets']) == 2:
                        c = strip_casts(P.expr(t.ops[0]))
                        while c[0] == 'icmp' and c[1] == 'ne' and c[3] == ('const', 0):
                            c = strip_casts(c[2])
                        if c[0] == 'icmp' and c[1] == 'eq' and c[3] == ('const', accept) and strip_ext(c[2])[0] == 'load' \
                                and strip_ext(c[2])[2] is e[2]:
                            ft = t.extra['targets'][1]
                            tt = t.extra['targets'][0]
                            # via = block from which the value enters the state phi; it must not be reachable
                            # from the branch without taking the false edge
                            if via is not None and not cfg.reaches(f, b.name, via, removed_edges=[(b.name, ft)]):
                                guarded = True
                if not guarded:
                    bad.append('unguarded table value %s' % render(e))
            else:
                bad.append('unexpected source %s' % render(e))
        ctx.ob('C14.closure', 'row index of %s lookup at line %s' % ('mini_dfa' if nrows == 48 else 'big_dfa', ins.line),
               f.loc(ins), not bad, '%d sources; %s' % (n, bad or 'all are 0 or non-ACCEPT table values'), evals=max(n, 1))

    skip_bound(ctx, prog)
    word_loop(ctx, prog)


def skip_bound(ctx, prog):
    """scan()'s skip prologue, tabulated: it never discards a whole 32-bit word more than the distance asked for
    (discarded bits <= skip + 31, and nothing at all when skip is 0), otherwise headers beyond the parser's position
    are lost to the scanner"""
    from frag import Frag, Ptr, Unknown
    f = prog.func('parse', 'scan')
    lp = cfg.loops(f)
    stop_blocks = set(lp)                      # the prologue ends at the first loop head
    bad = []
    unknown = []
    n = 0
    for live in list(range(0, 64, 1)):
        for skip in list(range(0, 140)) + [255, 256, 1000, 4096]:
            for avail in (0, 1, 2, 5, 1000):
                n += 1
                mem = {(('param', 'bs'), ('live',)): live,
                       (('param', 'bs'), ('buff',)): (0xA5A5A5A5A5A5A5A5 >> (64 - live)) << (64 - live) if live else 0,
                       (('param', 'bs'), ('data',)): Ptr(('inbuf',), (0,), 4),
                       (('param', 'bs'), ('limit',)): Ptr(('inbuf',), (avail,), 4)}
                fr = Frag(prog, f, regs={'skip': skip}, mem=mem)
                try:
                    r = fr.run(f.entry.name, stop=lambda ins, fr_: ins.block.name in stop_blocks)
                except Unknown as e:
                    unknown.append((live, skip, avail, str(e)))
                    continue
                if r[0] != 'stop':
                    bad.append((live, skip, avail, 'prologue returns'))
                    continue
                live1 = fr.mem[(('param', 'bs'), ('live',))]
                d1 = fr.mem[(('param', 'bs'), ('data',))]
                buff0 = mem[(('param', 'bs'), ('buff',))]
                buff1 = fr.mem[(('param', 'bs'), ('buff',))]
                if 0 <= live1 <= live and buff1 != (buff0 << (live - live1)) & ((1 << 64) - 1):
                    bad.append((live, skip, avail, 'discarded bits stay in the bit buffer (buff %#x with %d bits left)' % (
                        buff1, live1)))
                    continue
                words = d1.path[-1]
                disc = (live - live1) + 32 * words
                total = live + 32 * avail
                if not (0 <= words <= avail and 0 <= live1 <= live):
                    bad.append((live, skip, avail, 'position moved outside the buffer (words %d, live %d)' % (words, live1)))
                elif disc > min(total, skip + 31) or (skip == 0 and disc != 0):
                    bad.append((live, skip, avail, 'discards %d bits for skip=%d' % (disc, skip)))
    if unknown:
        broken('C14 scan() prologue could not be tabulated: %s' % (unknown[:2],))
    ctx.ob('C14.scan.skip_bound', 'the skip prologue of scan() discards at most skip+31 bits (never a whole word beyond '
           'the distance asked for) and stays inside the buffer', f.loc(), not bad,
           '%d (live, skip, words available) cases' % n if not bad else 'e.g. live=%d skip=%d words=%d: %s' % bad[0], evals=n)


def word_loop(ctx, prog):
    """the word-at-a-time loop of scan() examines every remaining word of the block: it runs while data < limit,
    and what it leaves in bs->data when it falls out is its own cursor (nothing is skipped at the end of a block)"""
    from prov import peel_cond, cmp_norm, path_key
    f = prog.func('parse', 'scan')
    P = Prov(prog, f)
    lp = cfg.loops(f)
    big = [i for i in f.insns() if i.op == 'load' and addr_key(P.addr(i.ops[0])).startswith('G:parse:big_dfa')]
    heads = [h for h, body in lp.items() if all(i.block.name in body for i in big)]
    # innermost loop containing all big_dfa lookups
    heads.sort(key=lambda h: len(lp[h]))
    if not heads:
        broken('scan(): the byte-table lookups are not inside a loop')
    h = heads[0]
    body = lp[h]
    t = f.blocks[h].term
    ok = False
    detail = ''
    cursor = None
    if t.op == 'br' and len(t.extra['targets']) == 2:
        c, pol = peel_cond(P.expr(t.ops[0]))
        cn = cmp_norm(c)
        if cn:
            pred, x, y = cn
            detail = '%s %s %s' % (render(x)[:40], pred, render(y)[:40])
            stay = t.extra['targets'][0] if pol else t.extra['targets'][1]
            x, y = strip_casts(x), strip_casts(y)

            def is_limit(e):
                return e[0] == 'load' and path_key(e[1][2]) == '.limit'
            if pred == 'ult' and x[0] == 'phi' and is_limit(y) and stay in body:
                ok, cursor = True, x
            elif pred == 'ugt' and y[0] == 'phi' and is_limit(x) and stay in body:
                ok, cursor = True, y
            elif pred == 'ne' and stay in body and ((x[0] == 'phi' and is_limit(y)) or (y[0] == 'phi' and is_limit(x))):
                ok, cursor = True, (x if x[0] == 'phi' else y)
    ctx.ob('C14.scan.word_loop', 'the word loop of scan() runs while data < limit (every remaining word of the block is '
           'examined)', f.loc(t), ok, detail)
    # after falling out of the loop: bs->data = cursor
    okc = False
    if cursor is not None:
        exit_t = [x for x in t.extra['targets'] if x not in body]
        if exit_t:
            reach = cfg.reachable(f, exit_t[0])
            for bn in reach | {exit_t[0]}:
                for i in f.blocks[bn].insns:
                    if i.op == 'store' and path_key(P.addr(i.ops[1])[2]) == '.data' and bn not in body:
                        v = strip_casts(P.expr(i.ops[0]))
                        if v == cursor:
                            okc = True
    ctx.ob('C14.scan.word_loop', 'when the word loop is exhausted, bs->data is left at the loop\'s own cursor', f.loc(),
           okc, '')


def _flatten_phi(P, e, seen=None):
    seen = seen if seen is not None else set()
    out = []
    if e[0] != 'phi' or e[1] in seen:
        return out
    seen.add(e[1])
    for x, bb in P.phi_inputs(e):
        if x[0] == 'phi':
            out.extend(_flatten_phi(P, x, seen))
        else:
            out.append((x, bb))
    return out


def _flow_sources(P, e, via=None, seen=None):
    """non-phi sources of a value with the block through which each enters the outermost phi chain"""
    seen = seen if seen is not None else set()
    if e[0] == 'phi':
        if e[1] in seen:
            return
        seen.add(e[1])
        for x, bb in P.phi_inputs(e):
            x = strip_ext(x)
            yield from _flow_sources(P, x, bb, seen)
    else:
        yield e, via

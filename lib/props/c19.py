"""C19 -cdf passes non-bzip2 data through unchanged -- structural clauses.

work(): which headers go to the decompressor (exactly BZh1..BZh9 with a full 4-byte read), when copy() is allowed,
what is written first (the 0..4 sniffed bytes, with their true length) ; copy(): slot constants, conservation of
the copy pipeline, termination test, buffer hand-over; per-run reset of the copy-mode state."""
import cfg, conc, schedlaws
from irdb import broken
from prov import Prov, addr_key, strip_ext, strip_casts, render, peel_cond, poly
from props import c11, c18

LEVEL = 'other'
MAGIC0 = 0x425A6830


def run(ctx):
    prog = ctx.prog('ssa')
    A = conc.Analysis(prog)
    ctx.explain('C19: interval of accepted stream headers and guard cut before copy() extracted from work()\'s CFG; '
                'provenance of the first write; copy-mode constants, conservation law, termination test, buffer '
                'hand-over; must-definition analysis of the copy-mode state.')
    work_rules(ctx, prog, A)
    copy_rules(ctx, prog, A)
    c18.carry_over(ctx, prog, A, modes=['process:copy.pseudo_process'], floor=5)


def _guards(f, P, target_block):
    """branch edges that every path from entry to target_block must take: [(block, cond expr, polarity)]"""
    out = []
    for b in f.blocks.values():
        t = b.term
        if t.op == 'br' and len(t.extra['targets']) == 2:
            tt, ft = t.extra['targets']
            for pol, edge_t, other in ((True, tt, ft), (False, ft, tt)):
                if edge_t == other:
                    continue
                # must take edge (b -> edge_t): removing it makes target unreachable, and b reaches target
                if cfg.reaches(f, f.entry.name, target_block) and \
                        not cfg.reaches(f, f.entry.name, target_block, removed_edges=[(b.name, edge_t)]):
                    out.append((b, P.expr(t.ops[0]), pol))
    return out


def _interval(conds, is_var):
    """conds: [(expr, polarity)] ; derive [lo, hi] for the variable selected by is_var from unsigned compares"""
    lo, hi = 0, (1 << 32) - 1
    used = 0
    for e, pol in conds:
        c, p2 = peel_cond(e)
        pol = pol if p2 else (not pol)
        c = strip_casts(c)
        if c[0] != 'icmp':
            continue
        x, y = strip_casts(c[2]), strip_casts(c[3])
        pred = c[1]
        if y[0] != 'const' and x[0] == 'const':
            x, y = y, x
            pred = {'ugt': 'ult', 'ult': 'ugt', 'uge': 'ule', 'ule': 'uge', 'eq': 'eq', 'ne': 'ne'}.get(pred, pred)
        if y[0] != 'const':
            continue
        off = 0
        if x[0] == 'bin' and x[1] in ('sub', 'add') and strip_casts(x[3])[0] == 'const' and is_var(strip_casts(x[2])):
            off = -strip_casts(x[3])[1] if x[1] == 'sub' else strip_casts(x[3])[1]
            x = strip_casts(x[2])
        if not is_var(x):
            continue
        if not pol:
            pred = {'ugt': 'ule', 'ule': 'ugt', 'uge': 'ult', 'ult': 'uge', 'eq': 'ne', 'ne': 'eq'}[pred]
        k = y[1] & 0xFFFFFFFF
        used += 1
        # (x + off) pred k, unsigned 32-bit; off<0 means x - m
        if off == 0:
            if pred == 'uge':
                lo = max(lo, k)
            elif pred == 'ugt':
                lo = max(lo, k + 1)
            elif pred == 'ule':
                hi = min(hi, k)
            elif pred == 'ult':
                hi = min(hi, k - 1)
            elif pred == 'eq':
                lo, hi = max(lo, k), min(hi, k)
        else:
            m = (-off) & 0xFFFFFFFF
            # x - m <= k  <=>  x in [m, m+k] (no wrap when m+k < 2^32)
            if pred in ('ule', 'ult'):
                kk = k if pred == 'ule' else k - 1
                lo = max(lo, m)
                hi = min(hi, m + kk)
            elif pred in ('uge', 'ugt'):
                kk = k if pred == 'uge' else k + 1
                lo = max(lo, m + kk)
    return lo, hi, used


def work_rules(ctx, prog, A):
    f = prog.func('process', 'work')
    P = A.cg.prov(f)
    sched_exp = [c for c in f.calls('schedule') if P.expr(c.ops[0])[0] == 'addr' and P.expr(c.ops[0])[1][1] == 'expansion']
    ctx.require(len(sched_exp) == 1, 'work(): expected exactly one schedule(&expansion)')
    copies = list(f.calls('copy'))
    ctx.require(len(copies) == 1, 'work(): expected exactly one copy() call')
    hdr_is = lambda x: x[0] == 'call' and x[1] == 'ntohl'
    # the sniffing read: xread(&<header local>, &<vacant local>) -- the two locals are known by this call
    xr0 = list(f.calls('xread'))
    ctx.require(len(xr0) == 1, 'work(): expected one xread')
    _a0, _a1 = P.expr(xr0[0].ops[0]), P.expr(xr0[0].ops[1])
    ctx.require(_a0[0] == 'addr' and _a0[1][0] == 'A' and _a1[0] == 'addr' and _a1[1][0] == 'A',
                'work(): xread() is not applied to two locals')
    HDR, VAC = _a0[1][1], _a1[1][1]
    g = _guards(f, P, sched_exp[0].block.name)
    lo, hi, used = _interval([(e, pol) for _, e, pol in g], hdr_is)
    ctx.ob('C19.header', 'decompressor is entered exactly for headers BZh1..BZh9', f.loc(sched_exp[0]),
           (lo, hi) == (MAGIC0 + 1, MAGIC0 + 9) and used >= 1,
           'accepted interval of ntohl(header): [0x%08X, 0x%08X] from %d comparisons' % (lo, hi, used), evals=max(1, used))
    # full 4-byte read required: guard vacant == 0
    vac_ok = False
    for b, e, pol in g:
        c, p2 = peel_cond(e)
        c = strip_casts(c)
        if c[0] == 'icmp' and c[1] == 'eq' and strip_casts(c[3]) == ('const', 0) and (pol == p2):
            x = strip_casts(c[2])
            if x[0] == 'load' and addr_key(x[1]) == 'A:' + VAC:
                vac_ok = True
        if c[0] == 'load' and addr_key(c[1]) == 'A:' + VAC and (pol != p2):
            vac_ok = True
    ctx.ob('C19.header', 'decompressor is entered only after a full 4-byte header was read (vacant == 0)',
           f.loc(sched_exp[0]), vac_ok, '')
    # the header argument of ntohl is the sniffed word; xread(&header, &vacant) with vacant = sizeof(header)
    xr = list(f.calls('xread'))
    ctx.require(len(xr) == 1, 'work(): expected one xread')
    a0, a1 = P.expr(xr[0].ops[0]), P.expr(xr[0].ops[1])
    ctx.ob('C19.header', 'sniffing read fills `header` and counts in `vacant`', f.loc(xr[0]),
           a0[0] == 'addr' and a0[1] == ('A', HDR) and a1[0] == 'addr' and a1[1] == ('A', VAC) and not a0[2] and not a1[2],
           '%s, %s' % (render(a0), render(a1)))
    vst = [i for i in f.insns() if i.op == 'store' and P.addr(i.ops[1])[1] == ('A', VAC)]
    ctx.ob('C19.header', 'vacant starts as sizeof(header) == 4', f.loc(), len(vst) == 1 and P.expr(vst[0].ops[0]) == ('const', 4),
           '%s' % [render(P.expr(i.ops[0])) for i in vst])
    # bs100k = ntohl(header) - MAGIC(0)
    st = [i for i in f.insns() if i.op == 'store' and P.addr(i.ops[1])[1] == ('G', 'bs100k')]
    ok = False
    for i in st:
        v = strip_casts(P.expr(i.ops[0]))
        if v[0] == 'bin' and v[1] == 'sub' and hdr_is(strip_casts(v[2])) and strip_casts(v[3]) == ('const', MAGIC0):
            ok = True
    ctx.ob('C19.header', 'block-size level is taken from the header digit', f.loc(), ok and len(st) == 1,
           '%s' % [render(P.expr(i.ops[0])) for i in st])
    # copy(): guard cut {force != 0, ospec.fd == 1}, and not on the schedule edge
    gc = _guards(f, P, copies[0].block.name)
    have_force = have_fd = False
    for b, e, pol in gc:
        c, p2 = peel_cond(e)
        c = strip_casts(c)
        if c[0] == 'load' and c[1][1] == ('G', 'force') and pol == p2:
            have_force = True
        if c[0] == 'icmp' and c[1] == 'eq' and strip_casts(c[3]) == ('const', 1) and pol == p2:
            x = strip_casts(c[2])
            if x[0] == 'load' and addr_key(x[1]) == 'G:ospec.fd':
                have_fd = True
    ctx.ob('C19.guard', 'copy() only with -f', f.loc(copies[0]), have_force, 'guards: %s' % [render(e) for _, e, _ in gc])
    ctx.ob('C19.guard', 'copy() only when writing to standard output', f.loc(copies[0]), have_fd, '')
    ctx.ob('C19.guard', 'copy() and the decompressor are mutually exclusive', f.loc(copies[0]),
           not cfg.reaches(f, sched_exp[0].block.name, copies[0].block.name) and
           not cfg.reaches(f, copies[0].block.name, sched_exp[0].block.name), '')
    # everything else fails: from the magic-false region, the only non-failing continuation is copy()
    rets = [b.name for b in f.blocks.values() if b.term.op == 'ret']
    decomp_edge = None
    for b in f.blocks.values():
        t = b.term
        if t.op == 'br' and len(t.extra['targets']) == 2:
            c, p2 = peel_cond(P.expr(t.ops[0]))
            c = strip_casts(c)
            if c[0] == 'load' and c[1][1] == ('G', 'decompress'):
                decomp_edge = (b.name, t.extra['targets'][0 if p2 else 1])
    ctx.require(decomp_edge is not None, 'work(): branch on `decompress` vanished')
    r = cfg.reachable(f, decomp_edge[1], removed_blocks=[sched_exp[0].block.name, copies[0].block.name])
    ctx.ob('C19.guard', 'in decompression mode work() returns only through the decompressor or copy(); everything else fails',
           f.loc(), not any(x in r for x in rets), 'with both calls removed no return is reachable on the -d path')
    # first write: xwrite(&header, sizeof(header) - vacant) dominates copy()
    dom = cfg.dominators(f)
    xw = [c for c in f.calls('xwrite') if cfg.insn_dominates(f, c, copies[0], dom)]
    ok = False
    detail = ''
    for c in xw:
        b0 = P.expr(c.ops[0])
        sz = strip_casts(P.expr(c.ops[1]))
        detail = '%s, %s' % (render(b0), render(sz))
        if b0[0] == 'addr' and b0[1] == ('A', HDR) and sz[0] == 'bin' and sz[1] == 'sub' and \
                strip_casts(sz[2]) == ('const', 4) and strip_casts(sz[3])[0] == 'load' and \
                addr_key(strip_casts(sz[3])[1]) == 'A:' + VAC:
            ok = True
    ctx.ob('C19.firstwrite', 'the sniffed bytes are written first, with length sizeof(header) - vacant', f.loc(copies[0]),
           ok, detail)


def copy_rules(ctx, prog, A):
    mode = 'process:copy.pseudo_process'
    e = A.engine
    ctx.require(mode in e.modes, 'copy pseudo process vanished')
    ml = schedlaws.ModeLaws(prog, A, mode)
    ml.check(ctx, 'R3.copy')
    for ck, f, ins in ml.unknown_effects():
        broken('allocation/release class %s at %s belongs to no conservation law of copy mode' % (ck, f.loc(ins)))
    cf = prog.func('process', 'copy')
    P = A.cg.prov(cf)
    consts = {}
    for ins in cf.insns():
        if ins.op == 'store':
            a = P.addr(ins.ops[1])
            v = P.expr(ins.ops[0])
            if a[1][0] == 'G' and not a[2] and v[0] == 'const':
                consts[a[1][1]] = v[1]
    ctx.ob('C19.copy', 'out_slots == total_out_slots at start (termination test can become true)', cf.loc(),
           consts.get('out_slots') is not None and consts.get('out_slots') == consts.get('total_out_slots'), str(consts))
    ctx.ob('C19.copy', 'in_slots <= out_slots (output_q capacity) and both positive', cf.loc(),
           0 < consts.get('in_slots', 0) <= consts.get('out_slots', 0), str(consts))
    ctx.ob('C19.copy', 'in_granul is a positive constant', cf.loc(), consts.get('in_granul', 0) > 0, str(consts))
    # order in copy(): init_io, halt, uninit_io
    calls = [c.extra.get('callee') for c in cf.calls()]
    seq = [c for c in calls if c in ('init_io', 'halt', 'uninit_io')]
    ctx.ob('C19.copy', 'copy() runs init_io(); halt(); uninit_io()', cf.loc(), seq == ['init_io', 'halt', 'uninit_io'], str(seq))
    # termination: copy_terminate raises SIGUSR2 exactly under eof && out_slots == total_out_slots
    ct = ml.callbacks.get('finished')
    ctx.require(ct is not None, 'copy mode has no termination predicate')
    Pt = A.cg.prov(ct)
    xr = [c for c in ct.calls('xraise')]
    ctx.require(len(xr) == 1, 'copy_terminate: expected one xraise')
    g = _guards(ct, Pt, xr[0].block.name)
    leaves = set()
    for b, ex, pol in g:
        leaves |= {l[1] for l in Pt.leaves(ex) if l[0] == 'load'}
    ctx.ob('C19.copy', 'termination is signalled exactly when eof && out_slots == total_out_slots', ct.loc(xr[0]),
           leaves == {'G:eof', 'G:out_slots', 'G:total_out_slots'} and len(g) == 2, 'guard reads %s' % sorted(leaves))
    sig = Pt.expr(xr[0].ops[0])
    ctx.ob('C19.copy', 'the signal raised is SIGUSR2', ct.loc(xr[0]), sig == ('const', 12), render(sig))
    # hand-over: on_block passes (buffer, size) unchanged to sink_write_buffer; on_written releases that buffer
    ob = ml.callbacks['on_block']
    Pb = A.cg.prov(ob)
    sw = list(ob.calls('sink_write_buffer'))
    ctx.require(len(sw) == 1, 'copy on_block: expected one sink_write_buffer')
    a = [strip_casts(Pb.expr(x)) for x in sw[0].ops]
    ctx.ob('C19.copy', 'the buffer read is written as is, with the number of bytes read', ob.loc(sw[0]),
           a[0][0] == 'param' and a[0][1] == 0 and a[1][0] == 'param' and a[1][1] == 1, '%s' % [render(x) for x in a])
    ow = ml.callbacks['on_written']
    Pw = A.cg.prov(ow)
    rel = list(ow.calls('source_release_buffer'))
    ctx.ob('C19.copy', 'the buffer is released only after it was written', ow.loc(),
           len(rel) == 1 and strip_casts(Pw.expr(rel[0].ops[0]))[0] == 'param' and
           not list(ob.calls('source_release_buffer')) and not list(ob.calls('free')), '')
    # source thread: passes avail (= bytes read) to on_block
    sp = prog.func('process', 'source_thread_proc')
    Ps = A.cg.prov(sp)
    ic = [c for c in sp.calls() if c.extra.get('callee') is None]
    ctx.require(len(ic) == 1, 'source_thread_proc: expected one callback call')
    sz = strip_casts(Ps.expr(ic[0].ops[1]))
    ok = sz[0] == 'bin' and sz[1] == 'sub'
    ctx.ob('C19.copy', 'on_block receives the number of bytes actually read (granule - vacant)', sp.loc(ic[0]), ok, render(sz))

"""C12 No data races between threads -- static lockset rule (R2) over the derived thread model.

Decides: every pair of accesses to the same mutable global location, at least one a write, that may
happen in parallel (thread classes x phases derived from the pthread_create/pthread_join structure)
shares a mutex; plus an ownership rule for heap blocks handed between tasks (an unlocked access through
a block pointer is legal only while the task exclusively owns the block: obtained from xmalloc or removed
from a queue under the lock, and not yet published or freed)."""
import cfg, conc
from irdb import broken
from prov import Prov, addr_key, strip_ext, strip_casts, render
from collections import defaultdict

LEVEL = 'other'

# token-protected locations: (location key) -> (unit, token global, task function, ready predicate)
# reason: struct parser_state `par` is only touched by the task that holds the parse token ("baton"); the
# structural protocol is re-verified on every run (rule R2.token).
TOKEN_TABLE = {
    'expand:par': ('expand', 'parse_token', 'do_parse', 'can_parse'),
}

SCHED_UNITS = ('compress', 'expand', 'process')
PUBLISHERS = {'sink_write_buffer'}          # hand the pointer to another thread
RELEASERS = {'free', 'source_release_buffer'}


def run(ctx):
    prog = ctx.prog('ssa')
    A = conc.Analysis(prog)
    run_with(ctx, prog, A)


def run_with(ctx, prog, A):
    e = A.engine
    model = A.model
    ctx.explain('C12: static Eraser-style lockset rule over every load/store of every mutable global (field-sensitive), '
                'with thread classes, their multiplicity and the create/join phases derived from the IR; token-baton '
                'exception for `par` verified structurally; ownership rule for heap blocks passed between tasks.')
    ctx.trusted.append('lib/conc.py thread model: roots are exactly the functions started through the single '
                       'pthread_create site; signals are delivered only inside sigsuspend (handled set blocked elsewhere)')

    # ---- model facts (analysis assumptions, re-derived)
    ctx.ob('R2.model', 'thread classes derived', 'src/process.c', len(model.classes) >= 4,
           'classes: %s' % {c: ('n' if d['multi'] else '1') for c, d in model.classes.items()})
    ctx.floor('thread classes', len(model.classes), 4)
    # `process` is assigned only while no other thread exists
    pw = [a for a in e.accesses if a.loc[0] == 'G' and a.loc[1] == A.process_key and a.kind == 'w']
    ctx.floor('stores to `process`', len(pw), 2)
    for a in pw:
        ctx.ob('R2.model', '`process` assigned while no other thread exists (%s)' % a.fn.name, a.site(),
               not a.alive and a.cls == 'main', 'alive=%s' % sorted(a.alive))
    # primary joins everything it creates: at primary's return nothing it created is alive
    for root, cls, mode in A.roots:
        if model.creates.get(cls) and cls != 'main':
            ex = e.memo.get((root, model.classes[cls]['fn'].qname, (frozenset(), frozenset({'main'})),
                             tuple(None for _ in model.classes[cls]['fn'].params)))
            ctx.require(ex is not None, 'no summary for creating class %s' % cls)
            ok = all(not (st[1] & model.closure[cls]) and not st[0] for st in ex) and len(ex) >= 1
            ctx.ob('R2.model', '%s joins every thread it creates before returning' % root,
                   model.classes[cls]['fn'].loc(), ok, 'exit states: %s' % [(sorted(s[0]), sorted(s[1])) for s in ex])
    # create/join loop agreement for multi-instance classes
    for cls, d in model.classes.items():
        if d['multi']:
            for f, cins in d['sites']:
                ok, detail = _loops_agree(prog, A, f, cins, cls)
                ctx.ob('R2.model', 'create loop and join loop of %s have the same bounds and array' % cls,
                       f.loc(cins), ok, detail)
    # handled signals are blocked (cli) before any thread is created: cli() dominates the call that leads to xcreate
    mainfn = prog.func('main', 'main')
    dom = cfg.dominators(mainfn)
    cli_calls = list(mainfn.calls('cli'))
    work_calls = list(mainfn.calls('work'))
    ctx.floor('cli()/work() calls in main', min(len(cli_calls), len(work_calls)), 1)
    for w in work_calls:
        ok = any(cfg.insn_dominates(mainfn, c, w, dom) for c in cli_calls)
        ctx.ob('R2.model', 'cli() dominates work() in main (sub-threads inherit the blocked mask)', mainfn.loc(w), ok, '')
    xc_users = {f.qname for f, _ in A.cg.callers_of(model.xcreate.name)}
    reach_work = A.cg.reachable_funcs([prog.func('process', 'work')] + [d['fn'] for d in model.classes.values()])
    ctx.ob('R2.model', 'threads are created only below work()', 'src/process.c', xc_users <= set(reach_work),
           'xcreate callers: %s' % sorted(xc_users))

    # ---- alias assumption: no address of a mutable global is stored to memory
    n_st = 0
    for f in prog.all_funcs():
        P = A.cg.prov(f)
        for ins in f.insns():
            if ins.op == 'store':
                n_st += 1
                v = P.expr(ins.ops[0])
                if v[0] == 'addr' and v[1][0] == 'G':
                    gk = v[1][1]
                    g = _global(prog, gk)
                    if g is not None and not g.const:
                        dst = P.addr(ins.ops[1])
                        # allowed: storing into `process`-like pointers to constant objects is excluded above (const)
                        ctx.ob('R2.alias', 'address of mutable global %s stored to memory' % gk, f.loc(ins), False,
                               'store into %s: accesses through that pointer would escape the lockset rule' % addr_key(dst))
    ctx.ob('R2.alias', 'no address of a mutable global is stored to memory', 'src/', True, '%d stores examined' % n_st,
           evals=n_st)

    # ---- the lockset rule
    byloc = defaultdict(list)
    for a in e.accesses:
        if a.loc[0] == 'G':
            g = _global(prog, a.loc[1])
            if g is not None and g.const:
                continue
            byloc[a.loc[1]].append(a)
    npairs = 0
    nloc = 0
    token_used = defaultdict(list)
    for gk, accs in sorted(byloc.items()):
        ws = [a for a in accs if a.kind == 'w']
        conc_accs = [a for a in accs if a.alive]
        if not ws:
            continue
        conflicts = []
        for w in ws:
            for a in accs:
                if a is w or not conc.paths_overlap(w.loc[2], a.loc[2]):
                    continue
                npairs += 1
                if w.locks & a.locks:
                    continue
                if conc.concurrent(w, a, model):
                    conflicts.append((w, a))
        nloc += 1
        if conflicts and gk in TOKEN_TABLE:
            token_used[gk] = conflicts
            continue
        fields = sorted({'.'.join(a.loc[2]) for a in accs})
        if not conflicts:
            locks = set.intersection(*[set(a.locks) for a in conc_accs]) if conc_accs else set()
            ctx.ob('R2.lockset', gk, _first_site(accs), True,
                   '%d accesses (%d writes, %d in concurrent phases), common lock %s' % (
                       len(accs), len(ws), len(conc_accs), sorted(locks) or '- (no conflicting concurrent pair)'),
                   evals=len(accs), nontrivial=bool(conc_accs))
        else:
            seen = set()
            for w, a in conflicts:
                k = (w.site(), a.site(), w.cls, a.cls)
                if k in seen:
                    continue
                seen.add(k)
                if len(seen) > 6:
                    break
                ctx.ob('R2.lockset', '%s%s' % (gk, ('.' + '.'.join(w.loc[2])) if w.loc[2] else ''), w.site(), False,
                       'write by %s (locks %s) at %s in %s may run in parallel with %s by %s (locks %s) at %s in %s' % (
                           w.root, sorted(w.locks), w.site(), w.fn.name, 'write' if a.kind == 'w' else 'read', a.root,
                           sorted(a.locks), a.site(), a.fn.name))
    ctx.floor('mutable global locations written somewhere', nloc, 40)
    ctx.extra['access_records'] = len(e.accesses)
    ctx.extra['pairs_examined'] = npairs
    ctx.evaluations += npairs

    # ---- token-baton exception, verified structurally
    for gk, (unit, token, task, pred) in TOKEN_TABLE.items():
        if gk not in byloc:
            broken('token-protected global %s vanished' % gk)
        _check_token(ctx, prog, A, gk, unit, token, task, pred, byloc[gk], token_used.get(gk, []))

    # ---- ownership rule for heap blocks in the scheduler units
    _ownership(ctx, prog, A)


def _first_site(accs):
    a = min(accs, key=lambda x: (x.fn.module.src, x.ins.line or 0))
    return a.site()


def _global(prog, gk):
    name = gk.split(':')[-1]
    if ':' in gk:
        unit = gk.split(':')[0]
        m = prog.modules.get(unit)
        return m.globals.get(name) if m else None
    for m in prog.modules.values():
        g = m.globals.get(name)
        if g is not None and not g.external:
            return g
    for m in prog.modules.values():
        g = m.globals.get(name)
        if g is not None:
            return None if g.external else g
    return None


def _loops_agree(prog, A, f, cins, cls):
    """creation loop `for (i = a; i < n; ++i) h[i] = xcreate()` and join loop over the same h, a, n"""
    P = A.cg.prov(f)
    lp = cfg.loops(f)

    def loop_shape(ins, idx_expr):
        inl = [(h, b) for h, b in lp.items() if ins.block.name in b]
        if not inl:
            return None
        h, body = min(inl, key=lambda x: len(x[1]))
        hb = f.blocks[h]
        t = hb.term
        if t.op != 'br' or len(t.extra['targets']) != 2:
            return None
        c = strip_casts(P.expr(t.ops[0]))
        if c[0] != 'icmp':
            return None
        iv = strip_ext(c[2])
        if iv[0] != 'phi':
            return None
        init = [x for x, bb in P.phi_inputs(iv) if bb not in body]
        step = [x for x, bb in P.phi_inputs(iv) if bb in body]
        return (c[1], render(c[3]), [render(x) for x in init],
                [render(x).replace('phi:' + iv[1], 'IV') for x in step], render(idx_expr).replace('phi:' + iv[1], 'IV'))

    # creation: store of result
    cshape = None
    for s in f.insns():
        if s.op == 'store' and s.ops[0] == ('reg', cins.res):
            a = P.addr(s.ops[1])
            cshape = loop_shape(cins, a)
    jshapes = []
    for j in f.calls('pthread_join'):
        if A.model.class_of_handle_expr(f, j) == cls:
            e = strip_ext(P.expr(j.ops[0]))
            jshapes.append(loop_shape(j, e[1]))
    if cshape is None or not jshapes:
        return False, 'create shape %s join shapes %s' % (cshape, jshapes)
    ok = all(js is not None and js[:4] == cshape[:4] and js[4] == cshape[4] for js in jshapes)
    return ok, 'create loop %s; join loop(s) %s' % (cshape, jshapes)


def _check_token(ctx, prog, A, gk, unit, token, task, pred, accs, conflicts):
    e = A.engine
    tk = '%s:%s' % (unit, token)
    taskf = prog.func(unit, task)
    predf = prog.func(unit, pred)
    P = A.cg.prov(taskf)
    dom = cfg.dominators(taskf)
    # (1) every concurrent-phase access to the location is made from code called by `task` (or task itself)
    reach = A.cg.reachable_funcs([taskf])
    conc_accs = [a for a in accs if a.alive - {'main'}]
    outside = [a for a in conc_accs if a.fn.qname not in reach]
    ctx.ob('R2.token', '%s: concurrent-phase accesses only below %s' % (gk, task), taskf.loc(), not outside,
           '%d accesses; outside: %s' % (len(conc_accs), [(a.fn.name, a.site()) for a in outside[:4]]), evals=len(conc_accs))
    # (2) in task: the token is cleared with the scheduler lock still held, before any call that touches the location
    clears = []
    sets = []
    for ins in taskf.insns():
        if ins.op == 'store':
            a = P.addr(ins.ops[1])
            if a[1] == ('G', tk):
                v = P.expr(ins.ops[0])
                (clears if v == ('const', 0) else sets).append(ins)
    ctx.floor('stores clearing %s in %s' % (token, task), len(clears), 1)
    users = []      # call sites / instructions in task that access the location (directly or in callees)
    for ins in taskf.insns():
        if ins.op == 'call':
            tg = A.cg.targets(taskf, ins)
            if any(a.fn.qname in A.cg.reachable_funcs(tg) for a in conc_accs if tg):
                # does this call pass the location?
                if any(x[0] == 'addr' and x[1] == ('G', gk) for x in (P.expr(o) for o in ins.ops)):
                    users.append(ins)
        elif ins.op in ('load', 'store'):
            a = P.addr(ins.ops[0] if ins.op == 'load' else ins.ops[1])
            if a[1] == ('G', gk):
                users.append(ins)
    ctx.floor('uses of %s in %s' % (gk, task), len(users), 1)
    for u in users:
        ok1 = any(cfg.insn_dominates(taskf, c, u, dom) for c in clears)
        # no store setting the token can reach u
        ok2 = True
        for s in sets:
            if s.block is u.block and s.idx < u.idx:
                ok2 = False
            elif cfg.reaches(taskf, s.block.name, u.block.name) and s.block is not u.block:
                ok2 = False
        ctx.ob('R2.token', '%s used at line %s only while %s is held by this task' % (gk, u.line, token), taskf.loc(u),
               ok1 and ok2, 'token cleared before (dominating): %s; no token release can reach the use: %s' % (ok1, ok2))
    # the clear happens before the first release of the scheduler lock: no lock-releasing call dominates... check
    # every path entry -> clear has no call that may unlock sched_mutex
    sched = next(iter(m for m in e.mutexes if m.endswith('sched_mutex')), None)
    ctx.require(sched is not None, 'sched_mutex vanished')
    for c in clears:
        bad = None
        for ins in taskf.insns():
            if ins.op == 'call' and cfg.insn_dominates(taskf, ins, c, dom):
                for t in A.cg.targets(taskf, ins):
                    for (root, fq, locks), exits in e.summaries.items():
                        if fq == t.qname and sched in locks and any(sched not in x for x in exits):
                            bad = ins
        ctx.ob('R2.token', '%s cleared before the scheduler lock is first released in %s' % (token, task),
               taskf.loc(c), bad is None, 'call %s releases the lock first' % (bad.extra.get('callee') if bad else None))
    # (3) the ready predicate requires the token: `pred` returns true only if load(token) != 0
    Pp = A.cg.prov(predf)
    ok = _returns_true_only_if(predf, Pp, lambda ex: ex[0] == 'load' and ex[1][1] == ('G', tk))
    ctx.ob('R2.token', '%s() is true only when %s is set' % (pred, token), predf.loc(), ok, '')
    # (4) token and task are what the task table says
    ctx.ob('R2.token', '%d conflicting pairs on %s excused by the baton protocol' % (len(conflicts), gk), taskf.loc(),
           True, 'pairs: %d' % len(conflicts), nontrivial=bool(conflicts), evals=max(1, len(conflicts)))


def _returns_true_only_if(fn, P, leaf_pred):
    """every path on which fn returns a non-zero value passes a branch that tested a value satisfying leaf_pred
    as true (non-zero).  Implemented as a cut: remove the true-edges of such tests; then no 'true' return
    source may be reachable."""
    true_edges = []
    for b in fn.blocks.values():
        t = b.term
        if t.op == 'br' and len(t.extra['targets']) == 2:
            c = strip_casts(P.expr(t.ops[0]))
            pol = True
            while c[0] == 'icmp' and c[3] == ('const', 0) and c[1] in ('ne', 'eq'):
                if c[1] == 'eq':
                    pol = not pol
                c = strip_casts(c[2])
            if leaf_pred(c):
                true_edges.append((b.name, t.extra['targets'][0 if pol else 1]))
    if not true_edges:
        return False
    # sources of a true return value: phi inputs of the returned value that are not constant 0
    rets = [b for b in fn.blocks.values() if b.term.op == 'ret']
    r = cfg.reachable(fn, removed_edges=true_edges)
    for rb in rets:
        v = strip_casts(P.expr(rb.term.ops[0]))
        srcs = []
        if v[0] == 'phi':
            stack = [(v, None)]
            seen = set()
            while stack:
                x, via = stack.pop()
                if x[0] == 'phi':
                    if x[1] in seen:
                        continue
                    seen.add(x[1])
                    for y, bb in P.phi_inputs(x):
                        stack.append((strip_casts(y), bb))
                else:
                    srcs.append((x, via))
        else:
            srcs = [(v, rb.name)]
        for x, via in srcs:
            if x == ('const', 0):
                continue
            if via in r:
                return False
    return True


# --------------------------------------------------------------------------
# ownership of heap blocks
# --------------------------------------------------------------------------

def _ownership(ctx, prog, A):
    e = A.engine
    sched = next(iter(m for m in e.mutexes if m.endswith('sched_mutex')))
    # candidate accesses: heap struct field accesses in scheduler units by sub-threads, without the scheduler lock,
    # in a concurrent phase
    cand = {}
    written_structs = {a.heap_struct for a in e.accesses if a.loc[0] == 'H' and a.kind == 'w'}
    main_heap = [a for a in e.accesses if a.loc[0] == 'H' and a.cls in ('main', 'handler') and a.alive
                 and a.fn.module.unit in SCHED_UNITS and a.heap_struct in written_structs]
    ctx.ob('R2.ownership', 'the main thread touches no heap block while other threads exist', 'src/process.c',
           not main_heap, '%s' % [(a.fn.name, a.site()) for a in main_heap[:4]])
    for a in e.accesses:
        if a.loc[0] != 'H' or a.fn.module.unit not in SCHED_UNITS:
            continue
        if not (a.alive - {'main'}) or a.cls in ('main', 'handler'):
            continue
        if sched in a.locks:
            continue
        if a.kind == 'r' and a.heap_struct not in written_structs:
            continue        # struct type never written through a pointer anywhere: immutable tables
        cand.setdefault((a.fn.qname, id(a.ins), a.kind if a.ins.op == 'call' else ''), a)
    n = 0
    per_fn = defaultdict(list)
    for a in cand.values():
        per_fn[a.fn.qname].append(a)
    for fq, accs in sorted(per_fn.items()):
        f = accs[0].fn
        P = A.cg.prov(f)
        pubs = _publications(prog, A, f, P)
        for a in sorted(accs, key=lambda x: (x.ins.line or 0, x.ins.idx)):
            n += 1
            if a.ins.op == 'call':
                ptr = a.ins.ops[0] if a.kind == 'w' else a.ins.ops[1]      # memcpy(dst, src, ...)
            else:
                ptr = a.ins.ops[0] if a.ins.op == 'load' else a.ins.ops[1]
            addr = P.addr(ptr)
            base = addr[1][1] if addr[1][0] == 'V' else None
            ok, why = _owned(prog, A, f, P, base, a.ins, pubs, set())
            ctx.ob('R2.ownership', '%s: unlocked %s of %s' % (f.name, 'read' if a.kind == 'r' else 'write',
                                                              addr_key(addr)), a.site(), ok, why)
    ctx.floor('unlocked heap-block accesses in scheduler units', n, 40)


def _queue_size_key(a):
    """address of q.root[...] element -> key of q.size ; else None"""
    # a = ('addr', ('V', load(addr G q .root)), (('i', ..),))
    if a[1][0] != 'V':
        return None
    b = strip_ext(a[1][1])
    if b[0] == 'load' and b[1][1][0] == 'G' and b[1][2] and b[1][2][-1][0] == 'f' and b[1][2][-1][3] == 'root':
        return (b[1][1][1], b[1][2][:-1])
    return None


def _publications(prog, A, f, P):
    """instructions in f after which a pointer value is visible to other threads or dead:
    list of (ins, expr of the pointer, kind)"""
    out = []
    for ins in f.insns():
        if ins.op == 'store':
            v = strip_casts(P.expr(ins.ops[0]))
            if v[0] in ('call', 'load', 'phi', 'param') or (v[0] == 'addr' and v[1][0] == 'V'):
                dst = P.addr(ins.ops[1])
                if dst[1][0] != 'A':
                    out.append((ins, v, 'store to ' + addr_key(dst)))
        elif ins.op == 'call':
            name = ins.extra.get('callee')
            if name in PUBLISHERS or name in RELEASERS:
                for o in ins.ops:
                    v = strip_casts(P.expr(o))
                    out.append((ins, v, 'passed to %s' % name))
    return out


def _same_ptr(P, v, base):
    """does published value v denote (an interior pointer of) the block `base`?"""
    if v == base:
        return True
    if v[0] == 'addr' and v[1][0] == 'V' and strip_casts(v[1][1]) == base:
        return True
    if v[0] == 'phi':
        return any(_same_ptr(P, strip_casts(x), base) for x, _ in P.phi_inputs(v) if x[0] != 'phi')
    return False


def _owned(prog, A, f, P, base, use, pubs, seen):
    if base is None:
        return False, 'address is not based on a pointer value'
    base = strip_casts(base)
    if base[0] == 'addr' and base[1][0] == 'V':
        # interior pointer (oblk + 1, &rb->ds): ownership of the container
        return _owned(prog, A, f, P, base[1][1], use, pubs, seen)
    src = None
    if base[0] == 'call' and base[1] in ('xmalloc', 'malloc'):
        src = base[2]
        why = 'fresh from %s() at line %s' % (base[1], src.line)
    elif base[0] == 'load':
        qk = _queue_size_key(base[1])
        ld = base[2]
        if qk is not None:
            # removal from the queue: a store to q.size dominates the load in this function
            dom = cfg.dominators(f)
            dec = [s for s in f.insns() if s.op == 'store' and P.addr(s.ops[1])[1] == ('G', qk[0]) and
                   P.addr(s.ops[1])[2] and P.addr(s.ops[1])[2][-1][3] == 'size' and cfg.insn_dominates(f, s, ld, dom)]
            if not dec:
                return False, 'pointer read from queue %s without removing the element (peek) and used without the lock' % qk[0]
            src = ld
            why = 'removed from %s under the lock at line %s' % (qk[0], ld.line)
        elif base[1][1][0] == 'G' and not base[1][2]:
            # global pointer variable taken over: it must be overwritten before the lock is released; accept when a
            # store to the same global follows in the same block
            gk = base[1][1][1]
            st = [s for s in ld.block.insns[ld.idx + 1:] if s.op == 'store' and P.addr(s.ops[1])[1] == ('G', gk)]
            if not st:
                return False, 'pointer copied from global %s which keeps referring to the block' % gk
            src = ld
            why = 'taken over from %s (cleared at line %s)' % (gk, st[0].line)
        else:
            return False, 'pointer loaded from %s: not an ownership source' % addr_key(base[1])
    elif base[0] == 'phi':
        if base[1] in seen:
            return True, 'phi cycle'
        seen = seen | {base[1]}
        whys = []
        for x, bb in P.phi_inputs(base):
            x = strip_casts(x)
            if x[0] == 'null':
                continue
            ok, w = _owned(prog, A, f, P, x, use, pubs, seen)
            if not ok:
                return False, 'phi input from %s: %s' % (bb, w)
            whys.append(w)
        # publications of the phi value itself
        for pins, v, kind in pubs:
            if _same_ptr(P, v, base) and _between(f, base[2], pins, use):
                return False, 'block published (%s at line %s) before this unlocked access' % (kind, pins.line)
        return True, 'all phi inputs owned: ' + '; '.join(whys)
    elif base[0] == 'param':
        # every caller must pass an owned pointer: one level
        callers = [(cf, ci) for cf, ci in A.cg.callers_of(f.name) if prog.resolve(cf.module, f.name) is f]
        # also reached through callback slots (on_block/on_written): the I/O threads own the buffer they pass
        if not callers:
            return True, 'callback parameter handed over by the I/O thread'
        for cf, ci in callers:
            Pc = A.cg.prov(cf)
            arg = strip_casts(Pc.expr(ci.ops[base[1]]))
            ok, w = _owned(prog, A, cf, Pc, arg, ci, _publications(prog, A, cf, Pc), set())
            if not ok:
                return False, 'caller %s passes a pointer that is not owned: %s' % (cf.name, w)
        return True, 'owned in every caller'
    else:
        return False, 'unrecognised pointer origin %s' % render(base)
    for pins, v, kind in pubs:
        if _same_ptr(P, v, base) and _between(f, src, pins, use):
            return False, 'block published or released (%s at line %s) before this unlocked access' % (kind, pins.line)
    return True, why


def _between(f, src, mid, use):
    """can control flow go src -> mid -> use ?"""
    def after(a, b):   # can b execute after a
        if a.block is b.block and a.idx < b.idx:
            return True
        return any(cfg.reaches(f, s, b.block.name) for s in a.block.succs)
    if mid is use:
        return False
    return after(src, mid) and after(mid, use)

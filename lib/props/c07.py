"""C07 Damaged input is rejected cleanly -- error-to-exit discipline.

Every *detected* error leads to a diagnostic and exit status 1 with the partial output removed:
  * codec results travel unchanged to do_reorder()/do_parse(), where everything but OK/MORE/FINISH ends in failf();
    a stream that ends inside the zero padding, and any truncation inside a stream, is ERR_EOF;
  * work(): a first header that is not BZh1..BZh9 fails unless -f with standard output (copy mode);
  * fail*() never return, always print (except EPIPE/EFBIG) and always reach bailout(); bailout() runs cleanup()
    and _exit(1) on the main thread and raises SIGUSR1 from any other thread, which halt() turns into bailout();
  * cleanup() removes the partial output;
  * the abnormal-exit machinery (halt/bailout/cleanup/terminate) calls nothing that takes the stderr lock: a
    failing thread dies holding it (fail* never unlock), so any stdio there would hang the process.
Does not decide that every malformed stream is detected (C05/C15 decide the CRC, size and delta clauses), nor
absence of crashes or hangs in the codec (runtime)."""
import cfg, conc, rules, expandrules
from irdb import broken
from props import c05, c16, c19, c21

LEVEL = 'other'

STDIO_LOCKING = {'flockfile', 'funlockfile', 'ftrylockfile', 'fprintf', 'vfprintf', 'printf', 'vprintf', 'puts',
                 'fputs', 'fputc', 'putc', 'putchar', 'fwrite', 'fflush', 'perror', 'fclose', 'fopen', 'psignal',
                 'pthread_mutex_lock', 'pthread_cond_wait', 'malloc', 'free', 'xmalloc', 'syslog'}
OWN_LOGGING = {'info', 'infof', 'infox', 'infofx', 'warn', 'warnf', 'warnx', 'warnfx', 'fail', 'failf', 'failx',
               'failfx', 'display', 'log_generic'}


def exit_path_lock_free(ctx, prog, A):
    cg = A.cg
    for unit, name in (('signals', 'halt'), ('signals', 'bailout'), ('main', 'cleanup'), ('signals', 'terminate')):
        f = prog.func(unit, name)
        reach = cg.reachable_funcs([f])
        bad = []
        for g in reach.values():
            for i in g.calls():
                c = i.extra.get('callee')
                if c in STDIO_LOCKING or c in OWN_LOGGING:
                    bad.append('%s calls %s at %s' % (g.name, c, g.loc(i)))
        ctx.ob('C07.exit_path_lock_free', '%s() and everything it calls use no stdio/locking function (a failed thread '
               'exits holding the stderr lock; only async-signal-safe calls may follow)' % name, f.loc(), not bad,
               '; '.join(bad[:4]) or '%d functions in the closure' % len(reach), evals=len(reach))
    # the premise: fail* lock stderr and never unlock on the bail path (so messages of other threads cannot
    # interleave or follow) -- stated here so that a change of the premise is visible next to the rule
    for name in ('fail', 'failf', 'failx', 'failfx'):
        f = prog.func('main', name)
        lk = list(f.calls('flockfile'))
        ctx.ob('C07.exit_path_lock_free', '%s() takes the stderr lock before printing' % name, f.loc(), len(lk) == 1 and
               all(rules.can_follow(f, lk[0], c) and not rules.can_follow(f, c, lk[0]) for c in f.calls('log_generic')),
               '', nontrivial=False)


def run(ctx):
    prog = ctx.prog('ssa')
    A = conc.Analysis(prog)
    ctx.explain('C07: error-code chain of the decompressor tasks (path-sensitive exploration), end-of-input results of '
                'parse(), header rejection in work(), fail*/bailout/halt/cleanup rules, lock-freedom of the abnormal '
                'exit path.')
    expandrules.retrieve_obligations(ctx, prog, 'C07')
    expandrules.emit_obligations(ctx, prog, 'C07')
    expandrules.reorder_obligations(ctx, prog, 'C07', parts=('write', 'fatal', 'size', 'crc'))
    expandrules.parse_task_obligations(ctx, prog, 'C07')
    c05.parse_fsm_rule(ctx, prog, pfx='C07', crc_bits=False)
    c05.err_table_rule(ctx, prog, pfx='C07')
    c05.run_bound_rule(ctx, prog, pfx='C07')
    import codecrules
    codecrules.unrle_walk(ctx, prog, 'C07', only=('runlen', 'space', 'read'))
    c19.work_rules(ctx, prog, A)
    c21.fail_family(ctx, prog, A)
    c21.bailout_rules(ctx, prog, A)
    c16.abnormal_exits(ctx, prog, A)
    c16.signal_window(ctx, prog, A)
    exit_path_lock_free(ctx, prog, A)

"""C04 Block boundaries follow the greedy run-length packing rule.

Decided statically, for every capacity, buffer length, run length and pattern of equal bytes at once:

 (a) collect() (encode.c) refines the greedy packer: lib/rleabs.py walks its SSA form over an abstract state
     (room left, input left and the carried run length as intervals split only where the code compares; input bytes
     as symbols with an equivalence filled in only where the code compares; a ghost packer advanced by the code's own
     stores) from the state encoder_init() leaves and -- to a fixpoint -- from every state a "not full" return can
     hand to the next call.  On every path: stores are at the fill cursor and find room; the fourth copy of a run is
     stored only if its count fits too; counts equal run length - 4 and close a run only at 259 or before a different
     byte; "full" is returned only with no slot left or with one slot left after three copies when the next byte
     continues the run; "not full" only with the buffer exhausted; the bytes reported consumed are those in the
     block; the saved run state describes the run in progress.
 (b) encode() closes a run left open (rle_state >= 4) with its count byte before the block is sorted -- the same
     walk, started from every carried state, up to the first call.
 (c) compress.c feeds the packer as the property says: default mode starts a fresh encoder of bs100k*100000 bytes for
     every visit of an input chunk, advances the chunk by exactly what collect() consumed, gives the rest back to the
     queue and always finishes the block; --sequential carries the unfinished encoder (never re-initialised) across
     chunks, finishes a block only when collect() said "full" or no input is left, and otherwise saves it.
     Chunks are bs100k*100000 bytes (rule shared with C03), capacities bs100k*100000 (shared with C02).

Not decided: that the *reader* delivers full chunks (C03 covers xread's loop), and anything about sorting or coding.
"""
import cfg, rules, conc
import rleabs
from irdb import broken, AnalysisBroken
from prov import Prov, strip_casts, addr_key, path_key, render, cmp_norm, peel_cond
from props import c02, c03

LEVEL = 'proof'

INF = rleabs.INF


def _adopt(ctx, eng, pfx, what, only=None):
    """one obligation per (rule, site) of an abstract walk"""
    n = 0
    for (rule, site), (ok, bad, detail) in sorted(eng.results.items()):
        if only and rule not in only:
            continue
        n += 1
        text = rleabs.RULES.get(rule, rule)
        ctx.ob('%s.%s' % (pfx, rule), '%s: %s' % (what, text), site, bad == 0,
               detail or '%d abstract path(s)' % ok, evals=ok + bad)
    return n


def collect_rule(ctx, prog, pfx='C04', only=None):
    f = prog.func('encode', 'collect')
    eng = rleabs.Engine(prog, f)
    entries = eng.run()
    kinds = set(entries)
    n = _adopt(ctx, eng, pfx, 'collect()', only=only)
    if not any(bad for ok, bad, d in eng.results.values()):
        # anti-vacuity (only meaningful for a walk without findings: a violating path ends where it is found)
        ctx.floor('C04 collect(): carried run states reached', len(kinds & {0, 1, 2, 3, 'T'}), 5)
        ctx.floor('C04 collect(): data-store sites', len(eng.events['data']), 1)
        ctx.floor('C04 collect(): count-store sites', len(eng.events['count']), 1)
        ctx.floor('C04 collect(): "full" returns explored', eng.exits['full'], 1)
        ctx.floor('C04 collect(): "not full" returns explored', eng.exits['notfull'], 1)
        for need in ('capacity', 'fourth', 'data', 'count', 'full', 'notfull', 'consumed', 'carry', 'input'):
            if not any(r == need for r, _ in eng.results):
                raise AnalysisBroken('C04: rule %s was never evaluated in collect()' % need)
    ctx.extra['collect_walk'] = {
        'abstract_states': eng.visited, 'fixpoint_rounds': eng.rounds,
        'entry_states': {str(k): {'room': [v[0][0], 'inf' if v[0][1] == INF else v[0][1]],
                                  'run_length': list(v[1]) if v[1] else None} for k, v in entries.items()},
        'returns': dict(eng.exits), 'cut_short': eng.truncated[:3]}
    ctx.sample({'walk': 'collect()', 'entry': 'fresh encoder', 'states': eng.visited})
    ctx.exhaustive = True
    return entries


def flush_rule(ctx, prog, entries, pfx='C04'):
    f = prog.func('encode', 'encode')
    eng = rleabs.Engine(prog, f, final=True)
    # every state the carry rule of collect() admits (whether or not this collect() reaches it)
    entries = {0: ((0, INF), None), 1: ((0, INF), None), 2: ((0, INF), None), 3: ((0, INF), None),
               'T': ((1, INF), (4, 258))}
    for kind, (r0, t0) in sorted(entries.items(), key=lambda kv: str(kv[0])):
        eng.explore(eng.entry_for(kind, r0, t0))
    # a block collect() declared full: negative run state, no run of four open
    for n in (0, 1, 2, 3):
        e = eng.entry_for(n, (0, INF), None)
        e.mem[('S', 'rle_state')] = -1
        e.entry = 'block declared full (run state -1), %d copies of the last byte stored' % n
        eng.explore(e)
    if eng.truncated:
        raise AnalysisBroken('C04: walk of encode() cut short: %s' % eng.truncated[0])
    ctx.floor('C04 encode(): walks of the prologue', eng.visited, len(entries) + 4)
    if not any(r == 'flush' for r, _ in eng.results) or not any(r == 'count' for r, _ in eng.results):
        raise AnalysisBroken('C04: encode() stores no count byte for an open run on any path')
    _adopt(ctx, eng, pfx, 'encode()', only=('flush', 'count', 'capacity', 'data'))


# ---------------------------------------------------------------------------------------------- compress.c
def _static_callees(prog, f, depth=2):
    out = {}
    if depth == 0:
        return out
    for c in f.calls():
        g = prog.resolve(f.module, c.extra.get('callee'))
        if g is not None and g.module is f.module and g.internal and g.name not in out:
            out[g.name] = g
            out.update(_static_callees(prog, g, depth - 1))
    return out


def _events(prog, f, name):
    """call sites in f that reach a call of `name`: directly, or through a static helper of the same unit"""
    out = []
    for c in f.calls():
        cal = c.extra.get('callee')
        if cal == name:
            out.append((c, True))
            continue
        g = prog.resolve(f.module, cal)
        if g is not None and g.module is f.module and g.internal:
            sub = dict(_static_callees(prog, g, 1))
            sub[g.name] = g
            if any(any(True for _ in h.calls(name)) for h in sub.values()):
                out.append((c, False))
    return out


class BlockSym:
    """symbolic values of memory cells along one basic block: loads return the last value stored in the block or a
    fresh symbol; a call invalidates the cells whose address it is given"""

    def __init__(self, prog, f, P):
        self.f, self.P = f, P
        self.mem = {}
        self.vals = {}
        self.nsym = 0

    def sym(self, name):
        return rleabs.Lin(0, {name: 1})

    def val(self, v):
        if v[0] == 'int':
            return rleabs.Lin(v[1])
        if v[0] == 'reg':
            if v[1] in self.vals:
                return self.vals[v[1]]
            return self.sym('%' + v[1])
        if v[0] in ('null', 'zero'):
            return rleabs.Lin(0)
        return None

    def step(self, i):
        if i.op == 'load':
            k = addr_key(self.P.addr(i.ops[0]))
            if k not in self.mem:
                self.mem[k] = self.sym('init:' + str(k))
            self.vals[i.res] = self.mem[k]
        elif i.op == 'store':
            k = addr_key(self.P.addr(i.ops[1]))
            v = self.val(i.ops[0])
            self.mem[k] = v if v is not None else self.sym('?%d' % id(i))
        elif i.op in ('add', 'sub'):
            a, b = self.val(i.ops[0]), self.val(i.ops[1])
            if a is not None and b is not None:
                self.vals[i.res] = a.add(b, 1 if i.op == 'add' else -1)
        elif i.op == 'getelementptr' and len(i.ops) == 2 and i.extra['sty'] == ('int', 8):
            a, b = self.val(i.ops[0]), self.val(i.ops[1])
            if a is not None and b is not None:
                self.vals[i.res] = a.add(b)
        elif i.op in ('zext', 'sext', 'trunc', 'bitcast', 'ptrtoint', 'inttoptr'):
            a = self.val(i.ops[0])
            if a is not None:
                self.vals[i.res] = a


def advance_rule(ctx, prog, f, P):
    """the chunk is advanced by exactly what collect() consumed: next' = next + (left before - left after), and the
    packer was given (next, &left)"""
    calls = list(f.calls('collect'))
    ctx.require(len(calls) == 1, 'C04: %s calls collect() %d times' % (f.name, len(calls)))
    c = calls[0]
    b = c.block
    bs = BlockSym(prog, f, P)
    left_key = next_key = None
    next0 = left0 = left1 = None
    for i in b.insns:
        if i is c:
            ap = strip_casts(P.expr(c.ops[2]))
            if ap[0] != 'addr':
                broken('C04: third argument of collect() in %s is not the address of a cell' % f.name)
            left_key = addr_key(ap)
            left0 = bs.mem.get(left_key, bs.sym('init:' + str(left_key)))
            nx = strip_casts(P.expr(c.ops[1]))
            if nx[0] != 'load':
                broken('C04: second argument of collect() in %s is not loaded from a cell' % f.name)
            next_key = addr_key(nx[1])
            next0 = bs.val(c.ops[1])
            left1 = bs.sym('left-after-collect')
            bs.mem[left_key] = left1
            continue
        if i.op == 'call' and i.extra.get('callee') and not i.extra['callee'].startswith('llvm.'):
            if left_key is not None:
                # another call after collect(): anything whose address escapes may change -- none of ours does
                pass
        bs.step(i)
    ctx.require(next_key is not None, 'C04: collect() call not in its block?')
    got = bs.mem.get(next_key)
    want = next0.add(left0).add(left1, -1) if next0 is not None else None
    ok = got is not None and want is not None and got.key() == want.key()
    ctx.ob('C04.feed', '%s(): the input chunk is advanced by exactly the number of bytes collect() consumed (next += left '
           'before - left after), and collect() is given (next, &left)' % f.name, f.loc(c), ok,
           'next becomes %r, expected %r' % (got, want))
    return left_key


def giveback_rule(ctx, prog, f, P, left_key):
    """what collect() left over is queued again; a chunk fully consumed is released"""
    # the branch on `left` after the call, here or in a static helper given the chunk
    cands = [f] + list(_static_callees(prog, f, 1).values())
    found = []
    for g in cands:
        Pg = P if g is f else Prov(prog, g)
        rel = [c for c in g.calls('source_release_buffer')]
        if not rel:
            continue
        for c in rel:
            gs = rules.guards(g, Pg, c.block.name)

            def left_zero(core, pol):
                cn = cmp_norm(core)
                if cn is None:
                    # `if (iblk->left)` form
                    return core[0] == 'load' and path_key(core[1][2]).endswith('.left') and not pol
                pred, x, y = cn
                x, y = strip_casts(x), strip_casts(y)
                for a, bb, pr in ((x, y, pred), (y, x, {'ult': 'ugt', 'ugt': 'ult', 'ule': 'uge', 'uge': 'ule',
                                                        'slt': 'sgt', 'sgt': 'slt', 'sle': 'sge', 'sge': 'sle',
                                                        'eq': 'eq', 'ne': 'ne'}.get(pred))):
                    if a[0] == 'load' and path_key(a[1][2]).endswith('.left') and bb == ('const', 0):
                        # left > 0 / left != 0 must be FALSE on the way to the release
                        if pr in ('ugt', 'sgt', 'ne') and not pol:
                            return True
                        if pr in ('eq', 'ule', 'sle') and pol:
                            return True
                return False
            found.append((g, c, rules.guard_holds(gs, left_zero)))
    ctx.require(found, 'C04: %s never releases a consumed chunk (source_release_buffer)' % f.name)
    ok = all(x[2] for x in found)
    ctx.ob('C04.feed', '%s(): an input chunk is released only when collect() consumed all of it (left == 0); otherwise '
           'it goes back to the queue' % f.name, found[0][0].loc(found[0][1]), ok,
           '; '.join('%s: release not guarded by left == 0' % g.loc(c) for g, c, k in found if not k))
    # the other side: the chunk is stored back into coll_q
    ok2 = False
    for g in cands:
        Pg = P if g is f else Prov(prog, g)
        for i in g.insns():
            if i.op == 'store':
                k = str(addr_key(Pg.addr(i.ops[1])))
                if 'coll_q' in k and 'root' in k:
                    ok2 = True
    ctx.ob('C04.feed', '%s(): the rest of a chunk is queued again on coll_q' % f.name, f.loc(), ok2, '')


def _enc_of(P, arg):
    e = strip_casts(P.expr(arg))
    if e[0] == 'load' and path_key(e[1][2]).endswith('.enc') and e[1][1][0] == 'V':
        return strip_casts(e[1][1][1])
    return None


def default_mode(ctx, prog):
    f = prog.func('compress', 'do_collect')
    P = Prov(prog, f)
    dom = cfg.dominators(f)
    ini = _events(prog, f, 'encoder_init')
    col = _events(prog, f, 'collect')
    enc = _events(prog, f, 'encode')
    ctx.require(len(col) == 1 and col[0][1], 'C04: do_collect() does not call collect() exactly once')
    ctx.floor('C04 do_collect(): encoder_init events', len(ini), 1)
    ctx.floor('C04 do_collect(): encode events', len(enc), 1)
    c = col[0][0]
    ok = any(cfg.insn_dominates(f, i, c, dom) for i, _ in ini)
    ctx.ob('C04.feed', 'do_collect(): every visit of an input chunk packs into a freshly initialised encoder '
           '(encoder_init() dominates collect())', f.loc(c), ok, '')
    # same object
    w = _enc_of(P, c.ops[0])
    same = w is not None and w[0] == 'call'
    for i, direct in ini:
        if direct and _enc_of(P, i.ops[0]) != w:
            # or: the object initialised is the one stored into wblk->enc
            e = strip_casts(P.expr(i.ops[0]))
            stored = [st for st in f.insns() if st.op == 'store' and strip_casts(P.expr(st.ops[0])) == e and
                      path_key(P.addr(st.ops[1])[2]).endswith('.enc') and P.addr(st.ops[1])[1][0] == 'V' and
                      strip_casts(P.addr(st.ops[1])[1][1]) == w]
            if not stored:
                same = False
    ctx.ob('C04.feed', 'do_collect(): the encoder packed into is the one allocated and initialised in this visit', f.loc(c),
           same, render(strip_casts(P.expr(c.ops[0]))))
    rets = [b.name for b in f.blocks.values() if b.term.op == 'ret']
    through = {i.block.name for i, _ in enc}
    ok = cfg.must_pass(f, c.block.name, rets, through) and all((not d) or _enc_of(P, i.ops[0]) == w for i, d in enc)
    ctx.ob('C04.feed', 'do_collect(): the block is finished (encode()) on every path after collect(), whatever it '
           'returned -- a chunk is packed on its own', f.loc(c), ok, '')
    lk = advance_rule(ctx, prog, f, P)
    giveback_rule(ctx, prog, f, P, lk)


def sequential_mode(ctx, prog):
    f = prog.func('compress', 'do_collect_seq')
    P = Prov(prog, f)
    col = _events(prog, f, 'collect')
    ini = _events(prog, f, 'encoder_init')
    enc = _events(prog, f, 'encode')
    ctx.require(len(col) == 1 and col[0][1], 'C04: do_collect_seq() does not call collect() exactly once')
    ctx.floor('C04 do_collect_seq(): encoder_init events', len(ini), 1)
    ctx.floor('C04 do_collect_seq(): encode events', len(enc), 1)
    c = col[0][0]

    def is_carried(e):
        e = strip_casts(e)
        return e[0] == 'load' and addr_key(e[1]) == 'G:compress:unfinished_work'

    # (1) a carried encoder is never re-initialised
    bad = []
    for i, direct in ini:
        gs = rules.guards(f, P, i.block.name)

        def carried_null(core, pol):
            cn = cmp_norm(core)
            if cn is None:
                return is_carried(core) and not pol
            pred, x, y = cn
            for a, b in ((x, y), (y, x)):
                if is_carried(a) and strip_casts(b) in (('null',), ('const', 0)):
                    return (pred == 'eq') == pol
            return False
        if not rules.guard_holds(gs, carried_null):
            bad.append(f.loc(i))
    ctx.ob('C04.feed', 'do_collect_seq(): an encoder is initialised only when no unfinished block is carried over '
           '(unfinished_work == NULL): the packing runs on across chunks', f.loc(ini[0][0]), not bad, '; '.join(bad))
    # (2) the object packed into is the carried one or the new one
    w = _enc_of(P, c.ops[0])
    okw = False
    if w is not None and w[0] == 'phi':
        inc = [strip_casts(P.expr(v)) for v, _ in w[2].extra['incoming']]
        okw = any(is_carried(x) for x in inc) and all(is_carried(x) or x[0] in ('call', 'phi') for x in inc)
    ctx.ob('C04.feed', 'do_collect_seq(): collect() packs into the carried block if there is one, else into the new one',
           f.loc(c), okw, render(w) if w is not None else 'encoder argument not of the form wblk->enc')
    # (3) the verdict of collect() decides: not full -> saved, no encode; full / no input -> encode
    res = ('call', 'collect')

    def from_collect(e, depth=0):
        e = strip_casts(e)
        if e[0] == 'call' and e[1] == 'collect':
            return True
        if e[0] in ('icmp',) and depth < 6:
            return from_collect(e[2], depth + 1) or from_collect(e[3], depth + 1)
        if e[0] in ('ext', 'trunc', 'cast') and depth < 6:
            return from_collect(e[-1], depth + 1)
        return False

    def done_cond(core):
        """-> True if core is `done` (the phi of 'true' and collect()'s result)"""
        core = strip_casts(core)
        if core[0] == 'phi':
            inc = [(v, strip_casts(P.expr(v))) for v, _ in core[2].extra['incoming']]
            consts = [e for v, e in inc if e[0] == 'const']
            others = [e for v, e in inc if e[0] != 'const']
            if others and all(_peeled_from_collect(P, e) for e in others) and all(k[1] != 0 for k in consts):
                return True
        return _peeled_from_collect(P, core)

    saves = [i for i in f.insns() if i.op == 'store' and addr_key(P.addr(i.ops[1])) == 'G:compress:unfinished_work' and
             strip_casts(P.expr(i.ops[0])) not in (('null',), ('const', 0))]
    ctx.floor('C04 do_collect_seq(): saves of the unfinished block', len(saves), 1)
    bad = []
    for i in saves:
        gs = rules.guards(f, P, i.block.name)
        if not rules.guard_holds(gs, lambda core, pol: done_cond(core) and not pol):
            bad.append('%s: the save is not guarded by "collect() said not full"' % f.loc(i))
        if strip_casts(P.expr(i.ops[0])) != w:
            bad.append('%s: what is saved is not the block being packed' % f.loc(i))
        # no encode after the save
        for e, _ in enc:
            if cfg.reaches(f, i.block.name, e.block.name) and i.block.name != e.block.name:
                bad.append('%s: encode() is reachable after the block was saved as unfinished' % f.loc(i))
    ctx.ob('C04.feed', 'do_collect_seq(): a block collect() did not declare full is saved as unfinished_work and not '
           'finished; it is the block being packed', f.loc(saves[0]), not bad, '; '.join(bad))
    bad = []
    for e, direct in enc:
        gs = rules.guards(f, P, e.block.name)
        if not rules.guard_holds(gs, lambda core, pol: done_cond(core) and pol):
            bad.append('%s: encode() is not guarded by "full, or no input was left to pack"' % f.loc(e))
        if direct and _enc_of(P, e.ops[0]) != w:
            bad.append('%s: encode() finishes another encoder' % f.loc(e))
    ctx.ob('C04.feed', 'do_collect_seq(): a block is finished (encode()) only when collect() declared it full, or when '
           'there was no chunk to pack (end of input with a block pending)', f.loc(enc[0][0]), not bad, '; '.join(bad))
    # every path from collect() ends in a save or an encode
    rets = [b.name for b in f.blocks.values() if b.term.op == 'ret']
    through = {i.block.name for i, _ in enc} | {i.block.name for i in saves}
    ctx.ob('C04.feed', 'do_collect_seq(): after collect() every path either saves the block or finishes it', f.loc(c),
           cfg.must_pass(f, c.block.name, rets, through), '')
    # (4) collect() runs exactly when a chunk was taken
    gs = rules.guards(f, P, c.block.name)

    def chunk_taken(core, pol):
        cn = cmp_norm(core)
        if cn is None:
            return False
        pred, x, y = cn
        for a, b in ((x, y), (y, x)):
            a = strip_casts(a)
            if a[0] == 'phi' and strip_casts(b) in (('null',), ('const', 0)):
                inc = [strip_casts(P.expr(v)) for v, _ in a[2].extra['incoming']]
                if any(k in (('null',), ('const', 0)) for k in inc):
                    return (pred == 'ne') == pol
        return False
    ctx.ob('C04.feed', 'do_collect_seq(): collect() runs when (and only on paths where) a chunk was taken from the queue',
           f.loc(c), rules.guard_holds(gs, chunk_taken), '')
    lk = advance_rule(ctx, prog, f, P)
    giveback_rule(ctx, prog, f, P, lk)
    # (5) the pending block becomes eligible exactly at end of input (decision table of can_collect_seq())
    from expandrules import (counter_fact, counter_gt, flag_fact, nonnull_fact, nonempty_q, predicate_table)
    g, rows = predicate_table(prog, 'compress', 'can_collect_seq',
                              [counter_fact({'G:work_units'}), nonempty_q('compress', 'coll_q'), flag_fact('eof', 'G:eof'),
                               flag_fact('ultra', 'G:ultra'), flag_fact('token', 'G:compress:collect_token'),
                               nonnull_fact('pending', 'G:compress:unfinished_work')])
    ctx.floor('C04 can_collect_seq decision paths', len(rows), 3)
    bad = []
    for val, fa in rows:
        chunk = fa.get('nonempty:coll_q')
        if val is None:
            bad.append('result not determined by the tracked conditions %s' % sorted(map(str, fa)))
        elif val:
            if chunk is not True and not (fa.get('eof') is True and fa.get('pending') is True):
                bad.append('ready with no chunk queued although the input has not ended (or nothing is pending): the '
                           'partly filled block would be finished early (facts %s)' % {str(k): v for k, v in fa.items()})
            if fa.get('token') is not True or fa.get('ultra') is not True:
                bad.append('ready without the collect token / outside --sequential')
        else:
            # must not refuse the final flush: eof, a block pending, token held
            if fa.get('eof') is not False and fa.get('pending') is not False and fa.get('token') is not False and \
                    fa.get('ultra') is not False and chunk is not True:
                bad.append('refuses to finish the pending block at end of input (facts %s)' %
                           {str(k): v for k, v in fa.items()})
    ctx.ob('C04.feed', 'can_collect_seq(): with no chunk queued the collector runs only at end of input with a block '
           'pending (then it does run): the last, partly filled block is finished exactly once, never early', g.loc(),
           not bad, '; '.join(sorted(set(bad))[:2]) or '%d decision paths' % len(rows), evals=len(rows))


def _peeled_from_collect(P, e, depth=0):
    e = strip_casts(e)
    if e[0] == 'call' and e[1] == 'collect':
        return True
    if depth > 6:
        return False
    if e[0] == 'icmp':
        a, b = strip_casts(e[2]), strip_casts(e[3])
        if b[0] == 'const' and b[1] == 0 and e[1] == 'ne':
            return _peeled_from_collect(P, a, depth + 1)
        return False
    if e[0] in ('ext', 'trunc'):
        return _peeled_from_collect(P, e[-1], depth + 1)
    return False


def run(ctx):
    prog = ctx.prog('ssa')
    ctx.explain('C04: abstract interpretation of collect() against the greedy run-length packer over symbolic room, '
                'input length, run length and byte equalities (intervals split at the code\'s own comparisons, never '
                'widened), to a fixpoint over the run state carried between calls; the same walk over encode()\'s '
                'prologue for the final count byte; structural rules for how compress.c feeds the packer in both modes; '
                'chunk-size and capacity provenance shared with C03/C02.')
    entries = collect_rule(ctx, prog)
    flush_rule(ctx, prog, entries)
    default_mode(ctx, prog)
    sequential_mode(ctx, prog)
    A = conc.Analysis(prog)
    c03.chunking(ctx, prog, A)
    c02.level_plumbing(ctx, prog)

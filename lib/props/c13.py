"""C13 Peak memory is bounded by the worker count -- structural clauses.

(a) every allocation made by run-time code has a size whose provenance is limited to constants, bs100k, the
    I/O granularities and encoder-reported sizes -- never input length, file size or a counter
(b) slot totals are affine in num_worker; granularities are constant or linear in bs100k
(c) every object is released or handed on on every path: object conservation laws per task / callback / I/O loop,
    the two-party protocol for unord_blk (owned-field rule), decoder_init/decoder_free agreement, and all
    token-less queues are drained when parsing finishes
Does not decide resident set size or allocator behaviour."""
import cfg, conc, schedlaws, balance
from irdb import broken
from prov import Prov, addr_key, strip_ext, strip_casts, render, poly, path_key, peel_cond
from props import c11

LEVEL = 'other'

# slot counters are bounded by their totals, which rule (b) shows to be affine in num_worker
SIZE_GLOBALS = {'bs100k', 'in_granul', 'out_granul', 'in_slots', 'out_slots', 'work_units', 'num_worker',
                'total_in_slots', 'total_out_slots'}
SIZE_CALLS = {'encoder_alloc_size'}
# heap fields whose value is a size reported by the encoder for the block it holds (bounded by the encoder buffer,
# which is itself sized from bs100k): reason for each entry
SIZE_FIELDS = {('struct.work_blk', 'size'): 'compressed size returned by encode(); bounded by encoder_alloc_size'}


def run(ctx):
    prog = ctx.prog('ssa')
    A = conc.Analysis(prog)
    ctx.explain('C13: provenance of every run-time allocation size; affine slot totals; object conservation laws on '
                'every path of every task/callback/I/O loop; owned-field rule for retr_blk.unord_link; '
                'decoder_init/decoder_free agreement; queues drained at end of parsing.')
    sizes(ctx, prog, A)
    totals(ctx, prog, A)
    objects(ctx, prog, A)
    owned_field(ctx, prog, A)
    init_free(ctx, prog, A)
    drained(ctx, prog, A)


def _run_reach(prog, A):
    out = {}
    for mode in sorted(A.engine.modes):
        ml = schedlaws.ModeLaws(prog, A, mode)
        roots = [f for _, f in ml.run_fns()] + list(ml.callbacks.values())
        out.update(ml.reach(roots))
    return out


def sizes(ctx, prog, A):
    reach = _run_reach(prog, A)
    n = 0
    for fq, f in sorted(reach.items()):
        P = A.cg.prov(f)
        for ins in f.calls():
            if ins.extra.get('callee') not in ('xmalloc', 'malloc', 'calloc', 'realloc') or f.name == 'xmalloc':
                continue
            n += 1
            bad = _bad_leaves(prog, A, f, P, P.expr(ins.ops[0]), 0)
            ctx.ob('C13.size', '%s: xmalloc size at line %s' % (f.name, ins.line), f.loc(ins), not bad,
                   'size = %s; leaves all in {constants, bs100k, in_granul, out_granul, encoder-reported size}' %
                   render(P.expr(ins.ops[0])) if not bad else 'size %s depends on %s' % (render(P.expr(ins.ops[0])), bad))
    ctx.floor('run-time allocation sites', n, 14)
    # the allocator wrapper itself must not be bypassed
    raw = [(f, i) for f in reach.values() for i in f.calls() if i.extra.get('callee') in ('malloc', 'calloc', 'realloc')
           and f.name != 'xmalloc']
    ctx.ob('C13.size', 'run-time code allocates only through xmalloc', 'src/', not raw,
           '%s' % [(f.name, f.loc(i)) for f, i in raw])


def _bad_leaves(prog, A, f, P, e, depth):
    bad = []
    for lf in P.leaves(e):
        k = lf[0]
        if k in ('const', 'null'):
            continue
        if k == 'load':
            key = lf[1]
            if key.startswith('G:') and key[2:] in SIZE_GLOBALS:
                continue
            ok = False
            if key.startswith('A:') and '.' not in key and '[' not in key:
                # address-taken local: the store that reaches this use (same block, no intervening call that is given
                # the local's address)
                st_ = _reaching_local_store(f, P, key[2:], e)
                if st_ is not None:
                    bad.extend(_bad_leaves(prog, A, f, P, P.expr(st_.ops[0]), depth + 1))
                    continue
            for (st, fld) in SIZE_FIELDS:
                if key.endswith('.' + fld) and key.startswith('V('):
                    ok = True
            if ok:
                continue
            bad.append(key)
        elif k == 'call':
            if lf[1] in SIZE_CALLS:
                # its argument must be clean too
                for ins in f.calls(lf[1]):
                    bad.extend(_bad_leaves(prog, A, f, P, P.expr(ins.ops[0]), depth + 1))
                continue
            bad.append('%s()' % lf[1])
        elif k == 'param':
            # one level: every caller's argument
            if depth > 2:
                bad.append('param')
                continue
            callers = [(cf, ci) for cf, ci in A.cg.callers_of(f.name) if prog.resolve(cf.module, f.name) is f]
            if not callers:
                bad.append('param %d of %s (callback)' % (lf[1], f.name))
            for cf, ci in callers:
                Pc = A.cg.prov(cf)
                bad.extend(_bad_leaves(prog, A, cf, Pc, Pc.expr(ci.ops[lf[1]]), depth + 1))
        elif k == 'addrof':
            continue
        else:
            bad.append(str(lf))
    return bad


def _san(n):
    import re
    return re.sub(r'\.i(\d*)$', r'_i\1', n)


def _reaching_local_store(f, P, name, e):
    # find the load instruction(s) of this alloca inside e
    loads = []

    def walk(x):
        if isinstance(x, tuple):
            if x and x[0] == 'load' and x[1][1][0] == 'A' and _san(x[1][1][1]) == name and not x[1][2]:
                loads.append(x[2])
            for y in x:
                if isinstance(y, tuple):
                    walk(y)
    walk(e)
    if len(loads) != 1:
        return None
    ld = loads[0]
    prev = None
    for i in ld.block.insns[:ld.idx]:
        if i.op == 'store' and P.addr(i.ops[1])[1][0] == 'A' and _san(P.addr(i.ops[1])[1][1]) == name:
            prev = i
        elif i.op == 'call' and any(P.expr(o)[0] == 'addr' and P.expr(o)[1][0] == 'A' and _san(P.expr(o)[1][1]) == name
                                    for o in i.ops if o[0] in ('reg',)):
            prev = None
    return prev


def totals(ctx, prog, A):
    smc = prog.func('process', 'set_memory_constraints')
    P = A.cg.prov(smc)
    n = 0
    for ins in smc.insns():
        if ins.op != 'store':
            continue
        a = P.addr(ins.ops[1])
        if a[1][0] != 'G' or a[2]:
            continue
        name = a[1][1]
        pl = poly(strip_casts(P.expr(ins.ops[0])), c11._leafname)
        if name in ('total_in_slots', 'total_out_slots'):
            n += 1
            ok = pl is not None and set(pl) <= {(), ('num_worker',)} and all(c >= 0 for c in pl.values())
            ctx.ob('C13.affine', '%s = a*num_worker + b' % name, smc.loc(ins), ok, c11._pp(pl))
        elif name in ('in_granul', 'out_granul'):
            n += 1
            ok = pl is not None and set(pl) <= {(), ('bs100k',)} and all(abs(c) < (1 << 62) for c in pl.values())
            ctx.ob('C13.affine', '%s is a constant or linear in bs100k' % name, smc.loc(ins), ok, c11._pp(pl))
        else:
            ctx.ob('C13.affine', 'set_memory_constraints stores only the slot totals and granularities', smc.loc(ins),
                   False, 'store to %s' % name)
    ctx.floor('stores in set_memory_constraints', n, 12)
    # the live counters are initialised from the totals / num_worker only
    pt = prog.func('process', 'primary_thread')
    Pp = A.cg.prov(pt)
    for ins in pt.insns():
        if ins.op == 'store':
            a = Pp.addr(ins.ops[1])
            if a[1][0] == 'G' and not a[2] and a[1][1] in ('in_slots', 'out_slots', 'work_units'):
                v = strip_casts(Pp.expr(ins.ops[0]))
                want = {'in_slots': 'total_in_slots', 'out_slots': 'total_out_slots', 'work_units': 'num_worker'}[a[1][1]]
                ok = v[0] == 'load' and v[1][1] == ('G', want)
                ctx.ob('C13.affine', '%s starts at %s' % (a[1][1], want), pt.loc(ins), ok, render(v))


def objects(ctx, prog, A):
    total = 0
    for mode in sorted(A.engine.modes):
        ml = schedlaws.ModeLaws(prog, A, mode, kinds=('token', 'object'))
        total += ml.check(ctx, 'R3.object', only_laws=set(schedlaws.MODES[mode]['object']))
        for ck, f, ins in ml.unknown_effects():
            # an allocation (or release) in steady-state code whose class no law mentions: nothing bounds how many of
            # these objects are alive (a cache, a free-list, a buffer kept "for later")
            ctx.ob('R3.object', 'allocation/release class %s [%s] is covered by a conservation law' % (ck, mode), f.loc(ins),
                   False, 'the population of this object class is not tied to any token or queue')
    ctx.floor('object-law obligations', total, 30)


# ---------------------------------------------------------------- owned field: retr_blk.unord_link
OWNED_FIELDS = [
    # (unit, container struct, field, reason)
    ('expand', 'struct.retr_blk', 'unord_link',
     'a scanner-created retrieve job shares its unord_blk with the parser; whoever finishes second frees it'),
]


def owned_field(ctx, prog, A):
    for unit, st, field, reason in OWNED_FIELDS:
        m = prog.module(unit)
        n = 0
        handlers = _link_handlers(prog, A, m, st, field)
        for f in m.funcs.values():
            P = A.cg.prov(f)
            for ins in f.calls('free'):
                if schedlaws._cast_src_type(f, ins.ops[0]) != st:
                    continue
                n += 1
                base = strip_casts(P.expr(ins.ops[0]))
                ok, why = _link_handled_before(prog, A, f, P, base, ins, st, field, handlers)
                ctx.ob('C13.owned_field', '%s: free(%s) after disposing of ->%s' % (f.name, st.split('.')[-1], field),
                       f.loc(ins), ok, why)
        ctx.floor('free() sites of %s' % st, n, 5)


def _link_handlers(prog, A, m, st, field):
    """functions taking a container pointer that dispose of its link on every path (or the link is NULL)"""
    out = set()
    for f in m.funcs.values():
        if not f.params:
            continue
        P = A.cg.prov(f)
        for pi, (ty, pn) in enumerate(f.params):
            if ty == ('ptr', ('named', st)):
                base = ('param', pi, pn)
                rets = [b for b in f.blocks.values() if b.term.op == 'ret']
                if not rets:
                    continue
                ok = True
                for rb in rets:
                    o, _ = _paths_handled(f, P, f.entry.insns[0], rb.term, base, st, field, set())
                    ok = ok and o
                if ok:
                    out.add(f.name)
    return out


def _is_link_load(P, e, base, field):
    e = strip_casts(e)
    return e[0] == 'load' and e[1][1] == ('V', base) and e[1][2] and e[1][2][-1][0] == 'f' and e[1][2][-1][3] == field \
        and len(e[1][2]) == 1


def _handling_blocks(f, P, base, st, field, handlers):
    """blocks containing an instruction that disposes of base->field; and edges on which the link is known NULL"""
    blocks = set()
    null_edges = []
    for b in f.blocks.values():
        for ins in b.insns:
            if ins.op == 'call':
                n = ins.extra.get('callee')
                if n == 'free' and _is_link_load(P, P.expr(ins.ops[0]), base, field):
                    blocks.add(b.name)
                if n in handlers and ins.ops and strip_casts(P.expr(ins.ops[0])) == base:
                    blocks.add(b.name)
            elif ins.op == 'store':
                a = P.addr(ins.ops[1])
                if a[1][0] == 'V' and _is_link_load(P, a[1][1], base, field) and a[2] and a[2][-1][3] == 'complete':
                    blocks.add(b.name)
                # alias: local copy of the link (ub = rb->unord_link)
                if a[1][0] == 'V' and a[2] and a[2][-1][0] == 'f' and a[2][-1][3] == 'complete':
                    x = strip_casts(a[1][1])
                    if _is_link_load(P, x, base, field):
                        blocks.add(b.name)
        t = b.term
        if t.op == 'br' and len(t.extra['targets']) == 2:
            c = strip_casts(P.expr(t.ops[0]))
            if c[0] == 'icmp' and c[1] in ('eq', 'ne'):
                x, y = strip_casts(c[2]), strip_casts(c[3])
                if y[0] == 'null' and _is_link_load(P, x, base, field):
                    null_edges.append((b.name, t.extra['targets'][0 if c[1] == 'eq' else 1]))
    return blocks, null_edges


def _paths_handled(f, P, start_ins, end_ins, base, st, field, handlers):
    blocks, null_edges = _handling_blocks(f, P, base, st, field, handlers)
    # a handling instruction in the end block before the end instruction counts; so does one in the start block
    for b in list(blocks):
        if b == end_ins.block.name:
            hs = [i for i in f.blocks[b].insns if i.idx < end_ins.idx]
            if any(_handles(P, i, base, field, handlers) for i in hs):
                return True, 'link disposed of in the same block'
    rb = set(blocks) - {end_ins.block.name}
    r = cfg.reachable(f, start_ins.block.name, removed_blocks=rb - {start_ins.block.name}, removed_edges=null_edges)
    if start_ins.block.name in blocks and start_ins.block.name != end_ins.block.name:
        return True, 'link disposed of in the acquiring block'
    if end_ins.block.name in r:
        p = cfg.find_path(f, start_ins.block.name, end_ins.block.name, removed_edges=null_edges,
                          removed_blocks=rb - {start_ins.block.name})
        return False, 'path without disposal of ->%s: %s' % (field, ' -> '.join(p or []))
    return True, 'every path passes free(x->%s), a store to x->%s->complete, a handler %s, or a NULL test' % (
        field, field, sorted(handlers))


def _handles(P, ins, base, field, handlers):
    if ins.op == 'call':
        n = ins.extra.get('callee')
        if n == 'free' and _is_link_load(P, P.expr(ins.ops[0]), base, field):
            return True
        if n in handlers and ins.ops and strip_casts(P.expr(ins.ops[0])) == base:
            return True
    if ins.op == 'store':
        a = P.addr(ins.ops[1])
        if a[1][0] == 'V' and a[2] and a[2][-1][0] == 'f' and a[2][-1][3] == 'complete' and \
                _is_link_load(P, a[1][1], base, field):
            return True
    return False


def _link_handled_before(prog, A, f, P, base, free_ins, st, field, handlers):
    # acquisition point of the container pointer
    if base[0] == 'load':
        start = base[2]
    elif base[0] == 'call':
        start = base[2]
    elif base[0] == 'param':
        start = f.entry.insns[0]
    elif base[0] == 'phi':
        start = base[2]
    else:
        return False, 'cannot find where %s was acquired' % render(base)
    # freshly allocated container whose link is stored NULL / a fresh link: the rule applies to containers that
    # came out of a queue or a parameter
    return _paths_handled(f, P, start, free_ins, base, st, field, handlers)


# ---------------------------------------------------------------- decoder_init / decoder_free agreement
def init_free(ctx, prog, A):
    di = prog.func('decode', 'decoder_init')
    df = prog.func('decode', 'decoder_free')
    Pi = A.cg.prov(di)
    Pf = A.cg.prov(df)
    alloc_fields = set()
    for ins in di.insns():
        if ins.op == 'store':
            a = Pi.addr(ins.ops[1])
            v = strip_casts(Pi.expr(ins.ops[0]))
            if v[0] == 'call' and v[1] == 'xmalloc' and a[1][0] == 'V' and a[1][1][0] == 'param' and a[2] and a[2][-1][0] == 'f':
                alloc_fields.add(a[2][-1][3])
    ctx.floor('fields allocated by decoder_init', len(alloc_fields), 2)
    rets = [b.name for b in df.blocks.values() if b.term.op == 'ret']
    for fld in sorted(alloc_fields):
        fb = set()
        for ins in df.calls('free'):
            e = strip_casts(Pf.expr(ins.ops[0]))
            if e[0] == 'load' and e[1][1][0] == 'V' and e[1][1][1][0] == 'param' and e[1][2] and e[1][2][-1][3] == fld:
                fb.add(ins.block.name)
        ok = bool(fb) and cfg.must_pass(df, df.entry.name, rets, fb)
        ctx.ob('C13.init_free_agree', 'decoder_free releases ds->%s on every path' % fld, df.loc(), ok,
               'allocated in decoder_init; free(ds->%s) in blocks %s' % (fld, sorted(fb)))


# ---------------------------------------------------------------- queues drained when parsing finishes
def drained(ctx, prog, A):
    f = prog.func('expand', 'do_parse')
    P = A.cg.prov(f)
    m = f.module
    pd = prog.gkey(m, 'parsing_done')
    stores = [i for i in f.insns() if i.op == 'store' and P.addr(i.ops[1])[1] == ('G', pd) and
              P.expr(i.ops[0]) != ('const', 0)]
    ctx.floor('stores parsing_done = true in do_parse', len(stores), 1)
    rets = [b.name for b in f.blocks.values() if b.term.op == 'ret']
    for q in ('input_q', 'retr_q', 'scan_q', 'unord_q'):
        qk = prog.gkey(m, q)
        empty_edges = []
        for b in f.blocks.values():
            t = b.term
            if t.op == 'br' and len(t.extra['targets']) == 2:
                c, pol = peel_cond(P.expr(t.ops[0]))
                c = strip_casts(c)
                if c[0] == 'load' and c[1][1] == ('G', qk) and c[1][2] and c[1][2][-1][3] == 'size':
                    empty_edges.append((b.name, t.extra['targets'][1 if pol else 0]))
        for s in stores:
            # every path from the store to a return takes an edge on which q is empty
            r = cfg.reachable(f, s.block.name, removed_edges=empty_edges)
            bad = [x for x in rets if x in r]
            ctx.ob('C13.drained', '%s is drained after parsing_done is set' % q, f.loc(s), bool(empty_edges) and not bad,
                   'every path to return passes a test `%s empty`' % q if not bad else
                   'a path reaches return without testing that %s is empty' % q)
    # nothing is added to the input queues once parsing is done: on_input_avail pushes only on parsing_done == false
    g = prog.func('expand', 'on_input_avail')
    Pg = A.cg.prov(g)
    edges = []
    for b in g.blocks.values():
        t = b.term
        if t.op == 'br' and len(t.extra['targets']) == 2:
            c, pol = peel_cond(Pg.expr(t.ops[0]))
            c = strip_casts(c)
            if c[0] == 'load' and c[1][1] == ('G', pd):
                edges.append((b.name, t.extra['targets'][1 if pol else 0]))   # edge with parsing_done false
    for q in ('input_q', 'scan_q'):
        qk = prog.gkey(m, q)
        for ins in g.insns():
            if ins.op == 'store':
                a = Pg.addr(ins.ops[1])
                if a[1] == ('G', qk) and a[2] and a[2][-1][3] == 'size':
                    ok = bool(edges) and not cfg.reaches(g, g.entry.name, ins.block.name, removed_edges=edges)
                    ctx.ob('C13.drained', 'on_input_avail adds to %s only while parsing_done is false' % q, g.loc(ins), ok,
                           'cut by the edge(s) %s' % edges)

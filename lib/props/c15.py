"""C15 Stored CRC fields are enforced.

Decides that both comparisons exist, are on all 32 bits of the stored and of the computed value, apply to every
block and every stream whatever its position, and lead to a fatal error:
  * block CRC: parse() assembles hd->crc from two unmasked 16-bit words -> head pushed on order_q -> do_reorder()
    compares it (32 bits, no mask, not conditional on anything but the block being finished and in order) with
    oblk->crc <- eb->ds.crc <- emit()'s `s ^ 0xFFFFFFFF`; a mismatch ends in failf();
  * every byte emit() writes is folded into `s` through crc_table, which equals the CRC-32/BZIP2 table and is never
    written; `s` starts at -1 per block and survives a suspension of emit();
  * stream CRC: tabulated from parse(): (stored1<<16)|stored2 compared with the combined CRC on all 32 bits,
    combined = rotl1(combined) ^ block CRC for every block, reset only after a matched stream trailer;
  * parse()'s error code reaches failf() (do_parse), failf never returns (C07/C21 carry it to exit status 1).
It does not decide that emit() reproduces the right bytes (numerical)."""
import cfg, rules, expandrules
from irdb import broken, enumerators, init_ints
from prov import Prov, strip_casts, strip_ext, addr_key, path_key, render, peel_cond, cmp_norm
from props import c05, c16, c21
import conc

LEVEL = 'other'


def crc32_bzip2_table():
    t = []
    for i in range(256):
        c = i << 24
        for _ in range(8):
            c = ((c << 1) ^ 0x04C11DB7) & 0xFFFFFFFF if c & 0x80000000 else (c << 1) & 0xFFFFFFFF
        t.append(c)
    return t


def derives_from(P, e, pred, seen=None, depth=0):
    """does address/value expression e derive (through phis, geps, casts, +-) from a leaf satisfying pred"""
    seen = seen if seen is not None else set()
    e = strip_casts(e)
    if pred(e):
        return True
    if depth > 40:
        return False
    k = e[0]
    if k == 'addr':
        root = e[1]
        if root[0] == 'V':
            return derives_from(P, root[1], pred, seen, depth + 1)
        return False
    if k == 'phi':
        if e[1] in seen:
            return False
        seen.add(e[1])
        return any(derives_from(P, x, pred, seen, depth + 1) for x, _ in P.phi_inputs(e))
    if k == 'bin':
        return derives_from(P, e[2], pred, seen, depth + 1) or derives_from(P, e[3], pred, seen, depth + 1)
    if k == 'select':
        return any(derives_from(P, x, pred, seen, depth + 1) for x in e[2:])
    return False


def table_rule(ctx, prog, pfx='C15'):
    m = prog.module('crctab')
    ctx.require('crc_table' in m.globals, 'crc_table vanished from crctab.c')
    g = m.globals['crc_table']
    vals = init_ints(g.init)
    ref = crc32_bzip2_table()
    bad = [(i, vals[i], ref[i]) for i in range(min(len(vals), 256)) if (vals[i] & 0xFFFFFFFF) != ref[i]]
    ctx.ob(pfx + '.crc_table', 'crc_table[256] equals the CRC-32/BZIP2 table (polynomial 0x04C11DB7, msb first)',
           'src/crctab.c', len(vals) == 256 and not bad, 'all 256 entries' if not bad else 'entries differ: %s' % bad[:4],
           evals=256)
    # never written anywhere in the program (it is not declared const)
    writers = []
    for f in prog.all_funcs():
        P = None
        for i in f.insns():
            if i.op == 'store' or (i.op == 'call' and (i.extra.get('callee') or '').startswith(('llvm.mem', 'mem'))):
                if 'crc_table' not in i.text:
                    continue
                writers.append(f.loc(i))
    ctx.ob(pfx + '.crc_table', 'no instruction of the program writes crc_table', 'src/crctab.c', not writers,
           ', '.join(writers), nontrivial=False)


def emit_rule(ctx, prog, pfx='C15'):
    """emit() folds every byte it stores into the block CRC, resumes the accumulator from rle_crc, saves it there at
    MORE and publishes its complement at OK: decided by the abstract walk of emit() (lib/unrle.py, rule `crc`: the CRC
    handed back is 'the CRC of the bytes stored [0,w)', advanced only by the CRC() step applied to the byte just
    stored).  The structural rules that used to stand here alarmed on behaviour-preserving rewrites of emit()."""
    import codecrules
    codecrules.unrle_walk(ctx, prog, pfx, only=('crc', 'more', 'ok'))
    # decode() starts every block with rle_crc = -1
    d = prog.func('decode', 'decode')
    Pd = Prov(prog, d)
    init = [i for i in d.insns() if i.op == 'store' and path_key(Pd.addr(i.ops[1])[2]) == '.rle_crc']
    rets = [b.name for b in d.blocks.values() if b.term.op == 'ret']
    domd = cfg.dominators(d)
    ok = len(init) >= 1 and all(strip_casts(Pd.expr(i.ops[0])) in (('const', -1), ('const', 0xFFFFFFFF)) for i in init) \
        and all(any(i.block.name in domd[r] for i in init) for r in rets)
    ctx.ob(pfx + '.emit.crc_init', 'decode() initialises the block CRC accumulator to 0xFFFFFFFF on every path',
           d.loc(init[0]) if init else d.loc(), ok, '')


def derives_from_value(P, e, pred, seen=None, depth=0):
    """value-level: follows phis, xor/shl/or/and/add, and loads of crc_table[...] index expressions"""
    seen = seen if seen is not None else set()
    e = strip_casts(e)
    if pred(e):
        return True
    if depth > 60:
        return False
    if e[0] == 'phi':
        if e[1] in seen:
            return False
        seen.add(e[1])
        return any(derives_from_value(P, x, pred, seen, depth + 1) for x, _ in P.phi_inputs(e))
    if e[0] == 'bin':
        return derives_from_value(P, e[2], pred, seen, depth + 1) or derives_from_value(P, e[3], pred, seen, depth + 1)
    if e[0] == 'select':
        return any(derives_from_value(P, x, pred, seen, depth + 1) for x in e[2:])
    return False


def chain_rule(ctx, prog, pfx='C15'):
    """who writes the two compared fields"""
    # computed side: do_emit copies eb->ds.crc for every finished block
    info = expandrules.analyse_emit(prog)
    f, P, E = info['f'], info['P'], info['E']
    crc_st = [i for i in f.insns() if i.op == 'store' and path_key(P.addr(i.ops[1])[2]) == '.crc']
    ok = len(crc_st) == 1
    src = strip_ext(P.expr(crc_st[0].ops[0])) if ok else None
    ok = ok and src[0] == 'load' and path_key(src[1][2]).endswith('.ds.crc') and 'emit_q' in addr_key(src[1])
    ctx.ob(pfx + '.chain.computed', 'do_emit(): oblk->crc = eb->ds.crc (all 32 bits)', f.loc(crc_st[0]) if crc_st else
           f.loc(), ok, render(src) if src else '')
    # it is stored on every path that queues a finished (status != MORE) block
    if crc_st:
        pushes = [e for e in info['events'] if e[0] == 'push_reord']
        bad = []
        for _, ins, cells, facts in pushes:
            st = cells['estatus'] if cells['estatus'] != E['OK'] else cells['emit_rv']
            if st == E['OK']:
                # path-insensitively: the store's block must lie on every path from the status test to the push
                pass
        must = cfg.must_pass(f, f.entry.name, [pushes[0][1].block.name], {crc_st[0].block.name} |
                             set(cfg.blocks_calling(f, {'up_heap'}) - {pushes[0][1].block.name}))
        ctx.ob(pfx + '.chain.computed', 'every path of do_emit() that queues the block to reord_q without re-queueing '
               'it to emit_q passes the copy of the CRC', f.loc(crc_st[0]), must, '')
    # stored side: parse() writes *hd, do_parse passes &head_blk.hdr and pushes head_blk; do_reorder reads ord
    pi = expandrules.analyse_parse_task(prog)
    fp, Pp = pi['f'], pi['P']
    pc = list(fp.calls('parse'))
    ctx.require(len(pc) == 1, 'do_parse(): expected one call to parse()')
    hd = Pp.expr(pc[0].ops[1])
    okh = hd[0] == 'addr' and addr_key(hd) == 'A:' + expandrules.head_local(prog) + '.hdr'
    pushes = [e for e in pi['events'] if e[0] == 'push_order']
    oks = bool(pushes) and all(s == 'A:' + expandrules.head_local(prog) for _, _, _, _, s in pushes)
    ctx.ob(pfx + '.chain.stored', 'do_parse(): the header parse() fills (&head_blk.hdr) is the one pushed on order_q',
           fp.loc(pc[0]), okh and oks, 'parse(.., %s, ..); pushed from %s' % (render(hd), [s for _, _, _, _, s in pushes]))
    # nobody else writes order_q elements' hdr, and do_reorder's re-insertion keeps hdr
    r = prog.func('expand', 'do_reorder')
    Pr = Prov(prog, r)
    wr = []
    for i in r.insns():
        if i.op == 'store' and addr_key(Pr.addr(i.ops[1])).startswith('A:' + expandrules.ord_local(prog) + '.hdr'):
            wr.append(r.loc(i))
    ctx.ob(pfx + '.chain.stored', 'do_reorder() never modifies the header it took from order_q', r.loc(), not wr,
           ', '.join(wr), nontrivial=False)
    others = []
    for f2 in prog.module('expand').funcs.values():
        if f2.name in ('do_parse', 'do_reorder'):
            continue
        P2 = Prov(prog, f2)
        for i in f2.insns():
            if i.op == 'call' and (i.extra.get('callee') or '').startswith('llvm.memcpy'):
                d, s = expandrules.memcpy_dst_src(P2, i)
                if d and 'order_q.root' in d:
                    others.append(f2.loc(i))
            if i.op == 'store' and 'order_q.root' in addr_key(P2.addr(i.ops[1])) and '.hdr' in addr_key(P2.addr(i.ops[1])):
                others.append(f2.loc(i))
    ctx.ob(pfx + '.chain.stored', 'order_q elements are written only by do_parse (push) and do_reorder (re-insert)',
           'src/expand.c', not others, ', '.join(others), nontrivial=False)


def run(ctx):
    prog = ctx.prog('ssa')
    ctx.explain('C15: block CRC comparison in do_reorder() (path-sensitive exploration: a finished block reaches the '
                'writer only with the 32-bit test oblk->crc != ord.hdr.crc false; a mismatch ends in failf), data-flow '
                'chain of both compared fields, fold-every-byte rule and init/save/final rules of emit(), crc_table '
                'equivalence, stream CRC and block CRC assembly tabulated from parse() bit by bit, error-to-failf '
                'chain in do_parse().')
    expandrules.reorder_obligations(ctx, prog, 'C15', parts=('write', 'crc', 'fatal'))
    chain_rule(ctx, prog)
    emit_rule(ctx, prog)
    table_rule(ctx, prog)
    c05.parse_fsm_rule(ctx, prog, pfx='C15')
    expandrules.parse_task_obligations(ctx, prog, 'C15')
    expandrules.emit_obligations(ctx, prog, 'C15')
    # a detected mismatch becomes exit status 1: fail* never return, bailout() exits 1 on the main thread and
    # raises SIGUSR1 elsewhere, and that signal is deliverable to the main thread whatever mask was inherited
    A = conc.Analysis(prog)
    c21.fail_family(ctx, prog, A)
    c21.bailout_rules(ctx, prog, A)
    c16.signal_window(ctx, prog, A)

"""Concurrency substrate: call graph with function-pointer-table resolution, derived thread model,
interprocedural typestate engine (held mutexes x set of other thread classes alive), access records
for the lockset race rule, lock-order graph."""
import cfg
from irdb import broken
from prov import Prov, addr_key, path_key, strip_ext, strip_casts, render

LOCK_FN = 'pthread_mutex_lock'
UNLOCK_FN = 'pthread_mutex_unlock'
WAIT_FN = 'pthread_cond_wait'
SIGNAL_FNS = ('pthread_cond_signal', 'pthread_cond_broadcast')


class CallGraph:
    def __init__(self, prog):
        self.prog = prog
        self._prov = {}
        # slot table: (struct name, field idx) -> set of function names (with their module)
        self.slots = {}
        for m in prog.modules.values():
            for g in m.globals.values():
                if g.init is not None and g.ty is not None:
                    self._scan_init(m, g.ty, g.init)
            # function-local statics are globals too ('copy.pseudo_process')
        self.indirect_sites = []

    def prov(self, fn):
        k = fn.qname
        if k not in self._prov:
            self._prov[k] = Prov(self.prog, fn)
        return self._prov[k]

    def _scan_init(self, m, ty, val):
        if val[0] != 'agg':
            return
        if ty[0] == 'named':
            fields = m.structs.get(ty[1], [])
            for i, (t, v) in enumerate(val[1]):
                if v[0] == 'glob' and (v[1] in m.funcs or v[1] in self.prog.ext):
                    f = m.funcs.get(v[1]) or self.prog.ext.get(v[1])
                    self.slots.setdefault((ty[1], i), set()).add(f)
                elif v[0] == 'agg':
                    self._scan_init(m, t, v)
        elif ty[0] == 'array':
            for t, v in val[1]:
                self._scan_init(m, t, v)
        elif ty[0] == 'struct':
            for t, v in val[1]:
                self._scan_init(m, t, v)

    def targets(self, fn, ins):
        """defined functions a call may reach; [] for library calls.  Indirect calls must resolve through a
        constant function-pointer table slot, otherwise the analysis is broken."""
        name = ins.extra.get('callee')
        if name is not None:
            f = self.prog.resolve(fn.module, name)
            return [f] if f is not None else []
        P = self.prov(fn)
        e = P.expr(ins.extra['callee_val'])
        if e[0] == 'load':
            a = e[1]
            if a[2] and a[2][-1][0] == 'f':
                st = a[2][-1]
                # struct names may differ per module only by suffix; match by (name, idx) within same struct name
                key = (st[1], st[2])
                if key in self.slots:
                    return sorted(self.slots[key], key=lambda f: f.qname)
                # struct with no initialiser holding functions in that slot
                broken('indirect call through %s.%s at %s has no known targets' % (st[1], st[3] or st[2], fn.loc(ins)))
        broken('unresolvable indirect call at %s: %s' % (fn.loc(ins), render(e)))

    def slot_key(self, fn, ins):
        if ins.extra.get('callee') is not None:
            return None
        e = self.prov(fn).expr(ins.extra['callee_val'])
        if e[0] == 'load' and e[1][2] and e[1][2][-1][0] == 'f':
            st = e[1][2][-1]
            return (st[1], st[2], st[3])
        return None

    def reachable_funcs(self, roots):
        seen = {}
        st = list(roots)
        while st:
            f = st.pop()
            if f.qname in seen:
                continue
            seen[f.qname] = f
            for ins in f.calls():
                for t in self.targets(f, ins):
                    if t.qname not in seen:
                        st.append(t)
        return seen

    def callers_of(self, name, unit=None):
        out = []
        for f in self.prog.all_funcs():
            for ins in f.calls():
                if ins.extra.get('callee') == name:
                    if unit is None or self.prog.resolve(f.module, name) is None or \
                            self.prog.resolve(f.module, name).module.unit == unit:
                        out.append((f, ins))
        return out


# --------------------------------------------------------------------------
# thread model
# --------------------------------------------------------------------------

class ThreadModel:
    """Derives thread classes from pthread_create sites.  Class name = entry function name."""

    def __init__(self, prog, cg):
        self.prog = prog
        self.cg = cg
        self.classes = {}       # entry fn name -> dict(fn=Func, multi=bool, handle=key, creator sites)
        self.handle_class = {}  # handle location key -> class
        self.create_sites = {}  # (fn qname, insn idx key) -> class
        self.facts = []         # (description, ok) structural facts re-derived each run
        self._derive()

    def _derive(self):
        prog, cg = self.prog, self.cg
        pc = cg.callers_of('pthread_create')
        if len(pc) != 1:
            broken('thread model: expected exactly one pthread_create call site, found %d' % len(pc))
        xc, ins = pc[0]
        P = cg.prov(xc)
        start = P.expr(ins.ops[2])
        arg = P.expr(ins.ops[3])
        if start[0] != 'fn' or arg[0] != 'param':
            broken('thread model: pthread_create start routine/argument not of the expected shape in %s' % xc.name)
        tramp = prog.resolve(xc.module, start[1])
        if tramp is None:
            broken('thread model: start routine %s not defined' % start[1])
        # trampoline: calls arg->entry_func()
        ic = [i for i in tramp.calls() if i.extra.get('callee') is None]
        if len(ic) != 1:
            broken('thread model: trampoline %s does not contain exactly one indirect call' % tramp.name)
        sk = cg.slot_key(tramp, ic[0])
        if sk is None:
            broken('thread model: trampoline call is not through a struct slot')
        self.entry_slot = sk
        self.xcreate = xc
        self.trampoline = tramp
        argidx = arg[1]
        for f, cins in cg.callers_of(xc.name):
            if prog.resolve(f.module, xc.name) is not xc:
                continue
            Pf = cg.prov(f)
            a = Pf.expr(cins.ops[argidx])
            if not (a[0] == 'addr' and a[1][0] == 'G' and not a[2]):
                broken('thread model: xcreate argument is not the address of a global at %s' % f.loc(cins))
            gname = a[1][1].split(':')[-1]
            g = f.module.globals.get(gname)
            if g is None or g.init is None or g.init[0] != 'agg':
                broken('thread model: thread entry %s has no constant initialiser' % gname)
            ent = g.init[1][sk[1]][1]
            if ent[0] != 'glob':
                broken('thread model: thread entry %s slot is not a function' % gname)
            efn = prog.resolve(f.module, ent[1])
            if efn is None:
                broken('thread model: entry function %s undefined' % ent[1])
            in_loop = any(cins.block.name in body for body in cfg.loops(f).values())
            # handle: where is the result stored
            handle = None
            for s in f.insns():
                if s.op == 'store' and s.ops[0] == ('reg', cins.res):
                    handle = addr_key(Pf.addr(s.ops[1]))
            c = self.classes.setdefault(efn.name, dict(fn=efn, multi=False, handles=set(), sites=[]))
            c['multi'] = c['multi'] or in_loop
            if handle:
                c['handles'].add(handle)
                if handle in self.handle_class and self.handle_class[handle] != efn.name:
                    broken('thread model: handle %s used for two thread classes' % handle)
                self.handle_class[handle] = efn.name
            c['sites'].append((f, cins))
            self.create_sites[(f.qname, id(cins))] = efn.name
        if not self.classes:
            broken('thread model: no thread classes found')
        # what each class creates (transitively through callees, excluding other thread entries)
        self.creates = {}
        for cname, c in list(self.classes.items()) + [('main', dict(fn=prog.func('main', 'main')))]:
            fs = cg.reachable_funcs([c['fn']])
            made = set()
            for (fq, _), cls in self.create_sites.items():
                if fq in fs:
                    made.add(cls)
            self.creates[cname] = made
        # closure
        self.closure = {}
        for cname in self.creates:
            seen = set()
            st = list(self.creates[cname])
            while st:
                x = st.pop()
                if x in seen:
                    continue
                seen.add(x)
                st.extend(self.creates.get(x, ()))
            self.closure[cname] = seen

    def class_of_handle_expr(self, fn, ins):
        """pthread_join(handle, ...) -> class name"""
        P = self.cg.prov(fn)
        e = strip_ext(P.expr(ins.ops[0]))
        if e[0] != 'load':
            broken('thread model: pthread_join handle is not a load at %s' % fn.loc(ins))
        k = addr_key(e[1])
        if k not in self.handle_class:
            broken('thread model: pthread_join of unknown handle %s at %s' % (k, fn.loc(ins)))
        return self.handle_class[k]


# --------------------------------------------------------------------------
# typestate engine
# --------------------------------------------------------------------------

class Access:
    __slots__ = ('loc', 'kind', 'cls', 'locks', 'alive', 'fn', 'ins', 'heap_struct', 'fresh', 'volatile', 'whole', 'root')

    def site(self):
        return self.fn.loc(self.ins)

    def __repr__(self):
        return '<%s %s by %s locks=%s at %s>' % (self.kind, self.loc, self.cls, sorted(self.locks), self.site())


# library functions that receive object addresses: per argument 'r', 'w', 'rw' or '-' (ignored/sync object)
LIB_EFFECTS = {
    'sigemptyset': ['w'], 'sigaddset': ['rw', '-'], 'sigismember': ['r', '-'], 'sigpending': ['w'],
    'pthread_sigmask': ['-', 'r', 'w'], 'sigprocmask': ['-', 'r', 'w'], 'sigsuspend': ['r'],
    'sigaction': ['-', 'r', 'w'],
    'pthread_mutex_lock': ['-'], 'pthread_mutex_unlock': ['-'], 'pthread_cond_wait': ['-', '-'],
    'pthread_cond_signal': ['-'], 'pthread_cond_broadcast': ['-'],
    'pthread_create': ['w', '-', '-', '-'], 'pthread_join': ['-', '-'],
    'llvm.memcpy.p0i8.p0i8.i64': ['w', 'r', '-', '-'], 'llvm.memset.p0i8.i64': ['w', '-', '-', '-'],
    'llvm.memmove.p0i8.p0i8.i64': ['w', 'r', '-', '-'],
    'free': ['-'], 'setbuf': ['-', 'w'], 'strtok': ['-', 'r'], 'strchr': ['r', '-'], 'strcmp': ['r', 'r'],
    'lstat': ['r', 'w'], 'lstat64': ['r', 'w'], 'fstat': ['-', 'w'], 'fstat64': ['-', 'w'],
    'futimens': ['-', 'r'], 'read': ['-', 'w', '-'], 'write': ['-', 'r', '-'],
    'clock_gettime': ['-', 'w'], 'gettimeofday': ['w', '-'],
    'llvm.va_start': ['w'], 'llvm.va_end': ['w'], 'vfprintf': ['-', 'r', 'r'],
    'fprintf': None, 'printf': None, 'memcpy': ['w', 'r', '-'], 'strcpy': ['w', 'r'], 'strlen': ['r'],
    'strtol': ['r', 'w', '-'], 'getenv': ['r'], 'unlink': ['r'], 'open': None, 'open64': None,
    'strerror': ['-'], 'strrchr': ['r', '-'],
}


class Engine:
    """Forward disjunctive dataflow of (held mutexes, alive thread classes) with memoised function summaries."""

    def __init__(self, prog, cg, model):
        self.prog = prog
        self.cg = cg
        self.model = model
        self.mutexes = set()
        self.conds = set()
        for m in prog.modules.values():
            for g in m.globals.values():
                if g.ty == ('named', 'union.pthread_mutex_t'):
                    self.mutexes.add(prog.gkey(m, g.name))
                if g.ty == ('named', 'union.pthread_cond_t'):
                    self.conds.add(prog.gkey(m, g.name))
        self.violations = []      # (rule, fn, ins, detail)
        self.accesses = []
        self.lock_order = {}      # (a, b) -> site
        self.memo = {}
        self.inprogress = set()
        self.summaries = {}       # (root, fn.qname, locks) -> set of exit locks   (for role contracts)
        self.lock_sites = {'lock': set(), 'unlock': set(), 'wait': set(), 'signal': set()}
        self.cond_mutex = {}      # cond -> set(mutex)
        self._loops = {}
        self._joinkill = {}
        self.visited = {}         # root -> set of fn qnames
        self.visited_blocks = {}  # root -> set of (fn qname, block)
        self.states_at = {}       # (root, id(ins)) -> set of (locks, alive)
        self.record_states_for = set()
        self.cls = None
        self.mode = None
        self.modes = self._find_modes()
        self._eqcache = {}

    # ---- modes: one per constant 'struct process' object; indirect calls through process-> / task-> slots are
    # resolved inside the mode (sound because 'process' is assigned before any thread of the run exists; checked
    # by rule R2.process-assigned-solo)
    def _find_modes(self):
        modes = {}
        for m in self.prog.modules.values():
            for g in m.globals.values():
                if g.ty == ('named', 'struct.process') and g.init is not None and g.init[0] == 'agg':
                    slots = {}
                    for i, (t, v) in enumerate(g.init[1]):
                        if v[0] == 'glob':
                            f = self.prog.resolve(m, v[1])
                            slots[i] = [f] if f is not None else []
                        elif v[0] == 'null':
                            slots[i] = []
                        elif v[0] == 'cgep' and v[2][0] == 'glob':
                            tl = m.globals.get(v[2][1])
                            tslots = {}
                            if tl is not None and tl.init is not None and tl.init[0] == 'agg':
                                elems = tl.init[1] if tl.ty[0] == 'array' else [(tl.ty, tl.init)]
                                for t2, v2 in elems:
                                    if v2[0] == 'agg':
                                        for j, (t3, v3) in enumerate(v2[1]):
                                            if v3[0] == 'glob' and self.prog.resolve(m, v3[1]) is not None:
                                                tslots.setdefault(j, []).append(self.prog.resolve(m, v3[1]))
                            slots[i] = ('tasks', tslots)
                    modes[self.prog.gkey(m, g.name)] = slots
        if not modes:
            broken('no constant struct process objects found')
        return modes

    def targets(self, fn, ins):
        if ins.extra.get('callee') is not None or self.mode is None:
            return self.cg.targets(fn, ins)
        sk = self.cg.slot_key(fn, ins)
        if sk is None:
            return self.cg.targets(fn, ins)
        slots = self.modes[self.mode]
        if sk[0] == 'struct.process':
            r = slots.get(sk[1], [])
            return r if isinstance(r, list) else []
        if sk[0] == 'struct.task':
            for v in slots.values():
                if isinstance(v, tuple) and v[0] == 'tasks':
                    return v[1].get(sk[1], [])
            return []
        return self.cg.targets(fn, ins)

    def targets_mode(self, mode, fn, ins):
        old = self.mode
        self.mode = mode
        try:
            return self.targets(fn, ins)
        finally:
            self.mode = old

    def _is_main_test(self, fn, P, cond, depth=0):
        """br condition that is pthread_equal(pthread_self(), main_thread) != 0 -> True"""
        e = strip_casts(P.expr(cond))
        neg = False
        while e[0] == 'icmp' and e[3] == ('const', 0) and e[1] in ('ne', 'eq'):
            if e[1] == 'eq':
                neg = not neg
            e = strip_casts(e[2])
        if e[0] == 'call' and e[1] not in (None, 'pthread_equal') and depth < 2:
            # a small helper that returns exactly this test (`static bool in_main_thread(void)`)
            h = self.prog.resolve(fn.module, e[1])
            if h is not None and not e[2].ops:
                rets = [b for b in h.blocks.values() if b.term.op == 'ret' and b.term.ops]
                if len(rets) == 1 and len([i for i in h.insns() if i.op == 'call']) <= 2:
                    r = self._is_main_test(h, self.cg.prov(h), rets[0].term.ops[0], depth + 1)
                    if r is not None:
                        return r if not neg else (not r)
        if e[0] == 'call' and e[1] == 'pthread_equal':
            args = [strip_casts(P.expr(a)) for a in e[2].ops]
            kinds = sorted(a[0] for a in args)
            if kinds == ['call', 'load'] and any(a[0] == 'call' and a[1] == 'pthread_self' for a in args) \
                    and any(a[0] == 'load' and addr_key(a[1]).endswith('main_thread') for a in args):
                return (not neg)
        return None

    # ---- helpers
    def _mutex_arg(self, fn, ins, idx=0):
        e = self.cg.prov(fn).expr(ins.ops[idx])
        if e[0] == 'addr' and e[1][0] == 'G' and not e[2]:
            return e[1][1]
        broken('lock operation on something that is not a global mutex/condvar at %s: %s' % (fn.loc(ins), render(e)))

    def _join_kills(self, fn):
        """for pthread_join sites: returns (insn_kill {id(ins): cls}, edge_kill {(src,dst): set(cls)})"""
        if fn.qname in self._joinkill:
            return self._joinkill[fn.qname]
        ik = {}
        ek = {}
        lp = cfg.loops(fn)
        for ins in fn.calls('pthread_join'):
            cls = self.model.class_of_handle_expr(fn, ins)
            inl = [(h, body) for h, body in lp.items() if ins.block.name in body]
            if not inl:
                ik[id(ins)] = cls
            else:
                # innermost loop
                h, body = min(inl, key=lambda x: len(x[1]))
                for b in body:
                    for s in fn.blocks[b].succs:
                        if s not in body:
                            ek.setdefault((b, s), set()).add(cls)
        self._joinkill[fn.qname] = (ik, ek)
        return ik, ek

    # ---- main entry
    def run_root(self, root, fn, locks=frozenset(), alive=frozenset(), cls=None, mode=None):
        self.root = root
        self.cls = cls or root
        self.mode = mode
        self.visited.setdefault(root, set())
        nb = tuple(None for _ in fn.params)
        return self.analyze(fn, (frozenset(locks), frozenset(alive)), nb)

    def analyze(self, fn, state, bind):
        key = (self.root, fn.qname, state, bind)
        if key in self.memo:
            return self.memo[key]
        if key in self.inprogress:
            return frozenset([state])       # recursion: assume neutral (verified: no lock op in recursive code)
        self.inprogress.add(key)
        self.visited[self.root].add(fn.qname)
        P = self.cg.prov(fn)
        ik, ek = self._join_kills(fn)
        entry = fn.entry.name
        inset = {entry: {state}}
        work = [entry]
        exits = set()
        vb = self.visited_blocks.setdefault(self.root, set())
        while work:
            bn = work.pop()
            vb.add((fn.qname, bn))
            blk = fn.blocks[bn]
            outs = set()
            for st in list(inset[bn]):
                cur = {st}
                for ins in blk.insns:
                    if ins.op == 'dbg':
                        continue
                    nxt = set()
                    for s in cur:
                        nxt |= self.transfer(fn, P, ins, s, bind, ik)
                    cur = nxt
                    if not cur:
                        break
                outs |= cur
            t = blk.term
            if t.op == 'ret':
                exits |= outs
            succs = blk.succs
            if t.op == 'br' and len(t.extra['targets']) == 2:
                pol = self._is_main_test(fn, P, t.ops[0])
                if pol is not None:
                    is_main = (self.cls in ('main', 'handler'))
                    succs = [t.extra['targets'][0 if (pol == is_main) else 1]]
            for sname in succs:
                kill = ek.get((bn, sname))
                for s in outs:
                    s2 = (s[0], s[1] - kill) if kill else s
                    if s2 not in inset.setdefault(sname, set()):
                        inset[sname].add(s2)
                        if sname not in work:
                            work.append(sname)
        self.inprogress.discard(key)
        res = frozenset(exits)
        self.memo[key] = res
        self.summaries.setdefault((self.root, fn.qname, state[0]), set()).update(s[0] for s in exits)
        return res

    def transfer(self, fn, P, ins, state, bind, ik):
        locks, alive = state
        op = ins.op
        if id(ins) in self.record_states_for:
            self.states_at.setdefault((self.root, id(ins)), set()).add(state)
        if op == 'load':
            self._access(fn, P, ins, ins.ops[0], 'r', state, bind)
            return {state}
        if op == 'store':
            self._access(fn, P, ins, ins.ops[1], 'w', state, bind)
            return {state}
        if op != 'call':
            return {state}
        name = ins.extra.get('callee')
        if name == LOCK_FN:
            m = self._mutex_arg(fn, ins)
            if m not in self.mutexes:
                broken('lock of unknown mutex %s at %s' % (m, fn.loc(ins)))
            self.lock_sites['lock'].add((fn.qname, id(ins), fn.loc(ins)))
            if m in locks:
                self.violations.append(('double-lock', fn, ins, 'mutex %s already held' % m))
                return {state}
            for h in locks:
                self.lock_order.setdefault((h, m), fn.loc(ins))
            return {(locks | {m}, alive)}
        if name == UNLOCK_FN:
            m = self._mutex_arg(fn, ins)
            self.lock_sites['unlock'].add((fn.qname, id(ins), fn.loc(ins)))
            if m not in locks:
                self.violations.append(('unlock-unheld', fn, ins, 'mutex %s not held (held: %s)' % (m, sorted(locks))))
                return {state}
            return {(locks - {m}, alive)}
        if name == WAIT_FN:
            c = self._mutex_arg(fn, ins, 0)
            m = self._mutex_arg(fn, ins, 1)
            self.lock_sites['wait'].add((fn.qname, id(ins), fn.loc(ins)))
            self.cond_mutex.setdefault(c, set()).add(m)
            if m not in locks:
                self.violations.append(('wait-unheld', fn, ins, 'cond_wait with mutex %s not held' % m))
            if len(locks) > 1:
                self.violations.append(('wait-holding-other', fn, ins,
                                        'cond_wait(%s) while also holding %s' % (m, sorted(locks - {m}))))
            return {state}
        if name in SIGNAL_FNS:
            self.lock_sites['signal'].add((fn.qname, id(ins), fn.loc(ins)))
            return {state}
        if name == 'pthread_join':
            cls = ik.get(id(ins))
            if cls is not None:
                # joining a class ends it and everything it created (checked: its exit alive set is empty)
                dead = {cls} | self.model.closure.get(cls, set())
                return {(locks, alive - dead)}
            return {state}
        # thread creation
        cls = self.model.create_sites.get((fn.qname, id(ins)))
        if cls is not None:
            alive = alive | {cls} | self.model.closure.get(cls, set())
            # still analyse xcreate body (failx path)
            outs = set()
            for t in self.targets(fn, ins):
                outs |= self.analyze(t, (locks, state[1]), self._bind(fn, P, ins, t, bind))
            return {(l, alive) for (l, a) in outs} if outs else set()
        targets = self.targets(fn, ins)
        if not targets:
            self._libcall(fn, P, ins, name, state, bind)
            if name in self.prog.noreturn:
                return set()
            return {state}
        outs = set()
        for t in targets:
            outs |= self.analyze(t, state, self._bind(fn, P, ins, t, bind))
        return outs

    def _bind(self, fn, P, ins, callee, bind):
        out = []
        for i, (ty, pname) in enumerate(callee.params):
            b = None
            if i < len(ins.ops):
                e = P.expr(ins.ops[i])
                if e[0] == 'addr':
                    b = self._resolve_addr(e, bind)
            out.append(b)
        return tuple(out)

    def _resolve_addr(self, a, bind):
        """address expr -> (gkey, path) if it denotes (part of) a global, else None"""
        root, path = a[1], a[2]
        if root[0] == 'G':
            return (root[1], path)
        if root[0] == 'V' and root[1][0] == 'param':
            b = bind[root[1][1]] if root[1][1] < len(bind) else None
            if b is not None:
                return (b[0], b[1] + path)
        return None

    def _access(self, fn, P, ins, ptr, kind, state, bind):
        a = P.addr(ptr)
        g = self._resolve_addr(a, bind)
        acc = None
        if g is not None:
            acc = Access()
            acc.loc = ('G', g[0], _norm_path(g[1]))
            acc.heap_struct = None
        elif a[1][0] == 'V':
            # heap / unknown pointer: remember struct type of the last field step for type-based rules
            fsteps = [s for s in a[2] if s[0] == 'f']
            if not fsteps:
                return
            acc = Access()
            acc.loc = ('H', fsteps[0][1], _norm_path(a[2]))
            acc.heap_struct = fsteps[0][1]
        else:
            return
        acc.kind = kind
        acc.cls = self.cls
        acc.root = self.root
        acc.locks, acc.alive = state
        acc.fn = fn
        acc.ins = ins
        acc.fresh = None
        acc.whole = False
        acc.volatile = bool(ins.extra.get('volatile'))
        self.accesses.append(acc)

    def _libcall(self, fn, P, ins, name, state, bind):
        # struct assignment through pointers (`wblk->next = iblk->pos` is a memcpy): accesses to the heap objects
        if name and (name.startswith(('llvm.memcpy', 'llvm.memmove', 'llvm.memset')) or name in ('memcpy', 'memmove', 'memset')):
            for i, k in enumerate(('w',) if 'memset' in name else ('w', 'r')):
                if i < len(ins.ops):
                    e0 = P.expr(ins.ops[i])
                    if e0[0] == 'addr' and e0[1][0] == 'V' and any(s_[0] == 'f' for s_ in e0[2]):
                        self._access(fn, P, ins, ins.ops[i], k, state, bind)
        # object addresses of globals handed to library functions
        eff = LIB_EFFECTS.get(name, 'unknown')
        for i, v in enumerate(ins.ops):
            e = P.expr(v)
            if e[0] != 'addr':
                continue
            g = self._resolve_addr(e, bind)
            if g is None:
                continue
            gk = g[0]
            if gk in self.mutexes or gk in self.conds:
                continue
            gname = gk.split(':')[-1]
            mod = fn.module
            gl = None
            for m in self.prog.modules.values():
                if gname in m.globals and self.prog.gkey(m, gname) == gk:
                    gl = self.prog.global_owner(m, gname)
                    break
            if gl is not None and gl.const:
                continue
            if eff == 'unknown':
                broken('address of global %s passed to unknown library function %s at %s' % (gk, name, fn.loc(ins)))
            if eff is None:
                k = 'r'
            else:
                k = eff[i] if i < len(eff) else 'r'
            if k == '-':
                continue
            for kk in (('r', 'w') if k == 'rw' else (k,)):
                acc = Access()
                acc.kind = kk
                acc.cls = self.cls
                acc.root = self.root
                acc.locks, acc.alive = state
                acc.fn = fn
                acc.ins = ins
                acc.heap_struct = None
                acc.fresh = None
                acc.volatile = False
                acc.loc = ('G', gk, _norm_path(g[1]))
                acc.whole = True
                self.accesses.append(acc)




def _norm_path(path):
    out = []
    for st in path:
        if st[0] == 'f':
            out.append(st[3] if st[3] else '#%d' % st[2])
        else:
            out.append('*')
    return tuple(out)


def paths_overlap(p, q):
    n = min(len(p), len(q))
    return p[:n] == q[:n]


# --------------------------------------------------------------------------
# whole-program run
# --------------------------------------------------------------------------

class Analysis:
    """Runs the engine for every (thread class, mode) root and exposes the results."""

    def __init__(self, prog):
        self.prog = prog
        self.cg = CallGraph(prog)
        self.model = ThreadModel(prog, self.cg)
        self.engine = Engine(prog, self.cg, self.model)
        e = self.engine
        model = self.model
        mainfn = prog.func('main', 'main')
        # which function assigns 'process' for each mode, and which classes that mode runs
        self.mode_classes = {}
        self.mode_setter = {}
        pk = None
        for m in prog.modules.values():
            if 'process' in m.globals and not m.globals['process'].external and \
                    m.globals['process'].ty[0] == 'ptr' and m.globals['process'].ty[1] == ('named', 'struct.process'):
                pk = prog.gkey(m, 'process')
        if pk is None:
            broken('global pointer `process` vanished')
        self.process_key = pk
        self.process_stores = []
        for f in prog.all_funcs():
            P = self.cg.prov(f)
            for ins in f.insns():
                if ins.op == 'store':
                    a = P.addr(ins.ops[1])
                    if a[1] == ('G', pk) and not a[2]:
                        self.process_stores.append((f, ins, P.expr(ins.ops[0])))
        for f, ins, v in self.process_stores:
            vals = []
            if v[0] == 'addr' and v[1][0] == 'G':
                vals = [v[1][1]]
            elif v[0] == 'param':
                for cf, cins in self.cg.callers_of(f.name):
                    if prog.resolve(cf.module, f.name) is f:
                        a = self.cg.prov(cf).expr(cins.ops[v[1]])
                        if a[0] == 'addr' and a[1][0] == 'G':
                            vals.append(a[1][1])
                        else:
                            broken('`process` assigned from a non-constant at %s' % cf.loc(cins))
            else:
                broken('`process` assigned from a non-constant at %s' % f.loc(ins))
            made = set()
            fs = self.cg.reachable_funcs([f])
            for (fq, _), cls in model.create_sites.items():
                if fq in fs:
                    made.add(cls)
                    made |= model.closure.get(cls, set())
            for mode in vals:
                if mode not in e.modes:
                    broken('`process` assigned %s which is not a constant struct process' % mode)
                self.mode_classes.setdefault(mode, set()).update(made)
                self.mode_setter[mode] = f
        for mode in e.modes:
            if mode not in self.mode_classes:
                broken('struct process %s is never assigned to `process`' % mode)
        # roots
        self.roots = []
        # record main's states at sigsuspend for the handler root
        sus = [i for f in prog.all_funcs() for i in f.calls('sigsuspend')]
        for i in sus:
            e.record_states_for.add(id(i))
        e.run_root('main', mainfn, cls='main', mode=None)
        self.roots.append(('main', 'main', None))
        halive = set()
        for i in sus:
            for st in e.states_at.get(('main', id(i)), ()):
                halive |= st[1]
        # handler: functions installed with sigaction via xaction(sig, handler)
        self.handlers = set()
        for f in prog.all_funcs():
            P = self.cg.prov(f)
            for ins in f.calls():
                for a in ins.ops:
                    x = P.expr(a) if a[0] in ('glob',) else None
                    if x is not None and x[0] == 'fn' and x[1] in f.module.funcs and ins.extra.get('callee') in ('xaction', 'sigaction', 'signal'):
                        self.handlers.add(f.module.funcs[x[1]])
        for h in sorted(self.handlers, key=lambda f: f.qname):
            e.run_root('handler', h, alive=frozenset(halive), cls='handler', mode=None)
            self.roots.append(('handler', 'handler', None))
        for mode, classes in sorted(self.mode_classes.items()):
            allc = set(classes) | {'main'}
            for cls in sorted(classes):
                c = model.classes[cls]
                label = '%s@%s' % (cls, mode)
                if model.creates.get(cls):
                    alive = frozenset({'main'})       # a creating class starts with only its ancestors alive
                else:
                    alive = frozenset(allc - (set() if c['multi'] else {cls}))
                e.run_root(label, c['fn'], alive=alive, cls=cls, mode=mode)
                self.roots.append((label, cls, mode))

    def mode_of_root(self, root):
        return root.split('@', 1)[1] if '@' in root else None


def concurrent(a, b, model):
    """may accesses a and b (Access objects) happen in parallel?"""
    ca = 'main' if a.cls == 'handler' else a.cls
    cb = 'main' if b.cls == 'handler' else b.cls
    ma = a.root.split('@', 1)[1] if '@' in a.root else None
    mb = b.root.split('@', 1)[1] if '@' in b.root else None
    if ma is not None and mb is not None and ma != mb:
        return False
    if ca == cb:
        if ca == 'main':
            return False
        if not model.classes[ca]['multi']:
            return False
        return ca in a.alive and cb in b.alive
    return cb in a.alive and ca in b.alive

"""Rules shared by C03, C08, C09 (and C02): purity of the codec units (R8), definite assignment in SSA form (R9),
re-establishment of locals in resumable functions, and configuration isolation of codec call sites."""
import cfg
from irdb import broken, reg_var_names, var_roles
from prov import Prov, strip_casts, strip_ext, addr_key, path_key, render

CODEC_UNITS = ('encode', 'divbwt', 'decode', 'parse', 'crctab')
ALLOWED_EXTERNAL = {'abort', 'free', 'xmalloc', 'ntohl', 'htonl', 'memcpy', 'memset', 'memmove', 'memcmp',
                    '__assert_fail'}     # (assert-enabled configuration: a failed assertion aborts)
# globals whose value depends on the schedule, the worker count, thread identity or time
SCHEDULE_DEPENDENT = {'num_worker', 'work_units', 'in_slots', 'out_slots', 'total_in_slots', 'total_out_slots',
                      'total_work_units', 'thread_id', 'next_task', 'eof', 'max_mem'}
SCHEDULE_CALLS = {'pthread_self', 'time', 'clock', 'clock_gettime', 'gettimeofday', 'getpid', 'rand', 'random',
                  'sysconf', 'getenv'}


def purity(ctx, prog, pfx, units=CODEC_UNITS):
    """R8: codec units have no memory between calls and see nothing but their arguments and constant tables"""
    for unit in units:
        m = prog.module(unit)
        mutable = [n for n, g in m.globals.items() if not g.external and not g.const and not n.startswith('.str')
                   and not n.startswith('__')]
        # crc_table is declared without const; it counts as constant iff nothing in the program stores to it
        stores_anywhere = {}
        if mutable:
            for f in prog.all_funcs():
                P = None
                for i in f.insns():
                    if i.op == 'store' or (i.op == 'call' and (i.extra.get('callee') or '').startswith('llvm.mem')):
                        for n in mutable:
                            if ('@' + n) in i.text:
                                P = P or Prov(prog, f)
                                a = P.addr(i.ops[1] if i.op == 'store' else i.ops[0])
                                if a[1][0] == 'G' and a[1][1].split(':')[-1] == n:
                                    stores_anywhere.setdefault(n, []).append(f.loc(i))
        really_mutable = [n for n in mutable if n in stores_anywhere]
        ctx.ob(pfx + '.purity', '%s.c defines no writable state (globals or function-local statics)' % unit,
               'src/%s.c' % unit, not really_mutable, 'written: %s' % stores_anywhere if really_mutable else
               'globals: %s (never stored to)' % mutable if mutable else 'only constant tables', evals=len(m.globals))
        bad_calls, gstores, gloads = [], [], []
        nf = 0
        for f in m.funcs.values():
            nf += 1
            P = Prov(prog, f)
            for i in f.insns():
                if i.op == 'call':
                    c = i.extra.get('callee')
                    if c is None:
                        bad_calls.append('%s: indirect call' % f.loc(i))
                    elif c.startswith('llvm.'):
                        continue
                    elif prog.resolve(m, c) is not None and prog.resolve(m, c).module.unit in units:
                        continue
                    elif c not in ALLOWED_EXTERNAL:
                        bad_calls.append('%s calls %s at %s' % (f.name, c, f.loc(i)))
                elif i.op == 'store':
                    a = P.addr(i.ops[1])
                    if a[1][0] == 'G':
                        gstores.append('%s stores %s at %s' % (f.name, addr_key(a), f.loc(i)))
                elif i.op == 'load':
                    a = P.addr(i.ops[0])
                    if a[1][0] == 'G':
                        owner = prog.global_owner(m, a[1][1].split(':')[-1])
                        if owner is None or not (owner.const or owner.name == 'crc_table'):
                            gloads.append('%s reads %s at %s' % (f.name, addr_key(a), f.loc(i)))
        ctx.ob(pfx + '.purity', '%s.c calls nothing outside the codec except %s' % (unit, '/'.join(sorted(
            ALLOWED_EXTERNAL - {'__assert_fail'}))), 'src/%s.c' % unit, not bad_calls, '; '.join(bad_calls[:4]) or '%d functions' % nf, evals=nf)
        ctx.ob(pfx + '.purity', '%s.c stores to no global and reads only constant tables' % unit, 'src/%s.c' % unit,
               not gstores and not gloads, '; '.join((gstores + gloads)[:4]), evals=nf)


def uninit(ctx, prog, pfx, units=None):
    """R9 in SSA form: after mem2reg a read of a local that is not assigned on some path is an `undef` flowing
    through phis.  A register *may be undef* if it is a phi with an undef input or with a may-be-undef input; the
    rule: no instruction other than a phi uses a may-be-undef register (the program text then never reads it)."""
    nfun = 0
    nundef = 0
    for f in prog.all_funcs():
        if units is not None and f.module.unit not in units:
            continue
        nfun += 1
        may = set()
        changed = True
        direct = []
        # short-circuit lowering: the edge lhs -> `phi i1 [false, lhs], [c, rhs]; br` always continues to the
        # false target, it never really "enters" the merge block; other phis of that block cannot take their
        # lhs input on a path that goes on into the guarded code (constant-phi edge threading)
        _, redirect = cfg.threaded_successors(f)

        def feasible(phi, src):
            return (src, phi.block.name) not in redirect
        for i in f.insns():
            if i.op == 'dbg':
                continue
            if i.op == 'phi':
                for v, src in i.extra['incoming']:
                    if v[0] == 'undef':
                        nundef += 1
                        if feasible(i, src):
                            may.add(i.res)
                continue
            for o in i.ops:
                if o[0] == 'undef':
                    nundef += 1
                    direct.append(i)
        while changed:
            changed = False
            for i in f.insns():
                if i.op == 'phi' and i.res not in may and any(
                        v[0] == 'reg' and v[1] in may and feasible(i, src) for v, src in i.extra['incoming']):
                    may.add(i.res)
                    changed = True
        if not may and not direct:
            continue
        names = reg_var_names(f)
        bad = []
        confirmed = None
        for i in f.insns():
            if i.op in ('phi', 'dbg'):
                continue
            for o in i.ops:
                if o[0] == 'reg' and o[1] in may:
                    if confirmed is None:
                        confirmed = _feasible_undef_reads(f, may)
                    if confirmed is not None and (id(i), o[1]) not in confirmed:
                        continue        # only along paths that take both sides of one and the same test
                    bad.append('%s: local `%s` may be read before it is assigned' % (f.loc(i), names.get(o[1], o[1])))
            if i in direct:
                bad.append('%s: uninitialised value used directly' % f.loc(i))
        ctx.ob(pfx + '.definite_assignment', '%s(): no local is read before it is assigned on any path (%d '
               'path-merge candidates examined)' % (f.name, len(may)), f.loc(), not bad, '; '.join(sorted(set(bad))[:4]),
               evals=len(may) + 1)
    ctx.ob(pfx + '.definite_assignment', 'all %d functions: no use of an unassigned local' % nfun, 'src/', True,
           '%d undef operand(s) in the whole program, all confined to merge points that are never read' % nundef,
           evals=nfun, nontrivial=False)
    return nfun


def _cond_root(f, v, depth=0):
    """(register, polarity) a branch condition is a pure function of: casts, `!= 0`, `== 0`, `xor true` peeled"""
    pol = True
    while v[0] == 'reg' and depth < 12:
        depth += 1
        d = f.defs.get(v[1])
        if d is None:
            break
        if d.op in ('zext', 'sext', 'trunc') and d.ops[0][0] == 'reg':
            v = d.ops[0]
            continue
        if d.op == 'icmp' and d.extra['pred'] in ('ne', 'eq') and d.ops[1] in (('int', 0), ('zero',)) and d.ops[0][0] == 'reg':
            if d.extra['pred'] == 'eq':
                pol = not pol
            v = d.ops[0]
            continue
        if d.op == 'xor' and d.ops[1] == ('int', 1) and d.ops[0][0] == 'reg' and d.ty == ('int', 1):
            pol = not pol
            v = d.ops[0]
            continue
        break
    return (v[1], pol) if v[0] == 'reg' else None


def _feasible_undef_reads(f, may, budget=20000):
    """{(id(insn), reg)} of the reads of a may-be-undef register that lie on a path along which every SSA value
    tested twice takes the same side both times (a test result is forgotten when its defining instruction runs
    again).  None: search too large, no filtering."""
    defblock = {}
    for b in f.blocks.values():
        for i in b.insns:
            if i.res:
                defblock[i.res] = b.name
    found = set()
    seen = set()
    work = [(f.entry.name, None, frozenset(), frozenset())]
    steps = 0
    while work:
        bn, prev, undef, dec = work.pop()
        key = (bn, prev, undef, dec)
        if key in seen:
            continue
        seen.add(key)
        steps += 1
        if steps > budget:
            return None
        b = f.blocks[bn]
        # a value recomputed in this block is a new value: what was learnt about the old one is void
        dec = frozenset((r, v) for r, v in dec if defblock.get(r) != bn)
        und = set(undef)
        newu = {}
        for i in b.insns:
            if i.op != 'phi':
                continue
            u = False
            for v, src in i.extra['incoming']:
                if src == prev:
                    u = v[0] == 'undef' or (v[0] == 'reg' and v[1] in undef)
            newu[i.res] = u
        for r, u in newu.items():
            (und.add if u else und.discard)(r)
        for i in b.insns:
            if i.op in ('phi', 'dbg'):
                continue
            for o in i.ops:
                if o[0] == 'reg' and o[1] in und:
                    found.add((id(i), o[1]))
        t = b.term
        und = frozenset(x for x in und if x in may)
        if t.op == 'br' and len(t.extra['targets']) == 2 and t.ops:
            root = _cond_root(f, t.ops[0])
            if root is not None:
                r, pol = root
                known = dict(dec).get(r)
                for side, tgt in ((True, t.extra['targets'][0]), (False, t.extra['targets'][1])):
                    val = side == pol       # value of the root on this edge
                    if known is not None and known != val:
                        continue
                    work.append((tgt, bn, und, frozenset(set(dec) | {(r, val)})))
                continue
        for tgt in dict.fromkeys(t.extra.get('targets', []) if t.op in ('br', 'switch') else []):
            work.append((tgt, bn, und, dec))
    return found


def resume(ctx, prog, pfx):
    """Resumable decoder functions.  retrieve() returns MORE from inside its loops and is re-entered through
    `switch (rs->state)` at the label following the return; the re-entry blocks reload the bit-stream locals
    (RESTORE).  A phi that merges the re-entry path with the fall-through path must therefore take, from the
    re-entry side, a value computed *inside* the re-entry region; anything else (a constant initialiser, an entry
    value, undef) is a local that silently loses its value across a suspension."""
    f = prog.func('decode', 'retrieve')
    sw = [i for i in f.insns() if i.op == 'switch' and i.block is f.entry or (i.op == 'switch' and
          strip_casts(Prov(prog, f).expr(i.ops[0]))[0] == 'load' and
          path_key(strip_casts(Prov(prog, f).expr(i.ops[0]))[1][2]).endswith('.state'))]
    if len(sw) != 1:
        broken('retrieve(): dispatch switch on rs->state not found')
    sw = sw[0]
    dom = cfg.dominators(f)
    names = reg_var_names(f)
    cases = sorted(sw.extra['cases'])
    ctx.floor(pfx + ' retrieve(): resume labels', len(cases), 5)
    first = min(c[0] for c in cases)
    nphi = 0
    bad = []
    for cv, T in cases:
        if cv == first:
            continue
        R = {bn for bn in f.blocks if bn in dom and T in dom[bn]}
        for i in f.insns():
            if i.op != 'phi' or i.block.term.op == 'ret':
                continue        # (the merge of return values is not a local of the source)
            for v, src in i.extra['incoming']:
                if src not in R or i.block.name in R:
                    continue
                nphi += 1
                ok = v[0] == 'reg' and v[1] in f.defs and f.defs[v[1]].block.name in R
                if not ok:
                    bad.append('local `%s` is live across the suspension point resumed at state %d (%s) without being '
                               're-established: re-entry supplies %s' % (names.get(i.res, i.res), cv, f.loc(i),
                                                                         'undef' if v[0] == 'undef' else 'a stale value'))
    ctx.ob(pfx + '.resume', 'retrieve(): every local that is live across a suspension point is re-established on '
           're-entry', f.loc(sw), not bad, '; '.join(sorted(set(bad))[:3]) or '%d merge inputs at %d resume labels' % (
               nphi, len(cases) - 1), evals=nphi)
    # every `return MORE` is preceded by SAVE() and a store of the state constant that is the case label which
    # immediately follows the return
    P = Prov(prog, f)
    from props.c05 import ret_sources
    E = __import__('irdb').enumerators(f.module)
    more = ret_sources(f).get(E['MORE'], [])
    ctx.floor(pfx + ' retrieve(): return MORE sites', len(more), 5)
    case_by_const = {cv: T for cv, T in cases}
    bad = []
    for bn in more:
        b = f.blocks[bn]
        st = [i for i in b.insns if i.op == 'store' and path_key(P.addr(i.ops[1])[2]).endswith('.state')]
        if len(st) != 1 or strip_casts(P.expr(st[0].ops[0]))[0] != 'const':
            bad.append('%s: return MORE without a constant store to rs->state' % f.loc(b.term))
            continue
        k = strip_casts(P.expr(st[0].ops[0]))[1]
        if k not in case_by_const:
            bad.append('%s: state %d has no resume label' % (f.loc(st[0]), k))
            continue
        # the label resumed must be the one textually after this suspension: same source line (NEED macro)
        T = case_by_const[k]
        if f.blocks[T].first_line != st[0].line:
            bad.append('%s: state %d resumes at line %s, not after this suspension point' % (
                f.loc(st[0]), k, f.blocks[T].first_line))
        # SAVE(): stores to bs->buff, bs->live, bs->data and ds->block_size dominate the return
        need = {'.buff', '.live', '.data', '.block_size'}
        have = set()
        for pb in [bn] + [x for x in dom[bn]]:
            for i in f.blocks[pb].insns:
                if i.op == 'store':
                    pk = path_key(P.addr(i.ops[1])[2])
                    if pk in need and (pb == bn or True):
                        have.add(pk)
        if need - have:
            bad.append('%s: suspension without SAVE() of %s' % (f.loc(b.term), sorted(need - have)))
    ctx.ob(pfx + '.resume', 'every suspension of retrieve() saves the bit-stream position and records the state whose '
           'label follows it', f.loc(), not bad, '; '.join(bad[:3]) or '%d suspension points' % len(more), evals=len(more))
    # (emit()'s resume discipline is decided by the abstract walk of lib/unrle.py: unrle_walk)


def call_site_isolation(ctx, prog, pfx, unit, callees, allowed_globals):
    """arguments of codec entry points and the branch conditions that decide whether they are called have no
    schedule-dependent leaf"""
    m = prog.module(unit)
    n = 0
    bad = []
    for f in m.funcs.values():
        P = Prov(prog, f)
        for c in f.calls():
            name = c.extra.get('callee')
            if name not in callees:
                continue
            n += 1
            for k, o in enumerate(c.ops):
                for leaf in P.leaves(P.expr(o)):
                    lk = leaf_name(leaf)
                    if lk is None:
                        continue
                    base = lk.split(':')[-1].split('.')[0].split('[')[0]
                    if base in SCHEDULE_DEPENDENT or lk in SCHEDULE_CALLS:
                        bad.append('%s: argument %d of %s() depends on %s' % (f.loc(c), k, name, lk))
                    elif lk.startswith('G:') and base not in allowed_globals and not lk.startswith('G:%s:' % unit):
                        bad.append('%s: argument %d of %s() depends on global %s' % (f.loc(c), k, name, lk))
    ctx.floor(pfx + ' codec call sites in %s.c' % unit, n, len(callees) - 1)
    ctx.ob(pfx + '.isolation', 'codec entry points called from %s.c receive nothing that depends on the schedule, the '
           'worker count, thread identity or time' % unit, 'src/%s.c' % unit, not bad, '; '.join(sorted(set(bad))[:4]) or
           '%d call sites' % n, evals=n)


def leaf_name(leaf):
    if leaf[0] == 'load':
        a = leaf[1]
        if a[1][0] == 'G':
            return addr_key(a)
        return None
    if leaf[0] == 'call':
        return leaf[1]
    return None


def schedule_values_confined(ctx, prog, pfx, units, skip_prefixes=('can_',), skip_names=('init', 'uninit')):
    """In the task functions of the given units, a value loaded from a schedule-dependent counter (work_units,
    out_slots, num_worker, ...) is used only to update such a counter (x++ / x--) or is compared with a constant or
    another such counter; it never flows into data handed to the codec or stored into a block."""
    bad = []
    n = 0
    for unit in units:
        m = prog.module(unit)
        for f in m.funcs.values():
            if f.name.startswith(skip_prefixes) or f.name in skip_names:
                continue
            P = Prov(prog, f)
            users = {}
            for i in f.insns():
                if i.op == 'dbg':
                    continue
                for o in i.ops:
                    if o[0] == 'reg':
                        users.setdefault(o[1], []).append(i)

            def is_sched(a):
                return a[1][0] == 'G' and a[1][1].split(':')[-1] in SCHEDULE_DEPENDENT

            for i in f.insns():
                if i.op != 'load' or not is_sched(P.addr(i.ops[0])):
                    continue
                n += 1
                work = [(i.res, 0)]
                seen = set()
                while work:
                    r, d = work.pop()
                    if r in seen or r is None:
                        continue
                    seen.add(r)
                    for u in users.get(r, []):
                        if u.op == 'br' or (u.op in ('icmp', 'trunc', 'zext') and all(
                                x.op == 'br' and _assert_branch(f, x) for x in users.get(u.res, []))):
                            if u.op != 'br' or _assert_branch(f, u):
                                continue        # assert(...) in the assert-enabled configuration
                        if u.op == 'store':
                            if u.ops[0] == ('reg', r) and is_sched(P.addr(u.ops[1])):
                                continue
                            bad.append('%s: value of %s flows into a store to %s' % (
                                f.loc(u), addr_key(P.addr(i.ops[0])), addr_key(P.addr(u.ops[1]))[:60]))
                        elif u.op in ('add', 'sub', 'zext', 'sext', 'trunc') and d < 3:
                            work.append((u.res, d + 1))
                        elif u.op == 'icmp':
                            # scheduling decisions belong to the can_*() predicates; a task body that branches on a
                            # counter makes what it does to the block depend on the schedule
                            bad.append('%s: task code branches on %s' % (f.loc(u), addr_key(P.addr(i.ops[0]))))
                        elif u.op == 'call':
                            c = u.extra.get('callee') or ''
                            bad.append('%s: value of %s is passed to %s()' % (f.loc(u), addr_key(P.addr(i.ops[0])), c))
                        else:
                            bad.append('%s: value of %s is used by `%s`' % (f.loc(u), addr_key(P.addr(i.ops[0])), u.op))
    ctx.ob(pfx + '.isolation', 'scheduler counters (work_units, out_slots, num_worker, ...) read in task code of %s '
           'only update counters (x++/x--); task bodies neither branch on them nor let them flow into block data or codec '
           'arguments (scheduling decisions live in the can_*() predicates)' %
           '/'.join(units), 'src/', not bad, '; '.join(sorted(set(bad))[:4]) or '%d loads' % n, evals=n)


def emit_symbol_law(ctx, prog, pfx):
    """emit(): conservation of decoded symbols.  `a` counts the symbols still to be fetched from the inverse-BWT list;
    every `if (!a--) break;` that falls through has consumed one, and must be followed by exactly one fetch
    `t[p >> 8]` before the function suspends or returns.  The law #consumed - #fetched == 0 is decided on every path
    from the state dispatch to the exit (a suspension that lands between the two loses or duplicates a symbol)."""
    import cfg as _cfg
    from prov import peel_cond, cmp_norm
    f = prog.func('decode', 'emit')
    P = Prov(prog, f)
    names = reg_var_names(f)
    A_NAME = var_roles(f, P).get('.rle_avail', 'a')     # the local that counts the symbols still to fetch
    consume_edges = {}      # block -> successor that means "a was non-zero, one symbol consumed"
    for b in f.blocks.values():
        t = b.term
        if t.op != 'br' or len(t.extra['targets']) != 2:
            continue
        c, pol = peel_cond(P.expr(t.ops[0]))
        c = strip_casts(c)
        # `!a--`  ==  (a_old == 0): after peeling, the core is a_old itself with inverted polarity, or icmp eq a,0
        core = c
        zero_on_true = None
        cn = cmp_norm(c)
        if cn is not None and cn[2] == ('const', 0) and cn[0] in ('eq', 'ne'):
            core = strip_casts(cn[1])
            zero_on_true = (cn[0] == 'eq') == pol
        else:
            zero_on_true = not pol
        # the decrement of `a` in this block whose old value is the one tested
        dec = [i for i in b.insns if i.op == 'add' and i.ops[1] == ('int', -1) and names.get(i.res) == A_NAME and
               strip_casts(P.expr(i.ops[0])) == core]
        if dec:
            consume_edges[b.name] = t.extra['targets'][1] if zero_on_true else t.extra['targets'][0]
    fetches = {}
    for b in f.blocks.values():
        n = 0
        for i in b.insns:
            if i.op == 'load' and i.ty == ('int', 32):
                a = P.addr(i.ops[0])
                if a[1][0] == 'V' and a[2] and a[2][-1][0] == 'i' and isinstance(a[2][-1][1], tuple):
                    ix = strip_casts(a[2][-1][1])
                    base = strip_casts(a[1][1])
                    if ix[0] == 'bin' and ix[1] == 'lshr' and strip_casts(ix[3]) == ('const', 8) and \
                            base[0] == 'load' and path_key(base[1][2]) == '.tt':
                        n += 1
        if n:
            fetches[b.name] = n
    ctx.floor(pfx + ' emit(): symbol-consuming tests (!a--)', len(consume_edges), 10)
    ctx.floor(pfx + ' emit(): fetches t[p >> 8]', sum(fetches.values()), 10)
    exits = [b.name for b in f.blocks.values() if b.term.op == 'ret']
    seen = set()
    work = [(f.entry.name, 0, (f.entry.name,))]
    bad = []
    npaths = 0
    while work:
        bn, diff, trail = work.pop()
        if (bn, diff) in seen:
            continue
        seen.add((bn, diff))
        b = f.blocks[bn]
        diff -= fetches.get(bn, 0)
        if abs(diff) > 2:
            bad.append('imbalance grows without bound around %s' % f.loc(b.insns[0]))
            continue
        if b.term.op == 'ret':
            npaths += 1
            if diff != 0:
                bad.append('a path reaches the return at %s with %+d symbol(s) consumed but not fetched (via %s)' % (
                    f.loc(b.term), diff, ' -> '.join(trail[-6:])))
            continue
        for s in b.succs:
            d2 = diff + (1 if consume_edges.get(bn) == s else 0)
            work.append((s, d2, trail + (s,)))
    ctx.ob(pfx + '.emit.symbol_law', 'emit(): on every path, each symbol taken from the block (`!a--` falling through) is '
           'fetched exactly once before the function suspends or returns', f.loc(), not bad,
           '; '.join(sorted(set(bad))[:3]) or '%d (block, balance) states, %d consuming tests, %d fetches' % (
               len(seen), len(consume_edges), sum(fetches.values())), evals=len(seen))


def _assert_branch(f, br):
    """a conditional branch one of whose targets does nothing but report a failed assertion"""
    if br.op != 'br' or len(br.extra.get('targets', [])) != 2:
        return False
    for t in br.extra['targets']:
        b = f.blocks[t]
        if any(i.op == 'call' and i.extra.get('callee') == '__assert_fail' for i in b.insns) and b.term.op == 'unreachable':
            return True
    return False


def emit_state_signatures(ctx, prog, pfx):
    """emit() is resumable through `switch (ds->rle_state)`: a suspension stores state K and leaves; the code after
    `case K:` is a second copy of the code that follows that suspension point inside the main loop.  Sibling
    cross-check: for every state K, the *continuation signature* of each suspension site that stores K equals the
    signature of the code after `case K:`.  The signature is the sequence of primitive events (byte output of the
    current or of the previous symbol, symbol fetch, tests of the input/output counters, the c==d test) along the
    path that follows 'not exhausted' and 'equal' edges up to the run-count test -- enough to tell the six states
    apart (how many equal symbols have been seen, whether the next symbol is already fetched)."""
    from prov import peel_cond, cmp_norm
    f = prog.func('decode', 'emit')
    P = Prov(prog, f)
    names = reg_var_names(f)
    FIELD = {'.rle_char': 'c', '.rle_prev': 'd', '.rle_avail': 'a', '.rle_index': 'p', '.rle_crc': 's'}
    roles = var_roles(f, P)
    # source names of the locals, by the decoder-state field (or parameter) they are restored from
    CANON = {roles.get(k_, v_): v_ for k_, v_ in FIELD.items()}
    CANON[roles.get('*param:buf_sz', 'm')] = 'm'

    def base(e, depth=0):
        e = strip_casts(e)
        if e[0] == 'phi':
            return CANON.get(names.get(e[1], '?'), '?')
        if e[0] == 'load':
            pk = path_key(e[1][2])
            if pk in FIELD:
                return FIELD[pk]
            if '.tt' in render(e):
                return 'c'                  # a freshly fetched symbol is the current symbol
            if 'param:buf_sz' in render(e):
                return 'm'
            return '?'
        if e[0] == 'bin' and e[1] in ('add', 'sub') and depth < 6:
            k = strip_casts(e[3])
            if k[0] == 'const':
                return base(e[2], depth + 1)
            if e[1] == 'sub':
                l = base(e[2], depth + 1)
                return l if l in ('m', 'a') and base(e[3], depth + 1) == 'c' else l + '-' + base(e[3], depth + 1)
        if e[0] == 'const':
            return str(e[1])
        return '?'

    def follow(start, max_events=40, skip_first=False):
        ev = []
        bn = start
        prev = None
        seen = set()
        first = skip_first
        while len(ev) < max_events:
            if bn in seen:
                ev.append('loop')
                break
            seen.add(bn)
            bl = f.blocks[bn]
            for i in bl.insns:
                if first:
                    break               # (events of the block before its test belong to the previous step)
                if i.op == 'store' and i.extra['vty'] == ('int', 8) and 'rle_' not in addr_key(P.addr(i.ops[1])):
                    ev.append('out(%s)' % base(P.expr(i.ops[0])))
                elif i.op == 'load' and i.ty == ('int', 32) and '.tt)[' in render(P.expr(('reg', i.res))):
                    ev.append('fetch')
            first = False
            t = bl.term
            if t.op == 'ret':
                ev.append('ret')
                break
            if t.op != 'br':
                ev.append(t.op)
                break
            tg = t.extra['targets']
            if len(tg) == 1:
                prev, bn = bn, tg[0]
                continue
            c, pol = peel_cond(P.expr(t.ops[0]))
            # short-circuit result: resolve the boolean phi by the edge we came in on
            guard = 0
            decided = None
            while strip_casts(c)[0] == 'phi' and strip_casts(c)[2].block is bl and guard < 4:
                guard += 1
                ph = strip_casts(c)[2]
                inc = [v for v, src in ph.extra['incoming'] if src == prev]
                if not inc:
                    break
                if inc[0][0] == 'int':
                    decided = bool(inc[0][1] & 1) == pol
                    break
                c2, p2 = peel_cond(P.expr(inc[0]))
                c, pol = c2, (pol == p2)
            if decided is not None:
                prev, bn = bn, (tg[0] if decided else tg[1])
                continue
            cn = cmp_norm(c)
            if cn is None:
                v = base(c)
                if v in ('a', 'm'):
                    ev.append(v + '?')
                    prev, bn = bn, (tg[0] if pol else tg[1])          # value non-zero: not exhausted
                    continue
                ev.append('br?[%s]' % render(c)[:60])
                break
            pred, x, y = cn
            bx, by = base(x), base(y)
            if y in (('const', -1), ('const', 0xFFFFFFFF)) and pred in ('ne', 'eq'):
                prev, bn = bn, ((tg[0] if pol else tg[1]) if pred == 'ne' else (tg[1] if pol else tg[0]))     # not the sentinel
                continue
            if y == ('const', 0) and bx in ('a', 'm') and pred in ('ne', 'eq', 'ugt'):
                ev.append(bx + '?')
                nz = pred in ('ne', 'ugt')
                prev, bn = bn, ((tg[0] if pol else tg[1]) if nz else (tg[1] if pol else tg[0]))
                continue
            if {bx, by} <= {'c', 'd'} and pred in ('ne', 'eq'):
                ev.append('c==d?')
                prev, bn = bn, ((tg[1] if pol else tg[0]) if pred == 'ne' else (tg[0] if pol else tg[1]))      # equal edge
                continue
            if {bx, by} == {'m', 'c'} or 'm-c' in (bx, by) or {bx, by} == {'m', 'm-c'}:
                ev.append('m<c?')
                break
            ev.append('br(%s %s %s)' % (bx, pred, by))
            break
        return tuple(ev)
    sw = [i for i in f.insns() if i.op == 'switch']
    if len(sw) != 1:
        broken('emit(): dispatch switch not found')
    labels = {cv: follow(tg) for cv, tg in sw[0].extra['cases']}
    ctx.floor(pfx + ' emit(): resume labels', len(labels), 5)
    sites = []
    for i in f.insns():
        if i.op == 'store' and path_key(P.addr(i.ops[1])[2]) == '.rle_state':
            v = strip_casts(P.expr(i.ops[0]))
            if v[0] != 'const':
                broken('emit(): non-constant store to rle_state at %s' % f.loc(i))
            for pb in i.block.preds:
                t = f.blocks[pb].term
                if t.op == 'br' and len(t.extra['targets']) == 2:
                    # the test whose failing edge suspends: its signature starts at the test itself
                    sites.append((v[1], i, follow(pb, skip_first=True)))
    ctx.floor(pfx + ' emit(): suspension sites', len(sites), 8)
    bad = []
    for k, ins, sig in sites:
        if k not in labels:
            bad.append('%s: state %d has no resume label' % (f.loc(ins), k))
            continue
        want = labels[k]
        if want[:1] == ('m<c?',):
            # the partial-run state: suspended in the middle of expanding a counted run; the label re-tests the
            # remaining count against the free space.  Its sites must lie under such a test.
            dom = cfg.dominators(f)
            under = any(follow(d, skip_first=True)[:1] == ('m<c?',) for d in dom[ins.block.name] if d != ins.block.name
                        and f.blocks[d].term.op == 'br' and len(f.blocks[d].term.extra['targets']) == 2)
            if not under:
                bad.append('%s: state %d is stored outside the partial-run branch' % (f.loc(ins), k))
            continue
        n = min(len(sig), len(want))
        if n < 3 or sig[:n] != want[:n]:
            bad.append('%s: suspension stores state %d, but the code that follows it (%s) differs from the code after '
                       '`case %d:` (%s)' % (f.loc(ins), k, ' '.join(sig[:8]), k, ' '.join(want[:8])))
    distinct = len(set(labels.values()))
    ctx.ob(pfx + '.emit.resume_states', 'emit(): every suspension resumes at the label whose code continues exactly '
           'where it stopped (continuation signatures of %d suspension sites vs. %d resume labels, %d distinct)' % (
               len(sites), len(labels), distinct), f.loc(sw[0]), not bad and distinct >= 5, '; '.join(bad[:3]) or
           ', '.join('%d: %s' % (k, ' '.join(v[:6])) for k, v in sorted(labels.items())), evals=len(sites) + len(labels))


def unrle_walk(ctx, prog, pfx, only=None):
    """the run-length expander emit() against the un-RLE automaton of the format: lib/unrle.py (abstract
    interpretation to a fixpoint over the resume states); `only` selects the rules this property adopts"""
    import irdb
    import unrle
    f = prog.func('decode', 'emit')
    en = irdb.enumerators(f.module)
    for k in ('OK', 'MORE', 'ERR_RUNLEN'):
        if k not in en:
            raise irdb.AnalysisBroken('%s: enumerator %s vanished' % (pfx, k))
    eng = unrle.Unrle(prog, f, {k: en[k] for k in ('OK', 'MORE', 'ERR_RUNLEN')})
    entries = eng.run()
    findings = any(bad for ok, bad, d in eng.results.values())
    n = 0
    for (rule, site), (ok, bad, detail) in sorted(eng.results.items()):
        if only and rule not in only:
            continue
        n += 1
        ctx.ob('%s.unrle.%s' % (pfx, rule), 'emit(): %s' % unrle.RULES.get(rule, rule), site, bad == 0,
               detail or '%d abstract path(s)' % ok, evals=ok + bad)
    if not findings:
        ctx.floor(pfx + ' emit(): resume states reached through MORE', len({d[0] for d in entries}), 5)
        ctx.floor(pfx + ' emit(): OK returns explored', eng.exits['ok'], 1)
        ctx.floor(pfx + ' emit(): MORE returns explored', eng.exits['more'], 1)
        ctx.floor(pfx + ' emit(): ERR_RUNLEN returns explored', eng.exits['err'], 1)
        for need in ('space', 'read', 'data', 'repeat', 'runlen', 'ok', 'more'):
            if not any(r == need for r, _ in eng.results):
                raise irdb.AnalysisBroken('%s: rule %s was never evaluated in emit()' % (pfx, need))
    if n == 0:
        raise irdb.AnalysisBroken('%s: no rule of the emit() walk adopted' % pfx)
    ctx.extra.setdefault('emit_walk', {
        'abstract_states': eng.visited, 'fixpoint_rounds': eng.rounds,
        'resume_states': sorted(str(d) for d in entries), 'returns': {k: v for k, v in eng.exits.items() if v}})
    return eng

"""Value provenance over SSA-form IR (mem2reg'd): expression trees for SSA values, canonical
addresses for loads/stores, leaf sets.  Rules are written against these, so that they survive
renaming of temporaries, reordering of independent statements and new intermediate locals."""
import re
from irdb import broken, type_count

# Expression forms (tuples):
#  ('const', n) ('null',) ('undef',) ('fpconst', txt)
#  ('addr', root, path)         root: ('G', gkey) | ('A', alloca) | ('V', expr)   path: tuple of steps
#                               step: ('f', struct, idx, name) | ('i', int or expr)
#  ('load', addr_expr, insn)
#  ('param', idx, name)
#  ('call', callee, insn)
#  ('phi', name, insn)
#  ('bin', op, a, b) ('icmp', pred, a, b) ('select', c, a, b)
#  ('trunc', bits, x) ('ext', kind, bits, x)  ('cast', kind, x)
#  ('str', text)
#  ('fn', name)                 address of a function
#  ('extract', x, idx)


class Prov:
    def __init__(self, prog, fn):
        self.prog = prog
        self.fn = fn
        self.m = fn.module
        self._cache = {}
        self._pidx = {name: i for i, (t, name) in enumerate(fn.params)}

    # ------------------------------------------------------------------
    def gkey(self, name):
        return self.prog.gkey(self.m, name)

    def expr(self, v, depth=0):
        k = v[0]
        if k == 'int':
            return ('const', v[1])
        if k == 'null':
            return ('null',)
        if k in ('undef',):
            return ('undef',)
        if k == 'zero':
            return ('const', 0)
        if k == 'fp':
            return ('fpconst', v[1])
        if k == 'glob':
            name = v[1]
            if name in self.m.funcs or (name in self.m.decls) or name in self.prog.ext:
                if name not in self.m.globals:
                    return ('fn', name)
            g = self.m.globals.get(name)
            if g is not None and g.linkage == 'internal' and g.const and g.init and g.init[0] == 'bytes' \
                    and name.startswith('.str'):
                return ('str', bytes(g.init[1]).split(b'\0')[0].decode('latin1'))
            return ('addr', ('G', self.gkey(name)), ())
        if k == 'cgep':
            base = self.expr(v[2], depth)
            if base[0] == 'str' and all(i == ('int', 0) for i in v[3]):
                return base
            return self._gep(base, v[1], [self.expr(i, depth) for i in v[3]])
        if k == 'ccast':
            x = self.expr(v[2], depth)
            if v[1] in ('bitcast', 'inttoptr', 'ptrtoint', 'addrspacecast'):
                return x
            return ('cast', v[1], x)
        if k == 'cbin':
            return ('bin', v[1], self.expr(v[2], depth), self.expr(v[3], depth))
        if k == 'reg':
            name = v[1]
            if name in self._cache:
                return self._cache[name]
            if name in self._pidx:
                pi = self._pidx[name]
                at = self.fn.param_attrs[pi] if pi < len(self.fn.param_attrs) else set()
                if 'byval' in at or 'sret' in at:
                    # callee-private copy / caller's result slot: behaves like a local object
                    e = ('addr', ('A', name), ())
                else:
                    e = ('param', pi, name)
            else:
                ins = self.fn.defs.get(name)
                if ins is None:
                    broken('prov: undefined register %%%s in %s' % (name, self.fn.name))
                if depth > 60:
                    e = ('deep', name)
                else:
                    e = self._insn_expr(ins, depth + 1)
            self._cache[name] = e
            return e
        if k == 'bytes':
            return ('str', bytes(v[1]).decode('latin1'))
        if k == 'agg':
            return ('agg',)
        if k == 'md' or k == 'mdwrap':
            return ('md',)
        broken('prov: unhandled value kind %r' % (v,))

    def _insn_expr(self, ins, depth):
        op = ins.op
        if op == 'alloca':
            return ('addr', ('A', ins.res), ())
        if op == 'load':
            return ('load', self.addr(ins.ops[0], depth), ins)
        if op == 'getelementptr':
            base = self.expr(ins.ops[0], depth)
            return self._gep(base, ins.extra['sty'], [self.expr(i, depth) for i in ins.ops[1:]])
        if op in ('bitcast', 'inttoptr', 'ptrtoint', 'addrspacecast'):
            return self.expr(ins.ops[0], depth)
        if op == 'trunc':
            return ('trunc', ins.ty[1], self.expr(ins.ops[0], depth))
        if op in ('zext', 'sext'):
            return ('ext', op, ins.ty[1], self.expr(ins.ops[0], depth))
        if op in ('sitofp', 'uitofp', 'fptosi', 'fptoui', 'fpext', 'fptrunc'):
            return ('cast', op, self.expr(ins.ops[0], depth))
        if op == 'call':
            return ('call', ins.extra.get('callee'), ins)
        if op == 'phi':
            inc = ins.extra['incoming']
            if len(inc) == 1 and depth < 40:
                # a join that lost its other inputs (a return join threaded away): the value itself
                return self.expr(inc[0][0], depth + 1)
            return ('phi', ins.res, ins)
        if op == 'icmp' or op == 'fcmp':
            return ('icmp', ins.extra['pred'], self.expr(ins.ops[0], depth), self.expr(ins.ops[1], depth))
        if op == 'select':
            return ('select', self.expr(ins.ops[0], depth), self.expr(ins.ops[1], depth), self.expr(ins.ops[2], depth))
        if op in ('add', 'sub', 'mul', 'udiv', 'sdiv', 'urem', 'srem', 'and', 'or', 'xor', 'shl', 'lshr', 'ashr',
                  'fadd', 'fsub', 'fmul', 'fdiv', 'frem'):
            return ('bin', op, self.expr(ins.ops[0], depth), self.expr(ins.ops[1], depth))
        if op == 'extractvalue':
            return ('extract', self.expr(ins.ops[0], depth), tuple(ins.extra['idx']))
        if op == 'va_arg':
            return ('vaarg', ins)
        if op == 'fneg':
            return ('cast', 'fneg', self.expr(ins.ops[0], depth))
        if op == 'insertvalue':
            return ('agg',)
        broken('prov: unhandled defining opcode %s in %s' % (op, self.fn.name))

    def addr(self, v, depth=0):
        e = self.expr(v, depth)
        if e[0] == 'addr':
            return e
        return ('addr', ('V', e), ())

    def _gep(self, base, sty, idx):
        if base[0] != 'addr':
            base = ('addr', ('V', base), ())
        root, path = base[1], base[2]
        steps = list(path)
        # first index: pointer-level
        first = idx[0]
        if not (first[0] == 'const' and first[1] == 0):
            steps.append(('i', first[1] if first[0] == 'const' else first))
        ty = sty
        first_agg = True
        for ix in idx[1:]:
            ty = self._resolve(ty)
            if first_agg and ty[0] == 'struct' and (len(ty) < 3 or not ty[2]):
                # a view of the object as a literal struct of scalars ({ i64, i64 }: how clang passes a small struct
                # by value): name the field after the object's own type when the layouts coincide
                nat = self._natural_type(root, steps)
                extra = []
                for _ in range(4):
                    if nat is None:
                        break
                    nt = self._resolve(nat) if nat[0] in ('named', 'struct') else nat
                    if nt[0] != 'struct':
                        break
                    if len(nt[1]) == len(ty[1]) and all(a == b and a[0] in ('int', 'ptr') for a, b in zip(nt[1], ty[1])):
                        ty = nt
                        steps.extend(extra)
                        break
                    # the view may cover the first member (a struct at offset 0): descend
                    if not nt[1]:
                        break
                    sn = nt[2] if len(nt) > 2 else None
                    fn0 = None
                    if sn:
                        names = self.m.field_names(sn)
                        fn0 = names[0] if names else None
                    extra.append(('f', sn, 0, fn0))
                    nat = nt[1][0]
            first_agg = False
            if ty[0] == 'struct':
                if ix[0] != 'const':
                    broken('prov: non-constant struct index')
                n = ix[1]
                sname = ty[2] if len(ty) > 2 else None
                fname = None
                if sname:
                    names = self.m.field_names(sname)
                    if not names and not sname.split('.', 1)[-1].startswith('anon'):
                        for om in self.prog.modules.values():
                            if om.structs.get(sname) == self.m.structs.get(sname):
                                names = om.field_names(sname)
                                if names:
                                    break
                    if names and n < len(names):
                        fname = names[n]
                steps.append(('f', sname, n, fname))
                ty = ty[1][n]
            elif ty[0] == 'array':
                steps.append(('i', ix[1] if ix[0] == 'const' else ix))
                ty = ty[2]
            elif ty[0] == 'vec':
                steps.append(('i', ix[1] if ix[0] == 'const' else ix))
                ty = ty[2]
            else:
                broken('prov: gep into non-aggregate %r' % (ty,))
        return ('addr', root, tuple(steps))

    def _natural_type(self, root, steps):
        """declared type of the object an address denotes, when it can be read off the path"""
        if steps:
            last = steps[-1]
            if last[0] == 'f' and last[1]:
                fields = self.m.structs.get(last[1])
                if fields and last[2] < len(fields):
                    return fields[last[2]]
            return None
        if root[0] == 'G':
            name = root[1].split(':')[-1]
            g = self.m.globals.get(name)
            if g is not None and g.ty is not None:
                return g.ty
        return None

    def _resolve(self, ty):
        if ty[0] == 'named':
            fields = self.m.structs.get(ty[1])
            if fields is None:
                broken('prov: unknown struct %s' % ty[1])
            return ('struct', fields, ty[1])
        return ty

    # ------------------------------------------------------------------
    def phi_inputs(self, e):
        """[(expr, pred_block_name)] for a ('phi', ...) expression"""
        ins = e[2]
        return [(self.expr(v), bb) for v, bb in ins.extra['incoming']]

    def leaves(self, e, expand_phi=True, _seen=None):
        """set of leaf expressions: loads (with canonical address), params, call results, consts, addresses"""
        out = set()
        _seen = _seen if _seen is not None else set()
        self._leaves(e, out, expand_phi, _seen)
        return out

    def _leaves(self, e, out, expand_phi, seen):
        k = e[0]
        if k in ('const', 'null', 'undef', 'fpconst', 'str', 'fn', 'md', 'agg', 'deep'):
            out.add(e if k != 'deep' else ('deep',))
        elif k == 'addr':
            out.add(('addrof', addr_key(e)))
            r = e[1]
            if r[0] == 'V':
                self._leaves(r[1], out, expand_phi, seen)
            for st in e[2]:
                if st[0] == 'i' and isinstance(st[1], tuple):
                    self._leaves(st[1], out, expand_phi, seen)
        elif k == 'load':
            out.add(('load', addr_key(e[1])))
        elif k == 'param':
            out.add(('param', e[1]))
        elif k == 'call':
            out.add(('call', e[1], id(e[2])))
        elif k == 'vaarg':
            out.add(('vaarg',))
        elif k == 'phi':
            if not expand_phi:
                out.add(('phi', e[1]))
            elif e[1] not in seen:
                seen.add(e[1])
                for x, _ in self.phi_inputs(e):
                    self._leaves(x, out, expand_phi, seen)
        elif k == 'bin':
            self._leaves(e[2], out, expand_phi, seen)
            self._leaves(e[3], out, expand_phi, seen)
        elif k == 'icmp':
            self._leaves(e[2], out, expand_phi, seen)
            self._leaves(e[3], out, expand_phi, seen)
        elif k == 'select':
            for x in e[1:]:
                self._leaves(x, out, expand_phi, seen)
        elif k == 'trunc':
            self._leaves(e[2], out, expand_phi, seen)
        elif k == 'ext':
            self._leaves(e[3], out, expand_phi, seen)
        elif k == 'cast':
            self._leaves(e[2], out, expand_phi, seen)
        elif k == 'extract':
            self._leaves(e[1], out, expand_phi, seen)
        else:
            broken('prov.leaves: unhandled %r' % (k,))


# ----------------------------------------------------------------------
# helpers on expressions
# ----------------------------------------------------------------------

def strip_ext(e):
    """remove zero/sign extensions, truncations to i1/i8 of bools are kept"""
    while e[0] == 'ext':
        e = e[3]
    return e


def strip_casts(e):
    while True:
        if e[0] == 'ext':
            e = e[3]
        elif e[0] == 'trunc':
            e = e[2]
        elif e[0] == 'cast':
            e = e[2]
        else:
            return e


def path_key(path):
    parts = []
    for st in path:
        if st[0] == 'f':
            parts.append('.' + (st[3] if st[3] else '#%d' % st[2]))
        else:
            parts.append('[%s]' % (st[1] if isinstance(st[1], int) else '*'))
    return ''.join(parts)


def addr_key(a):
    """canonical string for an address expression: 'G:work_units', 'G:compress:coll_q.size',
    'A:ord.hdr.crc', 'V(<expr>).size'"""
    root, path = a[1], a[2]
    if root[0] == 'G':
        return 'G:' + root[1] + path_key(path)
    if root[0] == 'A':
        # a local that came in with an inlined helper carries the inliner's suffix (.i, .i12): not a field path
        return 'A:' + re.sub(r'\.i(\d*)$', r'_i\1', root[1]) + path_key(path)
    return 'V(' + render(root[1]) + ')' + path_key(path)


def is_global_addr(a, gkey=None, path=None):
    if a[0] != 'addr' or a[1][0] != 'G':
        return False
    if gkey is not None and a[1][1] != gkey:
        return False
    if path is not None and path_key(a[2]) != path:
        return False
    return True


def is_gload(e, gkey=None, path=None):
    e = strip_ext(e)
    return e[0] == 'load' and is_global_addr(e[1], gkey, path)


def render(e, depth=0):
    k = e[0]
    if depth > 12:
        return '...'
    if k == 'const':
        return str(e[1])
    if k == 'null':
        return 'NULL'
    if k == 'undef':
        return 'undef'
    if k == 'fpconst':
        return e[1]
    if k == 'str':
        return repr(e[1])
    if k == 'fn':
        return '&' + e[1]
    if k == 'addr':
        return '&' + addr_key(e)
    if k == 'load':
        return addr_key(e[1])
    if k == 'param':
        return 'param:' + e[2]
    if k == 'call':
        return '%s()@%s' % (e[1], e[2].line)
    if k == 'phi':
        return 'phi:' + e[1]
    if k == 'bin':
        return '(%s %s %s)' % (render(e[2], depth + 1), e[1], render(e[3], depth + 1))
    if k == 'icmp':
        return '(%s %s %s)' % (render(e[2], depth + 1), e[1], render(e[3], depth + 1))
    if k == 'select':
        return '(%s ? %s : %s)' % tuple(render(x, depth + 1) for x in e[1:])
    if k == 'trunc':
        return 'trunc%d(%s)' % (e[1], render(e[2], depth + 1))
    if k == 'ext':
        return render(e[3], depth)
    if k == 'cast':
        return '%s(%s)' % (e[1], render(e[2], depth + 1))
    if k == 'extract':
        return '%s.%s' % (render(e[1], depth + 1), e[2])
    return '<%s>' % k


# ----------------------------------------------------------------------
# polynomial normalisation (for equalities such as in_granul == bs100k*100000)
# ----------------------------------------------------------------------

def poly(e, leaf_name):
    """normalise an integer expression into {monomial(tuple of sorted leaf names): coeff};
    returns None when the expression has non-polynomial operators.  leaf_name(e) names a leaf or returns None."""
    e = strip_casts(e) if e[0] in ('ext', 'cast') else e
    k = e[0]
    if k == 'const':
        return {(): e[1]} if e[1] else {}
    if k == 'ext':
        return poly(e[3], leaf_name)
    if k == 'trunc':
        return poly(e[2], leaf_name)
    if k == 'bin':
        a = poly(e[2], leaf_name)
        b = poly(e[3], leaf_name)
        if a is None or b is None:
            return None
        if e[1] == 'add':
            return _padd(a, b, 1)
        if e[1] == 'sub':
            return _padd(a, b, -1)
        if e[1] == 'mul':
            out = {}
            for ma, ca in a.items():
                for mb, cb in b.items():
                    m = tuple(sorted(ma + mb))
                    out[m] = out.get(m, 0) + ca * cb
            return {m: c for m, c in out.items() if c}
        if e[1] == 'shl' and b.keys() <= {()}:
            sh = b.get((), 0)
            return {m: c << sh for m, c in a.items()}
        return None
    n = leaf_name(e)
    if n is None:
        return None
    return {(n,): 1}


def _padd(a, b, sign):
    out = dict(a)
    for m, c in b.items():
        out[m] = out.get(m, 0) + sign * c
    return {m: c for m, c in out.items() if c}


def peel_cond(e):
    """normalise a branch condition: strip (x != 0), (x == 0), xor true, zext/trunc wrappers.
    returns (core expression, polarity) with: condition true  <=>  (core is non-zero) == polarity"""
    pol = True
    while True:
        e0 = e
        if e[0] in ('ext', 'cast'):
            e = e[3] if e[0] == 'ext' else e[2]
        elif e[0] == 'trunc':
            e = e[2]
        elif e[0] == 'icmp' and e[1] in ('ne', 'eq') and strip_casts(e[3]) in (('const', 0),):
            if e[1] == 'eq':
                pol = not pol
            e = e[2]
        elif e[0] == 'bin' and e[1] == 'xor' and strip_casts(e[3]) in (('const', 1), ('const', -1)):
            pol = not pol
            e = e[2]
        if e is e0:
            return e, pol


def is_null_test(e):
    """(pointer expr, polarity) if e is `p == NULL` / `p != NULL` (polarity: condition true <=> p non-null)"""
    core, pol = peel_cond(e)
    if core[0] == 'icmp' and core[1] in ('eq', 'ne') and strip_casts(core[3]) == ('null',):
        return strip_casts(core[2]), (pol if core[1] == 'ne' else not pol)
    return None, None


def cmp_norm(c):
    """icmp expression -> (pred, x, y) with a constant operand (if any) on the right; None if not an icmp"""
    c = strip_casts(c)
    if c[0] != 'icmp':
        return None
    x, y = strip_casts(c[2]), strip_casts(c[3])
    pred = c[1]
    if x[0] in ('const', 'null') and y[0] not in ('const', 'null'):
        x, y = y, x
        pred = {'sgt': 'slt', 'slt': 'sgt', 'sge': 'sle', 'sle': 'sge', 'ugt': 'ult', 'ult': 'ugt',
                'uge': 'ule', 'ule': 'uge'}.get(pred, pred)
    return pred, x, y

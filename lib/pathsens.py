"""Path-sensitive exploration of one function over a small finite abstract state.

State = values of a few *tracked cells* (memory cells named by a matcher on their canonical address; value: a
concrete int or OTHER = 'none of the constants the function compares the cell with') + truth values of a few
*tracked facts* (branch conditions recognised by a matcher; forked the first time they are tested, then
remembered).  Branches whose condition is decided by the state are pruned; everything else forks.  Short-circuit
`&&`/`||` phis are resolved by the predecessor edge.  The state space is finite, so the exploration terminates.
Used for rules of the form "call S is reached only in states satisfying Q" / "in states satisfying Q every path
reaches call S"."""
from prov import Prov, strip_casts, peel_cond, addr_key, cmp_norm

OTHER = 'OTHER'


class Explorer:
    def __init__(self, prog, f, cells, facts=(), P=None, vals=None):
        """cells: {name: matcher(addr_expr) -> bool}; facts: [(name, matcher(core_expr) -> None | polarity)]
        where polarity True means: core is non-zero <=> fact holds"""
        self.prog, self.f = prog, f
        self.P = P or Prov(prog, f)
        self.cells = cells
        self.facts = list(facts)
        self._cur = None
        self.vals = vals or {}      # {name: matcher(expr) -> bool}: tracked SSA values (e.g. a call result)

    def cell_of(self, addr):
        for n, m in self.cells.items():
            if m(addr):
                return n
        return None

    def val_of(self, e):
        for n, m in self.vals.items():
            if m(e):
                return n
        return None

    def absval(self, e, st, prev, depth=0):
        """abstract value of an expression: int, OTHER, or None (unknown)"""
        e = strip_casts(e)
        if e[0] == 'const':
            return e[1]
        if e[0] == 'load':
            n = self.cell_of(e[1])
            if n is not None:
                return st['cells'].get(n)
        n = self.val_of(e)
        if n is not None:
            return st['cells'].get(n)
        if e[0] == 'phi' and depth < 8 and prev is not None and e[2].block.name == self._cur:
            for v, src in e[2].extra['incoming']:
                if src == prev:
                    return self.absval(self.P.expr(v), st, None, depth + 1)
        return None

    # -- condition evaluation: returns True/False, or None (unknown), or ('fact', name, pol)
    def _eval(self, e, st, prev, depth=0):
        core, pol = peel_cond(e)
        c = strip_casts(core)
        if c[0] == 'const':
            return (c[1] != 0) == pol
        if c[0] == 'phi' and ('%' + c[1]) in st['cells']:
            cv = st['cells']['%' + c[1]]
            return None if cv is None else (bool(cv) == pol)
        if c[0] == 'phi' and depth < 8:
            ins = c[2]
            if ins.block.name != self._cur:
                return None
            for v, src in ins.extra['incoming']:
                if src == prev:
                    r = self._eval(self.P.expr(v), st, None, depth + 1)
                    if isinstance(r, bool):
                        return r == pol
                    if isinstance(r, tuple):
                        return ('fact', r[1], r[2] == pol)
                    return None
            return None
        if (c[0] == 'load' and self.cell_of(c[1]) is not None) or self.val_of(c) is not None:
            v = self.absval(c, st, prev)
            if v is None:
                return None
            return (v == OTHER or v != 0) == pol
        cn = cmp_norm(c)
        if cn is not None:
            pred, x, y = cn
            if y[0] == 'const' and pred in ('slt', 'sle', 'sgt', 'sge', 'ult', 'ule', 'ugt', 'uge'):
                if (x[0] == 'load' and self.cell_of(x[1]) is not None) or self.val_of(x) is not None:
                    v = self.absval(x, st, prev)
                    if isinstance(v, int) and not isinstance(v, bool):
                        k = y[1]
                        r = {'slt': v < k, 'sle': v <= k, 'sgt': v > k, 'sge': v >= k,
                             'ult': v < k, 'ule': v <= k, 'ugt': v > k, 'uge': v >= k}[pred]
                        return r == pol
            if y[0] in ('const', 'null') and pred in ('eq', 'ne'):
                tracked = (x[0] == 'load' and self.cell_of(x[1]) is not None) or self.val_of(x) is not None
                if not tracked and x[0] == 'phi' and prev is not None:
                    tracked = self.absval(x, st, prev) is not None
                if tracked:
                    v = self.absval(x, st, prev)
                    if v is not None:
                        k = y[1] if y[0] == 'const' else 0
                        eq = (v != OTHER and v == k)
                        return (eq if pred == 'eq' else not eq) == pol
        for name, m in self.facts:
            r = m(c)
            if r is not None:
                if isinstance(r, tuple):        # matcher names the fact itself: (name, polarity)
                    name, r = r
                if name in st['facts']:
                    return (st['facts'][name] == r) == pol
                return ('fact', name, r == pol)
        return None

    def explore(self, init_states, on_call=None, on_store=None, start=None, stop_blocks=(), on_insn=None):
        """init_states: list of {'cells': {...}, 'facts': {...}}.  on_call(ins, state) is invoked for every call
        instruction reached; returning 'stop' ends that path.  Returns list of (exit kind, block, state)."""
        f = self.f
        start = start or f.entry.name
        seen = set()
        work = [(start, None, self._freeze(s)) for s in init_states]
        exits = []
        while work:
            bname, prev, fs = work.pop()
            if (bname, prev, fs) in seen:
                continue
            seen.add((bname, prev, fs))
            st = self._thaw(fs)
            b = f.blocks[bname]
            self._cur = bname
            # boolean phis (short-circuit results): resolve by the incoming edge and remember as cells '%name'
            if prev is not None:
                forked = False
                for ins in b.insns:
                    if ins.op != 'phi' or ins.ty != ('int', 1):
                        continue
                    r = None
                    for v, src in ins.extra['incoming']:
                        if src != prev:
                            continue
                        if v[0] == 'int':
                            r = bool(v[1] & 1)
                        elif v[0] == 'reg' and ('%' + v[1]) in st['cells']:
                            cv = st['cells']['%' + v[1]]
                            r = None if cv is None else bool(cv)
                        else:
                            self._cur = src          # the value was computed in the predecessor
                            r = self._eval(self.P.expr(v), st, None)
                            self._cur = bname
                        break
                    if isinstance(r, tuple):
                        _, name, polarity = r
                        for val in (True, False):
                            s2 = self._thaw(fs)
                            s2['facts'][name] = val
                            work.append((bname, prev, self._freeze(s2)))
                        forked = True
                        break
                    st['cells']['%' + ins.res] = None if r is None else int(r)
                if forked:
                    continue
            halted = False
            for ins in b.insns:
                if on_insn is not None and ins.op not in ('dbg', 'phi'):
                    on_insn(ins, st)
                if ins.op == 'store':
                    n = self.cell_of(self.P.addr(ins.ops[1]))
                    if n is not None:
                        st['cells'][n] = self.absval(self.P.expr(ins.ops[0]), st, prev)
                        if on_store:
                            on_store(ins, n, st)
                elif ins.op == 'call' and (ins.extra.get('callee') in ('__assert_fail', 'abort')):
                    # a failed assertion / abort(): the path ends here and is nobody's obligation
                    exits.append(('abort', bname, st))
                    halted = True
                    break
                elif ins.op == 'call' and on_call is not None:
                    if on_call(ins, st) == 'stop':
                        halted = True
                        break
            if halted:
                continue
            t = b.term
            if t.op == 'ret':
                exits.append(('ret', bname, st))
                continue
            if t.op == 'unreachable':
                exits.append(('unreachable', bname, st))
                continue
            if bname in stop_blocks:
                exits.append(('stop', bname, st))
                continue
            tg = t.extra['targets']
            if t.op == 'br' and len(tg) == 2:
                r = self._eval(self.P.expr(t.ops[0]), st, prev)
                if isinstance(r, bool):
                    work.append((tg[0] if r else tg[1], bname, self._freeze(st)))
                elif isinstance(r, tuple):
                    _, name, polarity = r
                    # condition true <=> fact == polarity
                    for val in (True, False):
                        s2 = self._thaw(self._freeze(st))
                        s2['facts'][name] = val
                        work.append((tg[0] if val == polarity else tg[1], bname, self._freeze(s2)))
                else:
                    fz = self._freeze(st)
                    work.append((tg[0], bname, fz))
                    work.append((tg[1], bname, fz))
            else:
                fz = self._freeze(st)
                for x in dict.fromkeys(tg):
                    work.append((x, bname, fz))
        return exits

    def ret_bool(self, st, blk):
        """boolean a predicate function returns at the `ret` of block blk in state st (None: undetermined)"""
        t = self.f.blocks[blk].term
        if not t.ops:
            return None
        v = t.ops[0]
        if v[0] == 'int':
            return bool(v[1])
        while v[0] == 'reg':
            if ('%' + v[1]) in st['cells']:
                cv = st['cells']['%' + v[1]]
                return None if cv is None else bool(cv)
            d = self.f.defs.get(v[1])
            if d is None or d.op not in ('zext', 'trunc', 'sext') or d.ops[0][0] != 'reg':
                return None
            v = d.ops[0]
        return None

    @staticmethod
    def _freeze(st):
        return (tuple(sorted(st['cells'].items(), key=lambda kv: str(kv[0]))),
                tuple(sorted(st['facts'].items(), key=lambda kv: str(kv[0]))))

    @staticmethod
    def _thaw(fs):
        return {'cells': dict(fs[0]), 'facts': dict(fs[1])}

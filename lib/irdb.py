"""IRDB: build LLVM-14 textual IR for every translation unit of /repo and parse
the subset the rules need.  Anything the parser does not understand raises
AnalysisBroken (exit status 2 in the driver) - never a pass, never a violation.

Two forms per unit:
  raw : clang -O0 -disable-O0-optnone (every local is an alloca)      -> definite assignment (R9)
  ssa : opt -passes=mem2reg on the above (scalars promoted, phi nodes) -> everything else
"""
import json, os, re, subprocess, sys, shutil, tempfile
from concurrent.futures import ThreadPoolExecutor


class AnalysisBroken(Exception):
    pass


def broken(msg):
    raise AnalysisBroken(msg)


# --------------------------------------------------------------------------
# build description
# --------------------------------------------------------------------------

def repo_root():
    return os.environ.get('VERIF_REPO_ROOT', '/repo')


def read_build_description(root=None):
    root = root or repo_root()
    cm = open(os.path.join(root, 'CMakeLists.txt')).read()
    m = re.search(r'set\(SRC_FILES\s+(.*?)\)', cm, re.S)
    if not m:
        broken('CMakeLists.txt: SRC_FILES not found')
    units = m.group(1).split()
    on_disk = sorted('src/' + f for f in os.listdir(os.path.join(root, 'src')) if f.endswith('.c'))
    if sorted(units) != on_disk:
        broken('units in CMakeLists.txt %s differ from src/*.c %s' % (sorted(units), on_disk))
    m = re.search(r'add_compile_definitions\((.*?)\)', cm, re.S)
    defs = []
    if m:
        for tok in re.findall(r'[A-Za-z_][A-Za-z0-9_]*(?:=(?:"[^"]*"|\S+))?', m.group(1)):
            defs.append('-D' + tok)
    m = re.search(r'set\(CMAKE_C_STANDARD\s+(\d+)\)', cm)
    std = 'gnu%s' % (m.group(1) if m else '99')
    return units, defs, std


class Build:
    """Compiles the working tree into a scratch directory (removed by close())."""

    def __init__(self, root=None, ndebug=True, keep=False):
        self.root = root or repo_root()
        self.units, self.defs, self.std = read_build_description(self.root)
        self.ndebug = ndebug
        self.dir = tempfile.mkdtemp(prefix='vp.', dir=os.environ.get('TMPDIR', '/tmp'))
        self.keep = keep
        self.flags = list(self.defs) + ['-DKJN_LBZIP2_VERIF', '-std=' + self.std]
        self.flags.append('-DNDEBUG' if ndebug else '-UNDEBUG')
        self.inlined = {}
        self.scalarized = {}

    def close(self):
        if not self.keep:
            shutil.rmtree(self.dir, ignore_errors=True)

    def _one(self, unit):
        base = os.path.splitext(os.path.basename(unit))[0]
        raw = os.path.join(self.dir, base + '.ll')
        ssa = os.path.join(self.dir, base + '.ssa.ll')
        cmd = ['clang-14'] + self.flags + ['-O0', '-Xclang', '-disable-O0-optnone', '-g',
                                           '-fno-discard-value-names', '-w', '-S', '-emit-llvm',
                                           os.path.join(self.root, unit), '-o', raw]
        r = subprocess.run(cmd, capture_output=True, text=True)
        if r.returncode != 0:
            broken('compile failed for %s:\n%s' % (unit, r.stderr[-2000:]))
        passes = 'mem2reg'
        new = self._mark_new_functions(base, raw)
        if new:
            # functions that did not exist when the rules were confirmed (a helper extracted from a task body, ...)
            # are analysed in the context of their callers: always-inline them first (semantics-preserving)
            passes = os.environ.get('VERIF_INLINE_PASSES', 'always-inline,mem2reg,sccp')
            self.inlined.setdefault(base, []).extend(new)
        r = subprocess.run(['opt-14', '-S', '-passes=' + passes, raw, '-o', ssa], capture_output=True, text=True)
        if r.returncode != 0:
            broken('opt %s failed for %s:\n%s' % (passes, unit, r.stderr[-2000:]))
        if new and not os.environ.get('VERIF_NO_SROA'):
            self._scalarize_hosts(base, raw, ssa, new)
        return base, raw, ssa

    def _scalarize_hosts(self, base, raw, ssa, new):
        """second stage, confined to the functions that received inlined code: by-value aggregate parameters of an
        inlined helper survive as address-taken copies; sroa forwards them.  Every other function is frozen
        (optnone) for this stage, so nothing else in the unit changes shape."""
        txt = open(raw).read()
        # only needed when an inlined helper takes an aggregate by value (clang: coerced scalars or byval copies);
        # otherwise mem2reg has done everything and the hosts keep their own locals as they are
        heads = {m.group(1): m.group(0) for m in re.finditer(r'^define [^@\n]*@([A-Za-z0-9_.]+)\([^\n]*\{$', txt, re.M)}
        if not any(('.coerce' in heads.get(n, '') or 'byval(' in heads.get(n, '')) for n in new):
            return
        bodies = {}
        for m in re.finditer(r'^define [^@\n]*@([A-Za-z0-9_.]+)\([^\n]*\{$(.*?)^\}$', txt, re.M | re.S):
            bodies[m.group(1)] = m.group(2)
        newset = set(new)
        hosts = {n for n, b in bodies.items() if n not in newset and
                 any(re.search(r'@%s\(' % re.escape(x), b) for x in newset)}
        if not hosts:
            return
        st = open(ssa).read()
        groups = {}

        def repl(m):
            if m.group(2) in hosts:
                return m.group(0)
            gid = m.group(3)
            groups[gid] = True
            return m.group(1) + '#8%s' % gid + m.group(4)
        st2 = re.sub(r'^(define [^@\n]*@([A-Za-z0-9_.]+)\([^\n]*?)#(\d+)( [^\n]*\{)$', repl, st, flags=re.M)
        add = []
        for gid in groups:
            m = re.search(r'^attributes #%s = \{(.*)\}$' % gid, st, re.M)
            if not m:
                broken('attribute group #%s not found in %s' % (gid, ssa))
            body = re.sub(r'\b(alwaysinline|optnone|noinline)\b', '', m.group(1))
            add.append('attributes #8%s = { noinline optnone %s }' % (gid, body.strip()))
        tmp = ssa + '.stage1.ll'
        open(tmp, 'w').write(st2 + '\n' + '\n'.join(add) + '\n')
        r = subprocess.run(['opt-14', '-S', '-passes=' + os.environ.get('VERIF_HOST_PASSES', 'sroa,sccp'),
                            '-jump-threading-threshold=' + os.environ.get('VERIF_JT', '6'), tmp, '-o', ssa],
                           capture_output=True, text=True)
        if r.returncode != 0:
            broken('opt sroa failed for %s:\n%s' % (base, r.stderr[-2000:]))
        self.scalarized.setdefault(base, []).extend(sorted(hosts))

    _baseline = None

    def _mark_new_functions(self, base, raw):
        if os.environ.get('VERIF_NO_INLINE'):
            return []
        if Build._baseline is None:
            p = os.path.join(os.path.dirname(os.path.abspath(__file__)), 'baseline_functions.json')
            Build._baseline = json.load(open(p)) if os.path.exists(p) else {}
        known = set(Build._baseline.get(base, []))
        if not known:
            return []
        txt = open(raw).read()
        new = []
        groups = {}

        def repl(m):
            name = m.group(2)
            if name in known:
                return m.group(0)
            new.append(name)
            gid = m.group(3)
            groups[gid] = True
            return m.group(1) + '#9%s' % gid + m.group(4)
        txt2 = re.sub(r'^(define [^@\n]*@([A-Za-z0-9_.]+)\([^\n]*?)#(\d+)( [^\n]*\{)$', repl, txt, flags=re.M)
        if not new:
            return []
        add = []
        for gid in groups:
            m = re.search(r'^attributes #%s = \{(.*)\}$' % gid, txt, re.M)
            if not m:
                broken('attribute group #%s not found in %s' % (gid, raw))
            body = re.sub(r'\b(noinline|optnone)\b', '', m.group(1))
            add.append('attributes #9%s = { alwaysinline %s }' % (gid, body.strip()))
        txt2 = txt2 + '\n' + '\n'.join(add) + '\n'
        open(raw, 'w').write(txt2)
        return new

    def compile_all(self):
        with ThreadPoolExecutor(max_workers=16) as ex:
            res = list(ex.map(self._one, self.units))
        self.raw = {b: r for b, r, s in res}
        self.ssa = {b: s for b, r, s in res}
        return self

    def witness(self, code, name='wit'):
        """Compile a witness TU with -fsyntax-only; returns (returncode, stderr)."""
        p = os.path.join(self.dir, name + '.c')
        open(p, 'w').write(code)
        cmd = ['clang-14'] + self.flags + ['-fsyntax-only', '-ferror-limit=0', '-w',
                                           '-I', os.path.join(self.root, 'src'), p]
        r = subprocess.run(cmd, capture_output=True, text=True)
        return r.returncode, r.stderr


# --------------------------------------------------------------------------
# tokenizer
# --------------------------------------------------------------------------

_tok_re = re.compile(r'''
    \s+
  | (?P<str>c?"(?:[^"\\]|\\.)*")
  | (?P<loc>%(?:[-A-Za-z$._0-9]+|"(?:[^"\\]|\\.)*"))
  | (?P<glob>@(?:[-A-Za-z$._0-9]+|"(?:[^"\\]|\\.)*"))
  | (?P<md>![-A-Za-z$._0-9]*)
  | (?P<attr>\#\d+)
  | (?P<num>-?\d+\.\d+(?:e[-+]?\d+)?|0x[KLMHR]?[0-9A-Fa-f]+|-?\d+)
  | (?P<dots>\.\.\.)
  | (?P<word>[A-Za-z_][A-Za-z0-9_.]*)
  | (?P<punct>[()\[\]{}<>,*=:|])
''', re.X)


def tokenize(s):
    out = []
    pos = 0
    n = len(s)
    while pos < n:
        m = _tok_re.match(s, pos)
        if not m:
            if s[pos] == ';':      # comment to end of line
                break
            broken('IR tokenizer: cannot tokenize %r in %r' % (s[pos:pos + 20], s[:200]))
        pos = m.end()
        k = m.lastgroup
        if k is None:
            continue
        out.append((k, m.group(k)))
    return out


def unq(name):
    """strip sigil and quotes: %"a b" -> a b"""
    n = name[1:]
    if n.startswith('"'):
        n = n[1:-1]
    return n


def decode_cstring(tok):
    """c"ab\\00" -> list of byte values"""
    body = tok[2:-1] if tok.startswith('c') else tok[1:-1]
    out = []
    i = 0
    while i < len(body):
        if body[i] == '\\':
            if body[i + 1] == '\\':
                out.append(92)
                i += 2
            else:
                out.append(int(body[i + 1:i + 3], 16))
                i += 3
        else:
            out.append(ord(body[i]))
            i += 1
    return out


# --------------------------------------------------------------------------
# types and values
# --------------------------------------------------------------------------
# type: ('void',) ('int',bits) ('fp',name) ('ptr',T) ('named',name) ('array',n,T)
#       ('struct',[T..]) ('func',ret,[T..],vararg) ('label',) ('metadata',) ('vec',n,T)

_FP = {'float', 'double', 'x86_fp80', 'half', 'fp128'}
_ARG_ATTRS = {'noundef', 'nonnull', 'signext', 'zeroext', 'inreg', 'noalias', 'nocapture', 'readonly',
              'readnone', 'writeonly', 'returned', 'immarg', 'nofree', 'nest', 'swiftself', 'noreturn'}
_ARG_ATTRS_T = {'byval', 'sret', 'byref', 'inalloca', 'preallocated', 'elementtype'}
_ARG_ATTRS_N = {'align', 'dereferenceable', 'dereferenceable_or_null'}


class P:
    """token cursor"""

    def __init__(self, toks, ctx=''):
        self.t = toks
        self.i = 0
        self.ctx = ctx

    def peek(self, k=0):
        j = self.i + k
        return self.t[j] if j < len(self.t) else ('eof', '')

    def next(self):
        tk = self.peek()
        self.i += 1
        return tk

    def accept(self, val):
        if self.peek()[1] == val:
            self.i += 1
            return True
        return False

    def expect(self, val):
        if not self.accept(val):
            broken('IR parser: expected %r, got %r in: %s' % (val, self.peek(), self.ctx[:300]))

    def at_end(self):
        return self.i >= len(self.t)

    # ---- types
    def type(self):
        k, v = self.next()
        if k == 'word':
            if v == 'void':
                t = ('void',)
            elif re.fullmatch(r'i\d+', v):
                t = ('int', int(v[1:]))
            elif v in _FP:
                t = ('fp', v)
            elif v == 'ptr':
                t = ('ptr', ('void',))
            elif v == 'label':
                t = ('label',)
            elif v == 'metadata':
                t = ('metadata',)
            elif v == 'opaque':
                t = ('opaque',)
            else:
                broken('IR parser: unknown type word %r in: %s' % (v, self.ctx[:300]))
        elif k == 'loc':
            t = ('named', unq(v))
        elif v == '[':
            n = int(self.next()[1])
            self.expect('x')
            e = self.type()
            self.expect(']')
            t = ('array', n, e)
        elif v == '{':
            t = ('struct', self._type_list('}'))
        elif v == '<':
            if self.peek()[1] == '{':
                self.next()
                t = ('struct', self._type_list('}'))
                self.expect('>')
            else:
                n = int(self.next()[1])
                self.expect('x')
                e = self.type()
                self.expect('>')
                t = ('vec', n, e)
        else:
            broken('IR parser: cannot parse type at %r in: %s' % ((k, v), self.ctx[:300]))
        # suffixes
        while True:
            pk = self.peek()
            if pk[1] == '*':
                self.next()
                t = ('ptr', t)
            elif pk[1] == '(' and self._looks_like_fnty():
                self.next()
                params = []
                vararg = False
                while not self.accept(')'):
                    if self.accept('...'):
                        vararg = True
                    else:
                        params.append(self.type())
                        # param attrs inside function types are rare; skip words
                        while self.peek()[0] == 'word' and self.peek()[1] in _ARG_ATTRS:
                            self.next()
                    self.accept(',')
                t = ('func', t, params, vararg)
            elif pk[1] == 'addrspace':
                self.next()
                self.expect('(')
                self.next()
                self.expect(')')
            else:
                break
        return t

    def _looks_like_fnty(self):
        # after a type, '(' starts a function type iff what follows is a type list;
        # in 'call T (..)* @f(args)' and 'T (T,T)*'.  A constant expression never directly follows a type w/o keyword.
        # We are only called at a '(' that directly follows a complete type.
        # Distinguish from call argument list: handled by the call parser (it parses the callee before '(').
        return True

    def _type_list(self, close):
        out = []
        while not self.accept(close):
            out.append(self.type())
            self.accept(',')
        return out

    # ---- values
    def value(self, ty=None):
        k, v = self.next()
        if k == 'loc':
            return ('reg', unq(v))
        if k == 'glob':
            return ('glob', unq(v))
        if k == 'num':
            if v.startswith('0x') or '.' in v:
                return ('fp', v)
            return ('int', int(v))
        if k == 'str':
            return ('bytes', decode_cstring(v))
        if k == 'md':
            # metadata operand: skip the rest of a '!DIExpression(...)' if present
            if self.peek()[1] == '(':
                self._skip_parens()
            return ('md', v)
        if k == 'word':
            if v == 'true':
                return ('int', 1)
            if v == 'false':
                return ('int', 0)
            if v == 'null':
                return ('null',)
            if v in ('undef', 'poison'):
                return ('undef',)
            if v == 'zeroinitializer':
                return ('zero',)
            if v == 'getelementptr':
                self.accept('inbounds')
                self.expect('(')
                sty = self.type()
                self.expect(',')
                pty = self.type()
                base = self.value(pty)
                idx = []
                while self.accept(','):
                    self.accept('inrange')
                    ity = self.type()
                    idx.append(self.value(ity))
                self.expect(')')
                return ('cgep', sty, base, idx)
            if v in ('bitcast', 'ptrtoint', 'inttoptr', 'trunc', 'zext', 'sext', 'addrspacecast',
                     'fptrunc', 'fpext', 'sitofp', 'uitofp', 'fptosi', 'fptoui'):
                self.expect('(')
                fty = self.type()
                x = self.value(fty)
                self.expect('to')
                tty = self.type()
                self.expect(')')
                return ('ccast', v, x, tty)
            if v in ('add', 'sub', 'mul', 'and', 'or', 'xor', 'shl', 'lshr', 'ashr', 'udiv', 'sdiv', 'urem', 'srem'):
                while self.peek()[1] in ('nuw', 'nsw', 'exact'):
                    self.next()
                self.expect('(')
                t1 = self.type()
                a = self.value(t1)
                self.expect(',')
                t2 = self.type()
                b = self.value(t2)
                self.expect(')')
                return ('cbin', v, a, b)
            if v in ('icmp', 'fcmp'):
                pred = self.next()[1]
                self.expect('(')
                t1 = self.type()
                a = self.value(t1)
                self.expect(',')
                t2 = self.type()
                b = self.value(t2)
                self.expect(')')
                return ('ccmp', pred, a, b)
            if v == 'select':
                self.expect('(')
                vals = []
                while True:
                    t1 = self.type()
                    vals.append(self.value(t1))
                    if not self.accept(','):
                        break
                self.expect(')')
                return ('cselect', vals)
            if v == 'blockaddress':
                self._skip_parens()
                return ('blockaddress',)
            if v == 'metadata':
                # 'metadata i32 %x' or 'metadata !12'
                if self.peek()[0] == 'md':
                    return self.value()
                t1 = self.type()
                return ('mdwrap', self.value(t1))
            broken('IR parser: unknown value word %r in: %s' % (v, self.ctx[:300]))
        if v == '{' or v == '[' or v == '<':
            close = {'{': '}', '[': ']', '<': '>'}[v]
            if v == '<' and self.peek()[1] == '{':
                self.next()
                elems = self._agg('}')
                self.expect('>')
                return ('agg', elems)
            return ('agg', self._agg(close))
        broken('IR parser: cannot parse value at %r in: %s' % ((k, v), self.ctx[:300]))

    def _agg(self, close):
        elems = []
        while not self.accept(close):
            t1 = self.type()
            elems.append((t1, self.value(t1)))
            self.accept(',')
        return elems

    def _skip_parens(self):
        self.expect('(')
        depth = 1
        while depth:
            k, v = self.next()
            if k == 'eof':
                broken('IR parser: unbalanced parens in: %s' % self.ctx[:300])
            if v == '(':
                depth += 1
            elif v == ')':
                depth -= 1


# --------------------------------------------------------------------------
# IR objects
# --------------------------------------------------------------------------

class Insn:
    __slots__ = ('res', 'op', 'ty', 'ops', 'text', 'dbg', 'line', 'col', 'block', 'idx', 'extra', 'fn')

    def __repr__(self):
        return '<%s:%s %s>' % (self.fn.name if self.fn else '?', self.line, self.text[:80])

    @property
    def loc(self):
        return '%s:%s' % (self.fn.module.src if self.fn else '?', self.line)


class Block:
    __slots__ = ('name', 'insns', 'succs', 'preds', 'fn')

    def __repr__(self):
        return '<bb %s>' % self.name

    @property
    def term(self):
        return self.insns[-1]

    @property
    def first_line(self):
        for i in self.insns:
            if i.line:
                return i.line
        return None


class Func:
    def __init__(self):
        self.name = None
        self.internal = False
        self.params = []      # [(type, name)]
        self.ret = None
        self.blocks = {}      # name -> Block (insertion ordered)
        self.module = None
        self.line = None
        self.defs = {}        # reg name -> Insn
        self.param_attrs = []  # per param: set of attribute words (byval, sret, ...)
        self.noreturn = False

    def __repr__(self):
        return '<fn %s/%s>' % (self.module.unit, self.name)

    @property
    def entry(self):
        return next(iter(self.blocks.values()))

    def insns(self):
        for b in self.blocks.values():
            for i in b.insns:
                yield i

    def calls(self, name=None):
        for i in self.insns():
            if i.op == 'call' and (name is None or i.extra.get('callee') == name):
                yield i

    @property
    def qname(self):
        return '%s:%s' % (self.module.unit, self.name)

    def loc(self, ins=None):
        line = ins.line if ins is not None and ins.line else self.line
        return '%s:%s' % (self.module.src, line)


class Global:
    __slots__ = ('name', 'linkage', 'const', 'ty', 'init', 'external', 'dbg', 'module', 'text')


class Module:
    def __init__(self):
        self.unit = None      # 'compress'
        self.src = None       # 'src/compress.c'
        self.structs = {}     # name -> [types]
        self.globals = {}
        self.funcs = {}
        self.decls = {}       # declared functions name -> attrs text
        self.md = {}          # '!12' -> raw text
        self.attr_groups = {}
        self._field_names = {}

    # ---- debug info helpers
    def md_fields(self, ref):
        """parse '!DIxxx(a: b, c: d)' into dict (values raw strings)"""
        txt = self.md.get(ref)
        if txt is None:
            return None
        m = re.match(r'(?:distinct )?!(\w+)\((.*)\)\s*$', txt, re.S)
        if not m:
            return {'_kind': 'tuple', '_items': re.findall(r'![0-9]+|null', txt)}
        d = {'_kind': m.group(1)}
        body = m.group(2)
        # split on top-level commas
        depth = 0
        cur = ''
        parts = []
        instr = False
        for ch in body:
            if ch == '"':
                instr = not instr
            if not instr:
                if ch in '([{':
                    depth += 1
                elif ch in ')]}':
                    depth -= 1
                elif ch == ',' and depth == 0:
                    parts.append(cur)
                    cur = ''
                    continue
            cur += ch
        if cur.strip():
            parts.append(cur)
        for p_ in parts:
            if ':' in p_:
                k, v = p_.split(':', 1)
                d[k.strip()] = v.strip()
        return d

    def struct_field_names(self, di_type_ref):
        """names of the members of a DICompositeType (following typedef/const wrappers)"""
        seen = 0
        ref = di_type_ref
        while ref and seen < 10:
            d = self.md_fields(ref)
            if d is None:
                return None
            if d['_kind'] == 'DICompositeType' and 'elements' in d:
                el = self.md_fields(d['elements'])
                names = []
                for it in el.get('_items', []):
                    dd = self.md_fields(it)
                    if dd and dd.get('tag') == 'DW_TAG_member':
                        names.append(dd.get('name', '""').strip('"'))
                return names
            ref = d.get('baseType')
            seen += 1
        return None

    def field_names(self, struct_name):
        """field names for LLVM struct type name ('work_blk' for %struct.work_blk; 'anon.0' ...)"""
        if struct_name in self._field_names:
            return self._field_names[struct_name]
        names = None
        short = struct_name.split('.', 1)[1] if struct_name.startswith(('struct.', 'union.')) else struct_name
        if not short.startswith('anon'):
            for ref, txt in self.md.items():
                if 'DICompositeType' in txt and ('name: "%s"' % short) in txt and 'elements:' in txt:
                    names = self.struct_field_names(ref)
                    if names is not None:
                        break
        else:
            # anonymous: find a global of that type and use its debug type
            for g in self.globals.values():
                if g.ty == ('named', struct_name) and g.dbg:
                    d = self.md_fields(g.dbg)
                    if d and 'var' in d:
                        dv = self.md_fields(d['var'])
                        if dv and 'type' in dv:
                            names = self.struct_field_names(dv['type'])
                            if names:
                                break
        if names is not None and struct_name in self.structs and len(names) != len(self.structs[struct_name]):
            names = None   # bitfields/padding: do not trust
        self._field_names[struct_name] = names
        return names


_re_dbgloc = re.compile(r'^(![0-9]+) = !DILocation\(line: (\d+)(?:, column: (\d+))?')


def parse_module(path, unit, src):
    m = Module()
    m.unit = unit
    m.src = src
    lines = open(path).read().split('\n')
    dbgloc = {}
    cur = None
    bb = None
    i = 0
    n = len(lines)
    while i < n:
        s = lines[i]
        i += 1
        if not s or s.startswith(';') or s.startswith('source_filename') or s.startswith('target '):
            continue
        if s.startswith('!'):
            mm = _re_dbgloc.match(s)
            if mm:
                dbgloc[mm.group(1)] = (int(mm.group(2)), int(mm.group(3) or 0))
            k, _, v = s.partition(' = ')
            m.md[k] = v
            continue
        if s.startswith('%') and ' = type ' in s and cur is None:
            name, _, rest = s.partition(' = type ')
            p = P(tokenize(rest), s)
            t = p.type()
            m.structs[unq(name)] = t[1] if t[0] == 'struct' else []
            continue
        if s.startswith('@') and cur is None:
            _parse_global(m, s)
            continue
        if s.startswith('attributes #'):
            mm = re.match(r'attributes (#\d+) = \{(.*)\}', s)
            if mm:
                m.attr_groups[mm.group(1)] = mm.group(2)
            continue
        if s.startswith('declare '):
            mm = re.search(r'@([-\w.$]+)\(', s)
            if mm:
                m.decls[mm.group(1)] = s
            continue
        if s.startswith('define '):
            cur = _parse_define(m, s)
            bb = None
            continue
        if cur is None:
            continue
        if s == '}':
            cur = None
            continue
        mm = re.match(r'^([-\w.$]+|"[^"]*"):', s)
        if mm:
            bb = Block()
            bb.name = mm.group(1).strip('"')
            bb.insns = []
            bb.succs = []
            bb.preds = []
            bb.fn = cur
            cur.blocks[bb.name] = bb
            continue
        t = s.strip()
        if not t:
            continue
        if bb is None:
            bb = Block()
            bb.name = 'entry'
            bb.insns = []
            bb.succs = []
            bb.preds = []
            bb.fn = cur
            cur.blocks[bb.name] = bb
        # multi-line switch
        if re.match(r'^switch ', t) and t.endswith('['):
            while True:
                t2 = lines[i].strip()
                i += 1
                t += ' ' + t2
                if t2.startswith(']'):
                    break
        ins = _parse_insn(t, cur, m)
        if ins is not None:
            ins.block = bb
            ins.idx = len(bb.insns)
            bb.insns.append(ins)
    for f in m.funcs.values():
        _finish_function(f, dbgloc)
        if f._dbgref and f._dbgref in m.md:
            d = m.md_fields(f._dbgref)
            f.line = int(d['line']) if d and 'line' in d else None
    return m


def _parse_global(m, s):
    # @name = [linkage] [preemption] [visibility] [thread_local] [unnamed_addr] (global|constant) T [init], align N, !dbg !N
    name, _, rest = s.partition(' = ')
    g = Global()
    g.name = unq(name)
    g.module = m
    g.text = s
    toks = tokenize(rest)
    p = P(toks, s)
    g.linkage = 'external-def'
    g.external = False
    while True:
        k, v = p.peek()
        if v in ('private', 'internal', 'external', 'common', 'weak', 'linkonce', 'linkonce_odr', 'weak_odr',
                 'available_externally', 'appending', 'extern_weak'):
            p.next()
            if v in ('private', 'internal'):
                g.linkage = 'internal'
            elif v == 'external':
                g.linkage = 'external'
                g.external = True
            else:
                g.linkage = v
        elif v in ('dso_local', 'dso_preemptable', 'hidden', 'protected', 'default', 'unnamed_addr',
                   'local_unnamed_addr', 'thread_local', 'externally_initialized'):
            p.next()
        else:
            break
    k, v = p.next()
    if v not in ('global', 'constant'):
        # alias/ifunc etc.
        g.const = True
        g.ty = None
        g.init = None
        g.dbg = None
        m.globals[g.name] = g
        return
    g.const = (v == 'constant')
    g.ty = p.type()
    g.init = None
    if not g.external and p.peek()[1] != ',' and not p.at_end():
        g.init = p.value(g.ty)
    mm = re.search(r'!dbg (![0-9]+)', s)
    g.dbg = mm.group(1) if mm else None
    m.globals[g.name] = g


def _parse_define(m, s):
    f = Func()
    f.module = m
    mm = re.match(r'^define\s+(.*?)@([-\w.$]+|"[^"]*")\((.*)\)\s*(.*)\{\s*$', s)
    if not mm:
        broken('cannot parse define: ' + s[:200])
    head, name, params, tail = mm.groups()
    f.name = name.strip('"')
    f.internal = bool(re.search(r'\b(internal|private)\b', head))
    # return type is the last type in head
    ht = [t for t in tokenize(head) if t[1] not in ('dso_local', 'internal', 'private', 'hidden', 'noundef', 'signext',
                                                    'zeroext', 'nonnull', 'noalias', 'available_externally',
                                                    'linkonce_odr', 'weak', 'unnamed_addr', 'local_unnamed_addr')]
    try:
        f.ret = P(ht, s).type() if ht else ('void',)
    except AnalysisBroken:
        f.ret = None
    # params
    p = P(tokenize(params), s)
    idx = 0
    while not p.at_end():
        if p.accept('...'):
            f.params.append((('vararg',), '...'))
            break
        ty = p.type()
        a0 = p.i
        _skip_arg_attrs(p)
        attrs = {v for k, v in p.t[a0:p.i] if k == 'word'}
        k, v = p.peek()
        if k == 'loc':
            p.next()
            f.params.append((ty, unq(v)))
        else:
            f.params.append((ty, str(idx)))
        f.param_attrs.append(attrs)
        idx += 1
        p.accept(',')
    mm = re.search(r'!dbg (![0-9]+)', tail)
    f._dbgref = mm.group(1) if mm else None
    ag = re.findall(r'#\d+', tail)
    f._attrs = ag
    m.funcs[f.name] = f
    return f


def _skip_arg_attrs(p):
    while True:
        k, v = p.peek()
        if k != 'word':
            break
        if v in _ARG_ATTRS:
            p.next()
        elif v in _ARG_ATTRS_T:
            p.next()
            if p.peek()[1] == '(':
                p.next()
                p.type()
                p.expect(')')
        elif v in _ARG_ATTRS_N:
            p.next()
            if p.peek()[1] == '(':
                p._skip_parens()
            else:
                p.next()
        else:
            break


_BIN = {'add', 'sub', 'mul', 'udiv', 'sdiv', 'urem', 'srem', 'and', 'or', 'xor', 'shl', 'lshr', 'ashr',
        'fadd', 'fsub', 'fmul', 'fdiv', 'frem'}
_CAST = {'zext', 'sext', 'trunc', 'bitcast', 'ptrtoint', 'inttoptr', 'sitofp', 'uitofp', 'fptosi', 'fptoui',
         'fpext', 'fptrunc', 'addrspacecast'}


def _parse_insn(t, fn, m):
    ins = Insn()
    ins.text = t
    ins.fn = fn
    ins.extra = {}
    ins.ops = []
    ins.ty = None
    ins.res = None
    mm = re.search(r', !dbg (![0-9]+)', t)
    ins.dbg = mm.group(1) if mm else None
    ins.line = None
    ins.col = None
    body = t
    mm = re.match(r'^(%(?:[-\w.$]+|"[^"]*")) = (.*)$', t)
    if mm:
        ins.res = unq(mm.group(1))
        body = mm.group(2)
    # strip trailing metadata attachments
    body_nomd = re.sub(r'(, ![a-zA-Z_.]+ ![0-9]+)+\s*$', '', body)
    toks = tokenize(body_nomd)
    p = P(toks, t)
    op = p.next()[1]
    while op in ('tail', 'musttail', 'notail'):
        op = p.next()[1]
    ins.op = op
    if op == 'call':
        _parse_call(ins, p, m)
        # debug intrinsics are not instructions of the program
        if (ins.extra.get('callee') or '').startswith('llvm.dbg.'):
            ins.op = 'dbg'
            if ins.extra['callee'] == 'llvm.dbg.declare' or ins.extra['callee'] == 'llvm.dbg.value':
                # remember variable <-> value association
                try:
                    a0 = ins.ops[0]
                    a1 = ins.ops[1]
                    if a0[0] == 'mdwrap' and a1[0] == 'md':
                        ins.extra['var'] = a1[1]
                        ins.extra['val'] = a0[1]
                except Exception:
                    pass
    elif op == 'ret':
        ty = p.type()
        ins.ty = ty
        if ty != ('void',):
            ins.ops = [p.value(ty)]
    elif op == 'br':
        if p.accept('label'):
            ins.extra['targets'] = [unq(p.next()[1])]
        else:
            ty = p.type()
            c = p.value(ty)
            ins.ops = [c]
            p.expect(',')
            p.expect('label')
            a = unq(p.next()[1])
            p.expect(',')
            p.expect('label')
            b = unq(p.next()[1])
            ins.extra['targets'] = [a, b]
    elif op == 'switch':
        ty = p.type()
        ins.ops = [p.value(ty)]
        p.expect(',')
        p.expect('label')
        ins.extra['default'] = unq(p.next()[1])
        p.expect('[')
        cases = []
        while not p.accept(']'):
            cty = p.type()
            cv = p.value(cty)
            p.expect(',')
            p.expect('label')
            cases.append((cv[1], unq(p.next()[1])))
        ins.extra['cases'] = cases
        ins.extra['targets'] = [ins.extra['default']] + [c[1] for c in cases]
    elif op == 'unreachable':
        ins.extra['targets'] = []
    elif op == 'alloca':
        p.accept('inalloca')
        ins.extra['aty'] = p.type()
        ins.ty = ('ptr', ins.extra['aty'])
    elif op == 'load':
        if p.accept('volatile'):
            ins.extra['volatile'] = True
        p.accept('atomic')
        ins.ty = p.type()
        p.expect(',')
        pty = p.type()
        ins.ops = [p.value(pty)]
    elif op == 'store':
        if p.accept('volatile'):
            ins.extra['volatile'] = True
        p.accept('atomic')
        vty = p.type()
        v = p.value(vty)
        p.expect(',')
        pty = p.type()
        ptr = p.value(pty)
        ins.ops = [v, ptr]
        ins.extra['vty'] = vty
    elif op == 'getelementptr':
        p.accept('inbounds')
        sty = p.type()
        p.expect(',')
        pty = p.type()
        base = p.value(pty)
        idx = []
        while p.accept(','):
            ity = p.type()
            idx.append(p.value(ity))
        ins.ops = [base] + idx
        ins.extra['sty'] = sty
    elif op in ('icmp', 'fcmp'):
        ins.extra['pred'] = p.next()[1]
        ty = p.type()
        a = p.value(ty)
        p.expect(',')
        b = p.value(ty)
        ins.ops = [a, b]
        ins.extra['cty'] = ty
        ins.ty = ('int', 1)
    elif op == 'phi':
        ty = p.type()
        ins.ty = ty
        inc = []
        while True:
            p.expect('[')
            v = p.value(ty)
            p.expect(',')
            bbn = unq(p.next()[1])
            p.expect(']')
            inc.append((v, bbn))
            if not p.accept(','):
                break
        ins.extra['incoming'] = inc
        ins.ops = [v for v, _ in inc]
    elif op == 'select':
        cty = p.type()
        c = p.value(cty)
        p.expect(',')
        ty = p.type()
        a = p.value(ty)
        p.expect(',')
        ty2 = p.type()
        b = p.value(ty2)
        ins.ops = [c, a, b]
        ins.ty = ty
    elif op in _BIN:
        while p.peek()[1] in ('nuw', 'nsw', 'exact', 'fast', 'nnan', 'ninf', 'nsz', 'arcp', 'contract', 'afn', 'reassoc'):
            p.next()
        ty = p.type()
        a = p.value(ty)
        p.expect(',')
        b = p.value(ty)
        ins.ops = [a, b]
        ins.ty = ty
    elif op in _CAST:
        fty = p.type()
        v = p.value(fty)
        p.expect('to')
        ins.ty = p.type()
        ins.ops = [v]
        ins.extra['fty'] = fty
    elif op == 'fneg':
        ty = p.type()
        ins.ops = [p.value(ty)]
        ins.ty = ty
    elif op in ('extractvalue', 'insertvalue'):
        ty = p.type()
        v = p.value(ty)
        ins.ops = [v]
        if op == 'insertvalue':
            p.expect(',')
            ty2 = p.type()
            ins.ops.append(p.value(ty2))
        idx = []
        while p.accept(','):
            idx.append(int(p.next()[1]))
        ins.extra['idx'] = idx
        ins.extra['aggty'] = ty
    elif op == 'va_arg':
        ty = p.type()
        ins.ops = [p.value(ty)]
        p.expect(',')
        ins.ty = p.type()
    else:
        broken('IR parser: unknown opcode %r in %s: %s' % (op, fn.name, t[:200]))
    return ins


def _parse_call(ins, p, m):
    # call [fast-math] [cc] [ret attrs] <ty>|<fnty> <callee>(args) [fn attrs]
    while p.peek()[0] == 'word' and p.peek()[1] in ('fastcc', 'ccc', 'coldcc', 'fast', 'nnan', 'ninf', 'nsz', 'arcp',
                                                   'contract', 'afn', 'reassoc', 'noundef', 'signext', 'zeroext',
                                                   'nonnull', 'noalias', 'inreg'):
        p.next()
    while p.peek()[1] in _ARG_ATTRS_N:
        p.next()
        if p.peek()[1] == '(':
            p._skip_parens()
        else:
            p.next()
    # The return type may be followed by a function-type suffix '(...)' then '*'? In LLVM 14 calls print either
    # 'call i32 @f(...)' or 'call i32 (i8*, ...) @printf(...)'.  Our type parser treats '(' after a type as a
    # function type, which would swallow the argument list in the first form -- so parse the return type manually.
    save = p.i
    ty = _call_ret_type(p)
    ins.ty = ty
    k, v = p.peek()
    if k == 'glob':
        p.next()
        ins.extra['callee'] = unq(v)
        ins.extra['callee_val'] = ('glob', unq(v))
    elif k == 'loc':
        p.next()
        ins.extra['callee'] = None
        ins.extra['callee_val'] = ('reg', unq(v))
    elif v in ('bitcast', 'asm', 'inttoptr'):
        if v == 'asm':
            broken('inline asm call: ' + ins.text[:200])
        cv = p.value()
        ins.extra['callee_val'] = cv
        ins.extra['callee'] = cv[2][1] if cv[0] == 'ccast' and cv[2][0] == 'glob' else None
    else:
        broken('IR parser: cannot find callee in: ' + ins.text[:200])
    p.expect('(')
    args = []
    atys = []
    while not p.accept(')'):
        aty = p.type()
        _skip_arg_attrs(p)
        if aty == ('metadata',):
            # metadata argument
            k2, v2 = p.peek()
            if k2 == 'md':
                args.append(p.value())
            else:
                t1 = p.type()
                _skip_arg_attrs(p)
                args.append(('mdwrap', p.value(t1)))
        else:
            args.append(p.value(aty))
        atys.append(aty)
        p.accept(',')
    ins.ops = args
    ins.extra['atys'] = atys
    ins.extra['fnattrs'] = [v for k, v in p.t[p.i:] if k == 'attr']


def _call_ret_type(p):
    """parse the return type of a call without mistaking the argument list for a function type"""
    # try: full type parse, then check that next token is a callee.  If the type parser consumed '(...)' as a
    # function type and the next token is not a callee, back off.
    start = p.i
    # parse base type w/o function suffix
    t = _type_nofn(p)
    # now either callee, or a function type suffix '(types)' possibly followed by '*'s
    k, v = p.peek()
    if k in ('glob', 'loc') or v in ('bitcast', 'asm', 'inttoptr'):
        return t
    if v == '(':
        # function type: (params) then callee
        p.next()
        depth = 1
        while depth:
            k2, v2 = p.next()
            if v2 == '(':
                depth += 1
            elif v2 == ')':
                depth -= 1
            elif k2 == 'eof':
                broken('IR parser: bad call')
        while p.accept('*'):
            pass
        return t
    broken('IR parser: cannot parse call return type near %r in %s' % ((k, v), p.ctx[:200]))


def _type_nofn(p):
    k, v = p.peek()
    # temporarily parse a type but stop before '(': emulate by slicing tokens up to the first top-level '(' that
    # follows a complete base type.  Simple approach: parse base + '*' suffixes only.
    k, v = p.next()
    if k == 'word':
        if v == 'void':
            t = ('void',)
        elif re.fullmatch(r'i\d+', v):
            t = ('int', int(v[1:]))
        elif v in _FP:
            t = ('fp', v)
        elif v == 'ptr':
            t = ('ptr', ('void',))
        else:
            broken('IR parser: unknown call type %r in %s' % (v, p.ctx[:200]))
    elif k == 'loc':
        t = ('named', unq(v))
    elif v == '{':
        t = ('struct', p._type_list('}'))
    elif v == '[':
        n = int(p.next()[1])
        p.expect('x')
        e = p.type()
        p.expect(']')
        t = ('array', n, e)
    elif v == '<':
        n = int(p.next()[1])
        p.expect('x')
        e = p.type()
        p.expect('>')
        t = ('vec', n, e)
    else:
        broken('IR parser: cannot parse call type at %r in %s' % ((k, v), p.ctx[:200]))
    while p.accept('*'):
        t = ('ptr', t)
    return t


def _fold_constant_branches(f):
    """`br i1 true/false` (left behind by constant propagation after inlining a helper called with constant flags):
    keep the taken edge only, then drop the blocks nothing reaches and their phi inputs"""
    changed = False
    for b in f.blocks.values():
        if not b.insns:
            continue
        t = b.insns[-1]
        if t.op == 'br' and len(t.extra.get('targets', [])) == 2 and t.ops and t.ops[0][0] == 'int':
            tgt = t.extra['targets'][0] if t.ops[0][1] & 1 else t.extra['targets'][1]
            t.extra['targets'] = [tgt]
            t.ops = []
            changed = True
    if not changed:
        return
    first = next(iter(f.blocks))
    seen = {first}
    st = [first]
    while st:
        b = f.blocks[st.pop()]
        t = b.insns[-1]
        for x in t.extra.get('targets', []) if t.op in ('br', 'switch') else []:
            if x not in seen and x in f.blocks:
                seen.add(x)
                st.append(x)
    edges = set()
    for n in seen:
        t = f.blocks[n].insns[-1]
        for x in t.extra.get('targets', []) if t.op in ('br', 'switch') else []:
            edges.add((n, x))
    for n in list(f.blocks):
        if n not in seen:
            del f.blocks[n]
    for b in f.blocks.values():
        for i in b.insns:
            if i.op == 'phi':
                inc = [(v, src) for v, src in i.extra['incoming'] if (src, b.name) in edges]
                i.extra['incoming'] = inc
                i.ops = [v for v, _ in inc]


def _regs_in(v, out):
    if isinstance(v, tuple):
        if len(v) == 2 and v[0] == 'reg':
            out.add(v[1])
        else:
            for x in v:
                _regs_in(x, out)
    elif isinstance(v, list):
        for x in v:
            _regs_in(x, out)


def _thread_return_joins(f):
    """The inliner leaves a block `<callee>.exit` where the inlined returns meet: a phi of the return values and,
    when the caller only dispatches on the result, nothing but casts/tests and a branch or switch.  For the
    predecessors that supply a constant the dispatch is decided: let them jump straight to their target (what the
    code looked like before the helper was extracted).  Only done when nothing defined in the join is used elsewhere."""
    for bname in [n for n in f.blocks if re.search(r'\.exit\d*$', n)]:
        b = f.blocks.get(bname)
        if b is None or not b.insns:
            continue
        real = [i for i in b.insns if i.op != 'dbg']
        term = real[-1]
        if term.op not in ('br', 'switch') or not term.ops or term.ops[0][0] != 'reg':
            continue
        body = [i for i in real[:-1] if not (i.op in ('call', 'bitcast') and
                                            ((i.extra.get('callee') or '').startswith('llvm.lifetime.') or i.op == 'bitcast'))]
        if any(i.op not in ('phi', 'zext', 'sext', 'trunc', 'icmp') for i in body):
            continue
        defs = {i.res: i for i in body}
        # uses outside the block
        used = set()
        for ob in f.blocks.values():
            if ob is b:
                continue
            for i in ob.insns:
                if i.op == 'dbg':
                    continue
                _regs_in(i.ops, used)
                if i.op == 'phi':
                    _regs_in([v for v, _ in i.extra['incoming']], used)
        if used & set(defs):
            continue
        phis = [i for i in body if i.op == 'phi']

        def value_for(pred):
            env = {}
            for ph in phis:
                for v, src in ph.extra['incoming']:
                    if src == pred:
                        env[ph.res] = v[1] if v[0] == 'int' else (0 if v[0] in ('zero', 'null') else None)
            for i in body:
                if i.op == 'phi':
                    continue
                a = i.ops[0]
                av = a[1] if a[0] == 'int' else env.get(a[1]) if a[0] == 'reg' else None
                if av is None:
                    env[i.res] = None
                    continue
                if i.op in ('zext', 'sext', 'trunc'):
                    bits = i.ty[1] if i.ty and i.ty[0] == 'int' else 64
                    fb = i.extra.get('fty')
                    fb = fb[1] if fb and fb[0] == 'int' else 64
                    if i.op == 'sext' and av >> (fb - 1) & 1:
                        av = av - (1 << fb)
                    env[i.res] = av & ((1 << bits) - 1)
                elif i.op == 'icmp':
                    c = i.ops[1]
                    cv = c[1] if c[0] == 'int' else (0 if c[0] in ('zero', 'null') else None)
                    if cv is None or i.extra['pred'] not in ('eq', 'ne'):
                        env[i.res] = None
                    else:
                        bits = i.extra['cty'][1] if i.extra.get('cty') and i.extra['cty'][0] == 'int' else 64
                        m = (1 << bits) - 1
                        env[i.res] = int(((av & m) == (cv & m)) == (i.extra['pred'] == 'eq'))
            return env.get(term.ops[0][1])
        for pred in list(dict.fromkeys(src for ph in phis for _, src in ph.extra['incoming'])):
            if pred not in f.blocks:
                continue
            val = value_for(pred)
            if val is None:
                continue
            if term.op == 'br':
                if len(term.extra['targets']) != 2:
                    continue
                tgt = term.extra['targets'][0] if val & 1 else term.extra['targets'][1]
            else:
                tgt = term.extra['default']
                for cv, t in term.extra['cases']:
                    if cv == val:
                        tgt = t
            if tgt == bname or tgt not in f.blocks:
                continue
            tb = f.blocks[tgt]
            tphis = [i for i in tb.insns if i.op == 'phi']
            if any(src == pred for ph in tphis for _, src in ph.extra['incoming']):
                continue        # the predecessor already reaches the target directly: values could differ
            pt = f.blocks[pred].insns[-1]
            if pt.op not in ('br', 'switch'):
                continue
            pt.extra['targets'] = [tgt if x == bname else x for x in pt.extra['targets']]
            if pt.op == 'switch':
                if pt.extra['default'] == bname:
                    pt.extra['default'] = tgt
                pt.extra['cases'] = [(cv, tgt if t == bname else t) for cv, t in pt.extra['cases']]
            for ph in tphis:
                for v, src in list(ph.extra['incoming']):
                    if src == bname:
                        ph.extra['incoming'].append((v, pred))
                        ph.ops = [x for x, _ in ph.extra['incoming']]
            for ph in phis:
                ph.extra['incoming'] = [(v, src) for v, src in ph.extra['incoming'] if src != pred]
                ph.ops = [v for v, _ in ph.extra['incoming']]
        if phis and all(not ph.extra['incoming'] for ph in phis):
            # nothing reaches the join any more
            for ob in f.blocks.values():
                for i in ob.insns:
                    if i.op == 'phi':
                        i.extra['incoming'] = [(v, src) for v, src in i.extra['incoming'] if src != bname]
                        i.ops = [v for v, _ in i.extra['incoming']]
            del f.blocks[bname]


def _finish_function(f, dbgloc):
    _fold_constant_branches(f)
    _thread_return_joins(f)
    for b in f.blocks.values():
        if not b.insns:
            broken('empty block %s in %s' % (b.name, f.name))
        for ins in b.insns:
            if ins.dbg and ins.dbg in dbgloc:
                ins.line, ins.col = dbgloc[ins.dbg]
            if ins.res is not None:
                f.defs[ins.res] = ins
        t = b.insns[-1]
        if t.op not in ('br', 'switch', 'ret', 'unreachable'):
            broken('block %s of %s does not end in a terminator: %s' % (b.name, f.name, t.text[:100]))
        if t.op in ('br', 'switch'):
            seen = []
            for s in t.extra['targets']:
                if s not in seen:
                    seen.append(s)
            b.succs = seen
        else:
            b.succs = []
    for b in f.blocks.values():
        for s in b.succs:
            if s not in f.blocks:
                broken('unknown successor %s in %s' % (s, f.name))
            f.blocks[s].preds.append(b.name)


# --------------------------------------------------------------------------
# program = all modules
# --------------------------------------------------------------------------

class Program:
    def __init__(self, build, form='ssa'):
        self.build = build
        self.form = form
        self.modules = {}
        paths = build.ssa if form == 'ssa' else build.raw
        for unit in build.units:
            base = os.path.splitext(os.path.basename(unit))[0]
            self.modules[base] = parse_module(paths[base], base, unit)
        # external-linkage function table
        self.ext = {}
        for m in self.modules.values():
            for f in m.funcs.values():
                if not f.internal:
                    if f.name in self.ext:
                        broken('duplicate external function ' + f.name)
                    self.ext[f.name] = f
        # noreturn info
        self.noreturn = set()
        for m in self.modules.values():
            for name, txt in m.decls.items():
                for a in re.findall(r'#\d+', txt):
                    if 'noreturn' in m.attr_groups.get(a, ''):
                        self.noreturn.add(name)
            for f in m.funcs.values():
                for a in f._attrs:
                    if 'noreturn' in m.attr_groups.get(a, ''):
                        f.noreturn = True
                        if not f.internal:
                            self.noreturn.add(f.name)

    def module(self, unit):
        if unit not in self.modules:
            broken('unit %s vanished' % unit)
        return self.modules[unit]

    def func(self, unit, name):
        m = self.module(unit)
        if name not in m.funcs:
            broken('anchor function %s:%s vanished' % (unit, name))
        return m.funcs[name]

    def has_func(self, unit, name):
        return unit in self.modules and name in self.modules[unit].funcs

    def resolve(self, module, name):
        """callee name -> Func or None (external library)"""
        if name is None:
            return None
        if name in module.funcs:
            return module.funcs[name]
        return self.ext.get(name)

    def all_funcs(self):
        for m in self.modules.values():
            for f in m.funcs.values():
                yield f

    def glob(self, unit, name):
        m = self.module(unit)
        if name not in m.globals:
            broken('anchor global %s:%s vanished' % (unit, name))
        return m.globals[name]

    def global_owner(self, module, name):
        """the defining Global object for a (possibly extern-declared) global name"""
        g = module.globals.get(name)
        if g is None:
            return None
        if not g.external:
            return g
        for m in self.modules.values():
            gg = m.globals.get(name)
            if gg is not None and not gg.external and gg.linkage != 'internal':
                return gg
        return g   # library global (stderr, ...)

    def gkey(self, module, name):
        """canonical key of a global: 'unit:name' for internal, 'name' for external linkage"""
        g = module.globals.get(name)
        if g is None:
            return name
        if g.linkage == 'internal':
            return '%s:%s' % (module.unit, name)
        return name


def init_ints(val):
    """flatten an initializer of an integer array (possibly nested) into python ints"""
    k = val[0]
    if k == 'int':
        return [val[1]]
    if k == 'bytes':
        return list(val[1])
    if k == 'zero':
        return None
    if k == 'agg':
        out = []
        for t, v in val[1]:
            r = init_ints(v)
            if r is None:
                r = [0] * type_count(t)
            out.extend(r)
        return out
    broken('initializer is not an integer aggregate: %r' % (val[:1],))


def type_count(t):
    if t[0] == 'array':
        return t[1] * type_count(t[2])
    if t[0] == 'struct':
        return sum(type_count(x) for x in t[1])
    return 1


def enumerators(module):
    """name -> value of every C enumerator visible in the unit's debug info"""
    out = {}
    for txt in module.md.values():
        mm = re.match(r'!DIEnumerator\(name: "([^"]+)", value: (-?\d+)', txt)
        if mm:
            out[mm.group(1)] = int(mm.group(2))
    return out


def reg_var_names(fn):
    """SSA register -> source variable name, from llvm.dbg.value intrinsics"""
    out = {}
    m = fn.module
    for b in fn.blocks.values():
        for i in b.insns:
            if i.op == 'dbg' and 'var' in i.extra:
                v = i.extra['val']
                if isinstance(v, tuple) and len(v) >= 2 and v[0] == 'reg':
                    d = m.md_fields(i.extra['var'])
                    if d and 'name' in d:
                        out[v[1]] = d['name'].strip('"')
    return out


def var_roles(fn, P):
    """source-variable names by what they are initialised from, so that rules can name a local by its role instead
    of its spelling: {'.field': var} for `var = obj->field`, {'param:NAME': var} for `var = NAME`,
    {'*param:NAME': var} for `var = *NAME`.  Derived from the llvm.dbg.value that binds the initial value."""
    from prov import strip_casts, path_key
    out = {}
    for b in fn.blocks.values():
        for i in b.insns:
            if i.op != 'dbg' or 'var' not in i.extra:
                continue
            v = i.extra['val']
            if not (isinstance(v, tuple) and len(v) >= 2 and v[0] == 'reg'):
                continue
            d = fn.module.md_fields(i.extra['var'])
            if not d or 'name' not in d:
                continue
            name = d['name'].strip('"')
            try:
                e = strip_casts(P.expr(v))
            except Exception:
                continue
            key = None
            if e[0] == 'load':
                a = e[1]
                if a[2] and a[2][-1][0] == 'f':
                    key = path_key(a[2][-1:])
                elif not a[2] and a[1][0] == 'V' and strip_casts(a[1][1])[0] == 'param':
                    key = '*param:' + strip_casts(a[1][1])[2]
            elif e[0] == 'param':
                key = 'param:' + e[2]
            if key is not None:
                if key.startswith('param:') and name == key[6:]:
                    continue            # the parameter itself, not a local initialised from it
                out.setdefault(key, name)
    return out

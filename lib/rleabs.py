"""Abstract interpretation of the run-length collector collect() (encode.c) against the greedy packing rule (C04).

The rule is about three unbounded quantities -- the room left in the block, the input left in the buffer and the
length of the run in progress -- and about which input bytes are equal.  None of them is enumerated here.  The
interpreter walks collect()'s SSA form path by path over an abstract state in which

  * pointers into the block / the input buffer are linear forms over the symbols NB0 (bytes already in the block),
    CAP (the block capacity), AV0 (the length of the buffer) -- e.g. q = BLK+NB0+3, qMax = BLK+CAP-1, pLim = IN+AV0;
  * what is known about R0 = CAP-NB0, AV0 and T0 (the carried run length, if >= 4) is one integer interval each,
    refined only by the comparisons the code itself makes (a comparison the interval does not decide forks the path
    into the two -- or three -- sub-intervals, each of which is inhabited);
  * an input byte is a symbol 'the byte at inbuf[i]'; equalities between bytes are a partial equivalence relation
    filled in only where the code compares (again by forking);
  * a ghost run-length packer (n = copies of the run character written, T = length of the run once n == 4,
    acc = input bytes accounted for, w = bytes stored) is advanced by the code's own stores, never by the input.

States are merged at block entry on a canonical key in which every offset is relative to the fill cursor / the
accounted position, so loops converge.  Entry states: the state encoder_init() leaves, plus (to a fixpoint) every
state a 'not full' return can leave behind for the next call.  What is checked on every abstract path is listed in
RULES.  Every abstract path is inhabited by concrete executions (intervals are split, never widened; the
partition of bytes is arbitrary), so a rule failing on a path is a concrete counterexample class, and a construct
the domain cannot express ends the analysis (AnalysisBroken, exit 2) instead of producing a verdict.

This is not an execution of lbzip2: no input exists, capacities and run lengths stay symbolic.
"""
from irdb import broken, AnalysisBroken

INF = float('inf')

RULES = {
    'capacity': 'every store into the block is at the fill cursor and finds room (cursor <= last slot)',
    'fourth': 'the fourth copy of a run is stored only when it and its count byte both fit (room >= 2)',
    'data': 'bytes go into the block in input order; a fifth equal copy is never stored, a run of four is never '
            'left without its count',
    'count': 'a count byte is stored only to close a run of four copies, equals (run length - 4), and the run is '
             'closed only because the next byte differs or the run has reached 259',
    'full': 'the block is declared full only when no slot is left, or one slot is left after three equal copies and '
            'the next input byte exists and continues the run',
    'notfull': 'a "not full" return happens only when the input buffer is exhausted',
    'consumed': 'the bytes reported consumed are exactly those that went into the block (as copies or in a count)',
    'carry': 'the run state, run character and fill count saved for the next call describe the run actually in '
             'progress (and a run of four keeps a slot reserved for its count)',
    'input': 'the input buffer is read only below its end',
    'assert': 'no assertion of collect() can fail',
    'flush': 'encode() closes a run of four copies left open by collect() with its count byte (run length - 4) before '
             'the block is sorted, and stores nothing otherwise',
    'crc': 'the block CRC saved covers exactly the input bytes that went into the block (a byte given back is also '
           'taken out of the CRC)',
}


class Fork(Exception):
    def __init__(self, alts):
        self.alts = alts


class Violation(Exception):
    def __init__(self, rule, msg):
        self.rule = rule
        self.msg = msg


class Lin:
    """k + sum coef[s]*s over symbols CAP, NB0, AV0, T0"""
    __slots__ = ('k', 'c')

    def __init__(self, k=0, c=None):
        self.k = k
        self.c = {s: v for s, v in (c or {}).items() if v}

    def add(self, o, sign=1):
        if isinstance(o, int):
            return Lin(self.k + sign * o, self.c)
        c = dict(self.c)
        for s, v in o.c.items():
            c[s] = c.get(s, 0) + sign * v
        return Lin(self.k + sign * o.k, c)

    def key(self):
        return (self.k, tuple(sorted(self.c.items())))

    def simp(self):
        return self.k if not self.c else self

    def __repr__(self):
        parts = ['%s%s' % ('' if v == 1 else ('-' if v == -1 else '%d*' % v), s) for s, v in sorted(self.c.items())]
        if self.k or not parts:
            parts.append(str(self.k))
        return '+'.join(parts).replace('+-', '-')


def lin(v):
    return v if isinstance(v, Lin) else Lin(v)


class Top:
    def __repr__(self):
        return 'T'


TOP = Top()


class Byte:
    __slots__ = ('id',)

    def __init__(self, i):
        self.id = i

    def __repr__(self):
        return 'byte%s' % (self.id,)


class Ptr:
    """kind: 'S' (field of *s; off = path tuple), 'SA' (s->SA + off 32-bit words), 'B' (block + off), 'I' (inbuf +
    off), 'P' (pointer parameter; off = name), 'G' (global; off = name)"""
    __slots__ = ('kind', 'off')

    def __init__(self, kind, off):
        self.kind = kind
        self.off = off

    def __repr__(self):
        return '%s+%r' % (self.kind, self.off)


class Crc:
    """the running CRC after input bytes [0, n) -- 'st' in ('v', 'shl', 'shr') are the partial products of CRC()"""
    __slots__ = ('n', 'st', 'b')

    def __init__(self, n, st='v', b=None):
        self.n = n
        self.st = st
        self.b = b

    def __repr__(self):
        return 'crc%d%s' % (self.n, '' if self.st == 'v' else ':' + self.st)


class State:
    __slots__ = ('regs', 'mem', 'n', 'c', 'T', 'w', 'acc', 'iv', 'cls', 'ne', 'trace', 'entry', 'marks', 'pred', 'gh')

    def clone(self):
        s = State()
        s.regs = dict(self.regs)
        s.mem = dict(self.mem)
        s.n, s.c, s.T, s.w, s.acc = self.n, self.c, self.T, self.w, self.acc
        s.iv = dict(self.iv)
        s.cls = dict(self.cls)
        s.ne = set(self.ne)
        s.trace = list(self.trace)
        s.entry = self.entry
        s.marks = set(self.marks)
        s.pred = self.pred
        s.gh = dict(self.gh) if getattr(self, 'gh', None) is not None else {}
        return s

    # ---- bytes
    def rep(self, i):
        while i in self.cls:
            i = self.cls[i]
        return i

    def eq(self, a, b):
        """True / False / None"""
        ra, rb = self.rep(a), self.rep(b)
        if ra == rb:
            return True
        if frozenset((ra, rb)) in self.ne:
            return False
        return None

    def set_eq(self, a, b, val):
        ra, rb = self.rep(a), self.rep(b)
        if val:
            if ra == rb:
                return
            self.cls[ra] = rb
            self.ne = {frozenset(self.rep(x) for x in pr) for pr in self.ne}
        else:
            self.ne.add(frozenset((ra, rb)))

    # ---- intervals
    def sym_of(self, l):
        """(symbol, coefficient, constant) of a linear form over exactly one tracked quantity (R0 = CAP-NB0, AV0, T0),
        or None for a constant; raises if the form is not of that shape"""
        c = l.c
        if not c:
            return None
        if set(c) == {'CAP', 'NB0'} and c['CAP'] == -c['NB0']:
            return ('R0', c['CAP'], l.k)
        if len(c) == 1:
            s, a = next(iter(c.items()))
            if s in ('AV0', 'T0', 'NB0', 'CAP'):
                return (s, a, l.k)
        raise AnalysisBroken('rleabs: comparison on %r is outside the domain' % (l,))

    def terms(self, l):
        """the form as k + sum a_i * X_i over tracked quantities X_i (R0 = CAP - NB0 is one quantity)"""
        c = dict(l.c)
        out = []
        if 'CAP' in c and 'NB0' in c and c['CAP'] == -c['NB0']:
            out.append(('R0', c.pop('CAP')))
            c.pop('NB0')
        for sname, a in c.items():
            if sname not in self.iv:
                if sname.startswith('v:'):
                    self.iv[sname] = (0, 255)
                else:
                    raise AnalysisBroken('rleabs: comparison on %r is outside the domain' % (l,))
            out.append((sname, a))
        return l.k, out

    def rng(self, l):
        k, ts = self.terms(l)
        lo = hi = k
        for sname, a in ts:
            x, y = self.iv[sname]
            p, q = a * x, a * y
            lo += min(p, q)
            hi += max(p, q)
        return (lo, hi)

    def norm(self, l, keep=('R0',)):
        """replace quantities known exactly by their value"""
        if not isinstance(l, Lin) or not l.c:
            return l
        k, ts = self.terms(l)
        c = dict(l.c)
        for sname, a in ts:
            x, y = self.iv[sname]
            if x == y and sname not in keep:
                k += a * x
                c.pop(sname, None)
        return Lin(k, c).simp()

    def decide(self, l, pred):
        """truth of (l pred 0) for pred in eq ne lt le gt ge, or fork"""
        lo, hi = self.rng(l)
        def tv(p):
            if p == 'eq':
                return True if lo == hi == 0 else (False if lo > 0 or hi < 0 else None)
            if p == 'lt':
                return True if hi < 0 else (False if lo >= 0 else None)
            if p == 'le':
                return True if hi <= 0 else (False if lo > 0 else None)
        neg = {'ne': 'eq', 'ge': 'lt', 'gt': 'le'}
        r = tv(neg[pred]) if pred in neg else tv(pred)
        if r is not None:
            return (not r) if pred in neg else r
        k, ts = self.terms(l)
        ts = [(sn, a) for sn, a in ts if self.iv[sn][0] != self.iv[sn][1]] or ts
        kk = k + sum(a * self.iv[sn][0] for sn, a in self.terms(l)[1] if (sn, a) not in ts)
        if len(ts) == 1:
            # undetermined: split the quantity's interval at the threshold
            s, a = ts[0]
            k = kk
            slo, shi = self.iv[s]
            if (-k) % a:
                raise AnalysisBroken('rleabs: non-integral threshold in %r' % (l,))
            x0 = (-k) // a
            pieces = []
            if slo <= x0 - 1:
                pieces.append((slo, min(shi, x0 - 1)))
            if slo <= x0 <= shi:
                pieces.append((x0, x0))
            if x0 + 1 <= shi:
                pieces.append((max(slo, x0 + 1), shi))
            if len(pieces) < 2:
                raise AnalysisBroken('rleabs: cannot split %s in %r' % (s, (slo, shi)))

            def mk(p):
                def f(st):
                    st.iv[s] = p
                    st.propagate()
                return f
            raise Fork([mk(p) for p in pieces])
        if len(ts) == 2 and all(abs(a) == 1 for _, a in ts) and ts[0][1] == -ts[1][1] and pred in ('lt', 'le', 'gt', 'ge'):
            # X - Y + k  <pred>  0 between two quantities: fork on the order and tighten both intervals
            (x, ax), (y, ay) = ts
            if ax < 0:
                (x, ax), (y, ay) = (y, ay), (x, ax)
            k = kk
            # form: X - Y + k ; canonical question: X - Y + k < c0  with c0 = 0 (lt) or 1 (le)
            strict = {'lt': 0, 'le': 1, 'ge': 0, 'gt': 1}[pred]
            q = ('rel', x, y, k - strict)
            rel = self.gh.get('rel', ())
            for qq, truth in rel:
                if qq == q:
                    return truth if pred in ('lt', 'le') else not truth

            def less(st):        # X - Y + k < strict  <=>  X <= Y - k + strict - 1
                xl, xh = st.iv[x]
                yl, yh = st.iv[y]
                st.iv[x] = (xl, min(xh, yh - k + strict - 1))
                st.iv[y] = (max(yl, xl + k - strict + 1), yh)
                st.gh['rel'] = tuple(st.gh.get('rel', ())) + ((q, True),)
                st.propagate()

            def notless(st):     # X - Y + k >= strict  <=>  X >= Y - k + strict
                xl, xh = st.iv[x]
                yl, yh = st.iv[y]
                st.iv[x] = (max(xl, yl - k + strict), xh)
                st.iv[y] = (yl, min(yh, xh + k - strict))
                st.gh['rel'] = tuple(st.gh.get('rel', ())) + ((q, False),)
                st.propagate()
            raise Fork([less, notless])
        raise AnalysisBroken('rleabs: comparison on %r is outside the domain' % (l,))

    def propagate(self):
        """re-tighten the intervals of quantities related by a remembered order fact (X - Y + kk < 0, or its negation)"""
        rel = self.gh.get('rel', ()) if self.gh else ()
        for _ in range(4):
            changed = False
            for (tag, x, y, kk), truth in rel:
                if x not in self.iv or y not in self.iv:
                    continue
                xl, xh = self.iv[x]
                yl, yh = self.iv[y]
                if truth:
                    nx = (xl, min(xh, yh - kk - 1))
                    ny = (max(yl, xl + kk + 1), yh)
                else:
                    nx = (max(xl, yl - kk), xh)
                    ny = (yl, min(yh, xh + kk))
                if nx != (xl, xh) or ny != (yl, yh):
                    self.iv[x], self.iv[y] = nx, ny
                    changed = True
            if not changed:
                break

    def holds(self, l, pred):
        """like decide but without forking: True only if it holds on the whole interval"""
        lo, hi = self.rng(l)
        if pred == 'ge':
            return lo >= 0
        if pred == 'gt':
            return lo > 0
        if pred == 'eq':
            return lo == hi == 0
        if pred == 'le':
            return hi <= 0
        if pred == 'lt':
            return hi < 0
        raise ValueError(pred)

    def room(self):
        return Lin(-self.w, {'CAP': 1, 'NB0': -1})

    def avail(self, g=None):
        return Lin(-(self.acc if g is None else g), {'AV0': 1})


def _mask(v, bits):
    return v & ((1 << bits) - 1)


def _sgn(v, bits):
    v = _mask(v, bits)
    return v - (1 << bits) if v >> (bits - 1) else v


class Engine:
    def __init__(self, prog, fn, roles=None, max_states=400000, final=False):
        self.final = final      # encode(): no input; the first call into the block sorter ends the walk
        self.prog = prog
        self.fn = fn
        self.m = fn.module
        self.max_states = max_states
        self.results = {}      # (rule, site) -> [n_ok, n_bad, first_bad_detail]
        self.exits = {'full': 0, 'notfull': 0, 'abort': 0}
        self.visited = 0
        self.events = {'data': set(), 'count': set()}
        self.carry_out = {}    # canonical entry key -> entry State (for the fixpoint)
        self.truncated = []
        self.live = self._liveness()
        self.struct = self._struct_of(fn.params[0][0])
        self.memlive = self._mem_liveness()
        self.sname = fn.params[0][1]
        self.inname = self.szname = None
        self.others = []
        for ty, nm in fn.params[1:]:
            if ty == ('ptr', ('int', 8)) and self.inname is None and not final:
                self.inname = nm
            elif ty[0] == 'ptr' and ty[1][0] == 'int' and self.szname is None and not final:
                self.szname = nm
            else:
                self.others.append((ty, nm))
        if not final and (self.inname is None or self.szname is None):
            raise AnalysisBroken('rleabs: %s does not take (state, byte buffer, size pointer)' % fn.name)
        self.fields = self.m.field_names(self.struct) or []
        for need in ('rle_state', 'rle_character', 'nblock', 'max_block_size', 'SA'):
            if need not in self.fields:
                raise AnalysisBroken('rleabs: %s has no field %s' % (self.struct, need))
        self.roles = roles or {}

    # ------------------------------------------------------------------ set-up
    def _struct_of(self, ty):
        if ty[0] == 'ptr' and ty[1][0] == 'named':
            return ty[1][1]
        raise AnalysisBroken('rleabs: first parameter of %s is not a struct pointer' % self.fn.name)

    def _liveness(self):
        fn = self.fn
        use, defs = {}, {}
        phi_use = {}   # (pred, blk) -> regs used by blk's phis on that edge
        # faint values: a phi whose result no instruction ever uses (directly or through other phis) carries a
        # variable that is re-assigned before it is read again; neither it nor its inputs are kept alive by it
        needed = set()
        for b in fn.blocks.values():
            for i in b.insns:
                if i.op not in ('phi', 'dbg'):
                    needed.update(self._uses(i))
        grew = True
        while grew:
            grew = False
            for b in fn.blocks.values():
                for i in b.insns:
                    if i.op == 'phi' and i.res in needed:
                        for v, _ in i.extra['incoming']:
                            if v[0] == 'reg' and v[1] not in needed:
                                needed.add(v[1])
                                grew = True
        self.needed = needed
        for b in fn.blocks.values():
            u, d = set(), set()
            for i in b.insns:
                if i.op == 'phi':
                    if i.res not in needed:
                        d.add(i.res)
                        continue
                    for v, pb in i.extra['incoming']:
                        if v[0] == 'reg':
                            phi_use.setdefault((pb, b.name), set()).add(v[1])
                else:
                    for v in self._uses(i):
                        if v not in d:
                            u.add(v)
                if i.res:
                    d.add(i.res)
            use[b.name], defs[b.name] = u, d
        live_in = {b: set() for b in fn.blocks}
        changed = True
        while changed:
            changed = False
            for b in fn.blocks.values():
                out = set()
                for s in b.succs:
                    out |= live_in[s]
                    out |= phi_use.get((b.name, s), set())
                new = use[b.name] | (out - defs[b.name])
                if new != live_in[b.name]:
                    live_in[b.name] = new
                    changed = True
        # registers live at block entry *after* the phis
        for b in fn.blocks.values():
            for i in b.insns:
                if i.op == 'phi' and i.res in needed:
                    live_in[b.name] = live_in[b.name] | {i.res}
        return live_in

    def _field_of(self, ptr):
        """name of the field of *s a pointer operand addresses directly, or None"""
        if ptr[0] != 'reg':
            return None
        d = self.fn.defs.get(ptr[1])
        if d is None or d.op != 'getelementptr' or len(d.ops) != 3:
            return None
        if d.ops[0] != ('reg', self.fn.params[0][1]) or d.ops[1][0] != 'int' or d.ops[2][0] != 'int':
            return None
        names = self.m.field_names(self.struct) or []
        k = d.ops[2][1]
        return names[k] if k < len(names) else None

    def _mem_liveness(self):
        """per block: the scalar fields of *s that may be read before they are overwritten (nothing else points into
        *s and collect() calls nothing, so a field access is always a direct getelementptr on the parameter)"""
        fn = self.fn
        use, kill = {}, {}
        for b in fn.blocks.values():
            u, k = set(), set()
            for i in b.insns:
                if i.op == 'load':
                    f = self._field_of(i.ops[0])
                    if f and f not in k:
                        u.add(f)
                elif i.op == 'store':
                    f = self._field_of(i.ops[1])
                    if f:
                        k.add(f)
            use[b.name], kill[b.name] = u, k
        live = {b: set() for b in fn.blocks}
        changed = True
        while changed:
            changed = False
            for b in fn.blocks.values():
                out = set()
                for x in b.succs:
                    out |= live[x]
                if b.term.op == 'ret':
                    out = {'rle_state', 'rle_character', 'nblock', 'block_crc'}   # the caller's view
                new = use[b.name] | (out - kill[b.name])
                if new != live[b.name]:
                    live[b.name] = new
                    changed = True
        return live

    def _uses(self, i):
        out = []
        if i.op == 'dbg':
            return out

        def walk(v):
            if not isinstance(v, tuple):
                return
            if v and v[0] == 'reg':
                out.append(v[1])
            else:
                for x in v:
                    if isinstance(x, (tuple, list)):
                        if isinstance(x, list):
                            for y in x:
                                walk(y)
                        else:
                            walk(x)
        for v in i.ops:
            walk(v)
        for v in i.extra.get('args', []) if isinstance(i.extra.get('args'), list) else []:
            walk(v)
        return out

    def initial(self):
        s = State()
        s.regs = {}
        s.mem = {}
        s.n, s.c, s.T, s.w, s.acc = 0, None, None, 0, 0
        s.iv = {'R0': (1, INF), 'AV0': (0, INF), 'T0': (4, 258), 'NB0': (0, INF), 'CAP': (1, INF)}
        s.cls = {}
        s.ne = set()
        s.trace = []
        s.marks = set()
        s.pred = None
        s.gh = {}
        s.mem[('S', 'rle_state')] = 0
        s.mem[('S', 'rle_character')] = TOP
        s.entry = 'fresh encoder (rle_state 0)'
        return s

    def _prime(self, s):
        s.mem[('S', 'nblock')] = Lin(0, {'NB0': 1})
        s.mem[('S', 'max_block_size')] = Lin(0, {'CAP': 1})
        s.mem[('S', 'block_crc')] = Crc(0)
        s.regs[self.sname] = Ptr('S', ())
        if not self.final:
            s.mem[('P', self.szname)] = Lin(0, {'AV0': 1})
            s.regs[self.inname] = Ptr('I', Lin(0))
            s.regs[self.szname] = Ptr('P', self.szname)
        for ty, nm in self.others:
            s.regs[nm] = Ptr('P', nm) if ty[0] == 'ptr' else TOP

    # ------------------------------------------------------------------ canonical keys
    def _canon_val(self, s, v, num):
        if isinstance(v, int):
            return ('i', v)
        if isinstance(v, Lin):
            if v.c == {'T0': 1} and isinstance(s.T, Lin):
                return ('t', v.k - s.T.k)
            if v.c == {'AV0': 1} and v.k == 0 and s.acc > 1:
                return ('av0',)     # the length the buffer came with (an anchor)
            # constants relative to the input really left (AV0 - acc) and to the fill index (NB0 + w)
            kk = v.k + v.c.get('AV0', 0) * s.acc - v.c.get('NB0', 0) * s.w
            return ('l', kk, tuple(sorted(v.c.items())))
        if v is TOP:
            return ('T',)
        if isinstance(v, Byte):
            return ('y', num(v.id))
        if isinstance(v, Crc):
            if v.n == 0 and v.st == 'v' and s.acc > 1:
                return ('c0',)      # the CRC the call started from (an anchor, like inbuf)
            return ('c', v.n - s.acc, v.st, num(v.b) if v.b is not None else None)
        if isinstance(v, Ptr):
            if v.kind == 'B':
                l = v.off
                if l.c == {'NB0': 1}:
                    return ('b', l.k - s.w)
                return ('B',) + l.key()
            if v.kind == 'I':
                l = v.off
                if not l.c:
                    if l.k == 0 and s.acc > 1:
                        return ('p0',)      # inbuf itself: only ever subtracted from the read pointer at the end
                    return ('p', l.k - s.acc)
                return ('I',) + l.key()
            if v.kind == 'S':
                return ('S', tuple(self._canon_val(s, x, num) if not isinstance(x, str) else x for x in v.off))
            if v.kind == 'SA':
                return ('A',) + lin(v.off).key()
            if v.kind == 'G' and isinstance(v.off, tuple):
                return ('G', v.off[0], v.off[1] - s.acc, num(v.off[2]))
            return (v.kind, v.off)
        raise AnalysisBroken('rleabs: value %r has no canonical form' % (v,))

    def key(self, s, blk):
        """canonical form of the state at the head of blk: offsets relative to the fill cursor / the accounted position,
        classes of equal bytes numbered in order of first mention (run character, saved cells, live registers, bytes
        not yet accounted)"""
        live = self.live[blk]
        nums = {}

        def num(i):
            r = s.rep(i)
            if r not in nums:
                nums[r] = len(nums)
            return nums[r]
        runc = num(s.c) if s.c is not None else None
        ml = self.memlive[blk]
        mem = tuple(sorted((repr(k), self._canon_val(s, v, num)) for k, v in sorted(s.mem.items(), key=repr)
                           if (k[0] == 'S' and k[1] in ml and k[1] in ('rle_state', 'rle_character', 'block_crc'))
                           or k[0] == 'P'))
        regs = tuple((r, self._canon_val(s, s.regs[r], num)) for r in sorted(s.regs) if r in live)
        low = self._low(s, live)
        pend = sorted({i for i in list(s.cls) + list(s.cls.values()) + [x for pr in s.ne for x in pr]
                       if i != 'car' and i[1] >= low}, key=lambda i: i[1])
        part = tuple((i[1] - s.acc, num(i)) for i in pend)
        nes = tuple(sorted(tuple(sorted(nums[r] for r in pr)) for pr in s.ne if all(r in nums for r in pr)))
        r0 = s.iv['R0']
        av = s.iv['AV0']
        ivs = ((r0[0] - s.w, r0[1] - s.w), (av[0] - s.acc, av[1] - s.acc))
        if isinstance(s.T, Lin):
            t0 = s.iv['T0']
            tk = ('T0', t0[0] + s.T.k, t0[1] + s.T.k)
        else:
            tk = s.T
        return (blk, s.pred if self._has_phi(blk) else None, regs, mem, s.n, runc, tk, ivs, part, nes,
                tuple(sorted(repr(x) for x in s.marks)))

    def _has_phi(self, blk):
        b = self.fn.blocks[blk]
        return bool(b.insns) and b.insns[0].op == 'phi'

    def gc(self, s, blk):
        """forget byte facts nothing can refer to any more"""
        keep = set()
        live = self.live[blk]
        for r, v in s.regs.items():
            if r in live:
                self._ids_of(v, keep)
        ml = self.memlive[blk]
        for k, v in s.mem.items():
            if k[0] != 'S' or k[1] in ml:
                self._ids_of(v, keep)
            elif isinstance(v, Byte):
                s.mem[k] = TOP      # a dead cell: whatever it holds is overwritten before it is read
        if s.c is not None:
            keep.add(s.c)
        allids = set(s.cls) | set(s.cls.values()) | {x for pr in s.ne for x in pr}
        low = self._low(s, live)
        for i in allids:
            if i != 'car' and i[1] >= low:
                keep.add(i)
        # rebuild the relation on kept ids only
        groups = {}
        for i in keep:
            groups.setdefault(s.rep(i), []).append(i)
        oldne = s.ne
        newrep = {}
        cls = {}
        for r, grp in groups.items():
            head = min(grp, key=repr)
            newrep[r] = head
            for i in grp:
                if i != head:
                    cls[i] = head
        ne = set()
        for pr in oldne:
            pr = list(pr)
            if len(pr) == 2 and pr[0] in newrep and pr[1] in newrep:
                ne.add(frozenset((newrep[pr[0]], newrep[pr[1]])))
        s.cls = cls
        s.ne = ne
        s.regs = {r: v for r, v in s.regs.items() if r in live}

    def _low(self, s, live):
        low = s.acc
        for r, v in s.regs.items():
            if r in live and isinstance(v, Crc):
                low = min(low, v.n)
        for v in s.mem.values():
            if isinstance(v, Crc) and v.n > 0:
                low = min(low, v.n)
        return low

    def _ids_of(self, v, out):
        if isinstance(v, Byte):
            out.add(v.id)
        elif isinstance(v, Crc) and v.b is not None:
            out.add(v.b)
        elif isinstance(v, Ptr) and v.kind == 'S':
            for x in v.off:
                self._ids_of(x, out)

    # ------------------------------------------------------------------ evaluation
    def val(self, s, v):
        k = v[0]
        if k == 'int':
            return v[1]
        if k in ('zero', 'null'):
            return 0
        if k == 'reg':
            if v[1] not in s.regs:
                raise AnalysisBroken('rleabs: register %%%s read before definition in %s' % (v[1], self.fn.name))
            return s.regs[v[1]]
        if k == 'glob':
            return Ptr('G', v[1])
        if k == 'undef':
            return TOP
        if k == 'ccast':
            return self.val(s, v[2])
        if k == 'cgep':
            base = self.val(s, v[2])
            if isinstance(base, Ptr) and base.kind == 'G':
                return base
        raise AnalysisBroken('rleabs: operand %r' % (v,))

    def record(self, rule, ins, ok, detail, s):
        site = self.fn.loc(ins) if ins is not None else self.fn.loc()
        r = self.results.setdefault((rule, site), [0, 0, None])
        if ok:
            r[0] += 1
        else:
            r[1] += 1
            if r[2] is None:
                r[2] = '%s [entry: %s; path: %s]' % (detail, s.entry, ' > '.join(s.trace[-14:]))

    def _bits(self, ty):
        if ty and ty[0] == 'int':
            return ty[1]
        return 64

    def step(self, s, i):
        """execute one non-terminator instruction; may raise Fork"""
        op = i.op
        if op == 'dbg':
            return
        if op == 'alloca':
            s.regs[i.res] = Ptr('A', i.res)     # a local array: contents not tracked
            return
        if op == 'load':
            s.regs[i.res] = self.load(s, self.val(s, i.ops[0]), i)
            return
        if op == 'store':
            self.store(s, self.val(s, i.ops[0]), self.val(s, i.ops[1]), i)
            return
        if op == 'getelementptr':
            s.regs[i.res] = self.gep(s, i)
            return
        if op in ('zext', 'sext', 'trunc', 'bitcast', 'ptrtoint', 'inttoptr'):
            v = self.val(s, i.ops[0])
            if isinstance(v, int):
                fb = self._bits(i.extra.get('fty'))
                tb = self._bits(i.ty)
                if op == 'zext':
                    v = _mask(v, fb)
                elif op == 'sext':
                    v = _sgn(v, fb)
                elif op == 'trunc':
                    v = _sgn(v, tb) if tb > 1 else _mask(v, 1)
            elif op == 'bitcast' and isinstance(v, Ptr) and v.kind == 'SA':
                if i.ty == ('ptr', ('int', 8)):
                    l = lin(v.off)
                    if l.c == {'CAP': 1}:
                        # block = (uint8_t *)(SA + max_block_size + GROUP_SIZE); GROUP_SIZE words are scratch
                        v = Ptr('B', Lin(0))
                        s.marks.add(('blockbase', l.k))
                    else:
                        raise AnalysisBroken('rleabs: byte view of SA at %r' % (l,))
            s.regs[i.res] = v
            return
        if op in ('add', 'sub', 'mul', 'shl', 'lshr', 'ashr', 'xor', 'and', 'or', 'udiv', 'urem', 'sdiv', 'srem'):
            s.regs[i.res] = self.binop(s, i)
            return
        if op == 'icmp':
            s.regs[i.res] = 1 if self.icmp(s, i) else 0
            return
        if op == 'select':
            c = self.val(s, i.ops[0])
            if not isinstance(c, int):
                raise AnalysisBroken('rleabs: select on %r' % (c,))
            s.regs[i.res] = self.val(s, i.ops[1] if c else i.ops[2])
            return
        if op == 'call':
            cal = i.extra.get('callee') or ''
            if cal.startswith('llvm.expect'):
                s.regs[i.res] = self.val(s, i.ops[0])
                return
            raise AnalysisBroken('rleabs: call to %s inside %s' % (cal, self.fn.name))
        raise AnalysisBroken('rleabs: opcode %s' % op)

    def binop(self, s, i):
        a, b = self.val(s, i.ops[0]), self.val(s, i.ops[1])
        op = i.op
        bits = self._bits(i.ty)
        if isinstance(a, int) and isinstance(b, int):
            ua, ub = _mask(a, bits), _mask(b, bits)
            if op == 'add':
                r = ua + ub
            elif op == 'sub':
                r = ua - ub
            elif op == 'mul':
                r = ua * ub
            elif op == 'shl':
                r = ua << ub
            elif op == 'lshr':
                r = ua >> ub
            elif op == 'ashr':
                r = _sgn(a, bits) >> ub
            elif op == 'xor':
                r = ua ^ ub
            elif op == 'and':
                r = ua & ub
            elif op == 'or':
                r = ua | ub
            elif op in ('udiv', 'urem'):
                if ub == 0:
                    raise AnalysisBroken('rleabs: division by zero')
                r = ua // ub if op == 'udiv' else ua % ub
            else:
                raise AnalysisBroken('rleabs: %s on constants' % op)
            return _sgn(r, bits)
        # pointer difference
        if op == 'sub' and isinstance(a, Ptr) and isinstance(b, Ptr) and a.kind == b.kind and a.kind in ('B', 'I'):
            return lin(a.off).add(lin(b.off), -1).simp()
        if op in ('add', 'sub') and isinstance(a, (int, Lin)) and isinstance(b, (int, Lin)):
            return lin(a).add(b if isinstance(b, int) else b, 1 if op == 'add' else -1).simp()
        # CRC(x): crc = (crc << 8) ^ crc_table[(crc >> 24) ^ x]
        if isinstance(a, Crc) and a.st == 'v' and isinstance(b, int):
            if op == 'shl' and b == 8:
                return Crc(a.n, 'shl')
            if op == 'lshr' and b == 24:
                return Crc(a.n, 'shr')
        if op == 'xor':
            for x, y in ((a, b), (b, a)):
                if isinstance(x, Crc) and x.st == 'shr' and isinstance(y, Byte):
                    return Crc(x.n, 'idx', y.id)
                if isinstance(x, Crc) and x.st == 'shl' and isinstance(y, Crc) and y.st == 'tab' and x.n == y.n:
                    if y.b == ('in', x.n) or s.eq(y.b, ('in', x.n)) is True:
                        return Crc(x.n + 1)
                    return TOP
        return TOP

    def icmp(self, s, i):
        a, b = self.val(s, i.ops[0]), self.val(s, i.ops[1])
        pred = i.extra['pred']
        base = {'eq': 'eq', 'ne': 'ne', 'ugt': 'gt', 'sgt': 'gt', 'uge': 'ge', 'sge': 'ge', 'ult': 'lt', 'slt': 'lt',
                'ule': 'le', 'sle': 'le'}[pred]
        if isinstance(a, int) and isinstance(b, int):
            bits = self._bits(i.extra.get('cty'))
            if pred[0] == 'u':
                a, b = _mask(a, bits), _mask(b, bits)
            elif pred[0] == 's':
                a, b = _sgn(a, bits), _sgn(b, bits)
            else:
                a, b = _mask(a, bits), _mask(b, bits)
            return {'eq': a == b, 'ne': a != b, 'gt': a > b, 'ge': a >= b, 'lt': a < b, 'le': a <= b}[base]
        if isinstance(a, Ptr) and isinstance(b, Ptr):
            if a.kind == b.kind and a.kind in ('B', 'I'):
                return s.decide(lin(a.off).add(lin(b.off), -1), base)
            raise AnalysisBroken('rleabs: comparison of unrelated pointers %r, %r' % (a, b))
        if isinstance(a, Ptr) and b == 0 or isinstance(b, Ptr) and a == 0:
            if base in ('eq', 'ne'):
                return base == 'ne'
        if isinstance(a, (int, Lin)) and isinstance(b, (int, Lin)):
            return s.decide(lin(a).add(b, -1), base)
        if isinstance(a, Byte) and isinstance(b, Byte) and base in ('eq', 'ne'):
            r = s.eq(a.id, b.id)
            if r is None:
                x, y = a.id, b.id

                def t(st):
                    st.set_eq(x, y, True)

                def f(st):
                    st.set_eq(x, y, False)
                raise Fork([t, f])
            return r if base == 'eq' else not r
        raise AnalysisBroken('rleabs: comparison %s of %r and %r (%s)' % (pred, a, b, self.fn.loc(i)))

    def gep(self, s, i):
        base = self.val(s, i.ops[0])
        idx = [self.val(s, x) for x in i.ops[1:]]
        sty = i.extra['sty']
        if not isinstance(base, Ptr):
            raise AnalysisBroken('rleabs: address arithmetic on %r (%s)' % (base, self.fn.loc(i)))
        if base.kind in ('B', 'I'):
            if len(idx) != 1 or sty != ('int', 8) or not isinstance(idx[0], (int, Lin)):
                raise AnalysisBroken('rleabs: byte pointer indexed by %r' % (idx,))
            return Ptr(base.kind, lin(base.off).add(idx[0]))
        if base.kind == 'SA':
            if sty[0] == 'array' and len(idx) == 2 and idx[0] == 0 and sty[2] == ('int', 32):
                idx = idx[1:]
                sty = sty[2]
            if len(idx) != 1 or sty != ('int', 32) or not isinstance(idx[0], (int, Lin)):
                raise AnalysisBroken('rleabs: SA indexed by %r' % (idx,))
            return Ptr('SA', lin(base.off).add(idx[0]))
        if base.kind == 'A':
            return base
        if base.kind == 'G':
            for x in idx:
                if isinstance(x, Crc) and x.st == 'idx':
                    return Ptr('G', ('crcidx', x.n, x.b))
            return base
        if base.kind == 'S':
            path = list(base.off)
            if idx[0] != 0:
                raise AnalysisBroken('rleabs: stepping the encoder pointer')
            ty = sty
            for x in idx[1:]:
                if ty and ty[0] == 'named':
                    fields = self.m.structs.get(ty[1])
                    names = self.m.field_names(ty[1]) or []
                    if not isinstance(x, int):
                        raise AnalysisBroken('rleabs: symbolic field index')
                    nm = names[x] if x < len(names) else '#%d' % x
                    path.append(nm)
                    ty = fields[x] if fields else None
                elif ty and ty[0] == 'struct':
                    path.append('#%s' % x)
                    ty = ty[1][x] if isinstance(x, int) else None
                elif ty and ty[0] in ('array', 'vec'):
                    path.append(x)
                    ty = ty[2]
                else:
                    path.append(x)
                    ty = None
            if path and path[0] == 'SA':
                # decay of the flexible array
                if all(isinstance(x, int) and x == 0 for x in path[1:]):
                    return Ptr('SA', Lin(0))
                raise AnalysisBroken('rleabs: SA element address %r' % (path,))
            return Ptr('S', tuple(path))
        raise AnalysisBroken('rleabs: getelementptr on %r' % (base,))

    def load(self, s, p, i):
        if not isinstance(p, Ptr):
            raise AnalysisBroken('rleabs: load through %r (%s)' % (p, self.fn.loc(i)))
        if p.kind == 'S':
            k = ('S',) + tuple(x for x in p.off)
            if len(p.off) == 1 and ('S', p.off[0]) in s.mem:
                return s.mem[('S', p.off[0])]
            return TOP
        if p.kind == 'P':
            return s.mem.get(('P', p.off), TOP)
        if p.kind == 'G':
            if isinstance(p.off, tuple) and p.off[0] == 'crcidx':
                return Crc(p.off[1], 'tab', p.off[2])
            return TOP
        if p.kind == 'I':
            l = lin(p.off)
            if l.c:
                raise AnalysisBroken('rleabs: input read at %r' % (l,))
            g = l.k
            ok = g >= 0 and s.holds(s.avail(g), 'gt')
            self.record('input', i, ok, 'inbuf[consumed%+d] is read but nothing on this path shows the buffer reaches '
                        'that far (left: %s)' % (g - s.acc, self._ivs(s, 'AV0', s.acc)), s)
            if not ok:
                raise Violation('input', 'read past the end of the input buffer')
            return Byte(('in', g))
        if p.kind in ('B', 'A'):
            return TOP
        raise AnalysisBroken('rleabs: load from %r' % (p,))

    def _ivs(self, s, sym, shift):
        lo, hi = s.iv[sym]
        return '[%s, %s]' % (lo - shift, hi - shift if hi != INF else 'inf')

    def store(self, s, v, p, i):
        if not isinstance(p, Ptr):
            raise AnalysisBroken('rleabs: store through %r (%s)' % (p, self.fn.loc(i)))
        if p.kind == 'S':
            if len(p.off) == 1:
                s.mem[('S', p.off[0])] = v
            elif p.off and p.off[0] == 'cmap':
                pass
            else:
                s.mem[('S',) + tuple(repr(x) for x in p.off)] = v
            return
        if p.kind == 'P':
            s.mem[('P', p.off)] = v
            return
        if p.kind == 'B':
            self.block_store(s, v, p, i)
            return
        if p.kind == 'A':
            return
        raise AnalysisBroken('rleabs: store to %r (%s)' % (p, self.fn.loc(i)))

    # ------------------------------------------------------------------ the ghost packer
    def next_id(self, s):
        return ('in', s.acc)

    def _fork_eq(self, a, b):
        def t(st):
            st.set_eq(a, b, True)

        def f(st):
            st.set_eq(a, b, False)
        raise Fork([t, f])

    def next_exists(self, s):
        return s.holds(s.avail(), 'gt')

    def absorb(self, s):
        """a byte known to continue an open run of four is part of the run: count it"""
        while s.n == 4 and self.next_exists(s) and s.eq(self.next_id(s), s.c) is True:
            t = lin(s.T)
            atmax = s.decide(t.add(-259), 'ge')     # may fork
            if atmax:
                return
            s.T = t.add(1).simp()
            s.acc += 1

    def block_store(self, s, v, p, i):
        l = lin(p.off)
        at_cursor = l.c == {'NB0': 1} and l.k == s.w
        room_ok = at_cursor and s.holds(s.room(), 'gt')
        if isinstance(v, Byte):
            self.events['data'].add(self.fn.loc(i))
            nid = self.next_id(s)
            exists = self.next_exists(s)
            # settle what the code left open, before judging (forks re-execute this store)
            if exists and s.n != 4:
                if v.id != nid and s.eq(v.id, nid) is None:
                    self._fork_eq(v.id, nid)
                if s.n >= 1 and s.eq(nid, s.c) is None and (v.id == nid or s.eq(v.id, nid)):
                    self._fork_eq(nid, s.c)
        elif not isinstance(v, (int, Lin)):
            raise AnalysisBroken('rleabs: value %r stored into the block (%s)' % (v, self.fn.loc(i)))
        self.record('capacity', i, room_ok,
                    ('store at block[nblock%+d] while the fill cursor is at nblock%+d' % (l.k, s.w)) if not at_cursor and
                    l.c == {'NB0': 1} else ('store at %r, not at the fill cursor' % (l,)) if not at_cursor else
                    'store with room left in %s (a block with no free slot reaches this store)' % self._ivs(s, 'R0', s.w), s)
        if not room_ok:
            raise Violation('capacity', 'store without room')
        if isinstance(v, Byte):
            same = exists and (v.id == nid or s.eq(v.id, nid) is True)
            ok = same and s.n != 4
            self.record('data', i, ok,
                        'a data byte is stored while a run of four is open (its count byte has not been written)'
                        if s.n == 4 else 'the byte stored (%r) is not the next input byte not yet in the block (inbuf[%d])'
                        % (v, s.acc), s)
            if not ok:
                raise Violation('data', 'out-of-order data byte')
            if s.n >= 1 and s.eq(nid, s.c):
                if s.n == 3:
                    ok4 = s.holds(s.room().add(-2), 'ge')
                    self.record('fourth', i, ok4, 'fourth copy stored with room left in %s: its count byte may '
                                'not fit' % self._ivs(s, 'R0', s.w), s)
                    if not ok4:
                        raise Violation('fourth', 'fourth copy without room for the count')
                    s.T = 4
                s.n += 1
            else:
                s.n, s.c = 1, nid
            s.w += 1
            s.acc += 1
            return
        if isinstance(v, (int, Lin)):
            self.events['count'].add(self.fn.loc(i))
            if isinstance(v, int):
                v &= 0xff
            ok = s.n == 4
            detail = 'a count byte is stored but no run of four copies is open (copies of the current run: %d)' % s.n
            if ok:
                d = lin(v).add(lin(s.T).add(-4), -1)
                try:
                    ok = s.holds(d, 'eq')
                except AnalysisBroken:
                    ok = False
                detail = 'count byte %r stored for a run of length %r' % (v, s.T)
            if ok:
                atmax = s.holds(lin(s.T).add(-259), 'eq')
                nxt_differs = self.next_exists(s) and s.eq(self.next_id(s), s.c) is False
                ok = atmax or nxt_differs or self.final     # encode(): the block ends here
                detail = ('run of length %r closed although it is shorter than 259 and the next input byte is not known '
                          'to differ' % (s.T,))
            self.record('count', i, ok, detail, s)
            if not ok:
                raise Violation('count', detail)
            s.n, s.c, s.T = 0, None, None
            s.w += 1
            return
        raise AnalysisBroken('rleabs: value %r stored into the block (%s)' % (v, self.fn.loc(i)))

    # ------------------------------------------------------------------ returns
    def at_return(self, s, i):
        rv = self.val(s, i.ops[0]) if i.ops else None
        if not isinstance(rv, int):
            raise AnalysisBroken('rleabs: return value %r' % (rv,))
        self.absorb(s)     # may fork
        rs = s.mem.get(('S', 'rle_state'))
        nb = s.mem.get(('S', 'nblock'))
        sz = s.mem.get(('P', self.szname))
        crc = s.mem.get(('S', 'block_crc'))
        # consumed
        szl = lin(sz) if isinstance(sz, (int, Lin)) else None
        cons = None
        if szl is not None and szl.c == {'AV0': 1}:
            cons = -szl.k
        ok = cons == s.acc
        self.record('consumed', i, ok, 'reports %s byte(s) consumed but %d went into the block%s' %
                    (cons if cons is not None else repr(sz), s.acc,
                     ' (a byte read and found different must be given back)' if cons is not None and cons > s.acc else ''), s)
        okc = isinstance(crc, Crc) and crc.st == 'v' and crc.n == s.acc
        self.record('crc', i, okc, 'block CRC saved covers %s, the block holds input bytes [0,%d)' %
                    ('input bytes [0,%d)' % crc.n if isinstance(crc, Crc) and crc.st == 'v' else repr(crc), s.acc), s)
        nbl = lin(nb) if isinstance(nb, (int, Lin)) else None
        oknb = nbl is not None and nbl.c == {'NB0': 1} and nbl.k == s.w
        self.record('carry', i, oknb, 'fill count saved as %r after %d store(s)' % (nb, s.w), s)
        full = rv != 0
        if full:
            self.exits['full'] += 1
            okrs = isinstance(rs, int) and rs < 0
            self.record('carry', i, okrs, 'a full block leaves run state %r (the caller and encode() expect a negative '
                        'state: nothing left to flush)' % (rs,), s)
            noroom = s.holds(s.room(), 'eq')
            look = (s.holds(s.room().add(-1), 'eq') and s.n == 3 and self.next_exists(s) and
                    s.eq(self.next_id(s), s.c) is True)
            self.record('count', i, s.n != 4, 'the block is closed with a run of four copies open: its count byte is '
                        'never written (the stream then carries four equal bytes without a count)', s)
            okf = (noroom or look) and s.n != 4
            self.record('full', i, okf, 'block declared full with room left in %s, %d cop%s of the run character stored, '
                        'next input byte %s' % (self._ivs(s, 'R0', s.w), s.n, 'y' if s.n == 1 else 'ies',
                                                'not available' if not self.next_exists(s) else
                                                {True: 'continues the run', False: 'differs', None: 'not examined'}
                                                [s.eq(self.next_id(s), s.c) if s.c is not None else None]), s)
        else:
            self.exits['notfull'] += 1
            oke = s.holds(s.avail(), 'eq')
            self.record('notfull', i, oke, '"not full" returned with input left in %s' % self._ivs(s, 'AV0', s.acc), s)
            if s.n < 4:
                okrs = isinstance(rs, int) and rs == s.n
                d = 'run state saved as %r with %d cop%s of the run character stored' % (rs, s.n, 'y' if s.n == 1 else 'ies')
            else:
                try:
                    okrs = isinstance(rs, (int, Lin)) and s.holds(lin(rs).add(lin(s.T), -1), 'eq') and \
                        s.holds(lin(s.T).add(-259), 'lt')
                except AnalysisBroken:
                    okrs = False
                d = 'run state saved as %r for an open run of length %r (must be equal and below 259)' % (rs, s.T)
            self.record('carry', i, okrs, d, s)
            if s.n >= 1:
                rc = s.mem.get(('S', 'rle_character'))
                okc2 = isinstance(rc, Byte) and s.eq(rc.id, s.c) is True
                self.record('carry', i, okc2, 'run character saved as %r, the run in progress is of %r' % (rc, s.c), s)
            else:
                okc2 = True
            if s.n == 4:
                okr = s.holds(s.room(), 'gt')
                self.record('carry', i, okr, 'a run of four is carried over with room left in %s: no slot for its count'
                            % self._ivs(s, 'R0', s.w), s)
            else:
                okr = True
            if oke and okrs and okc2 and okr and oknb:
                self.carry(s, rs)

    def at_boundary(self, s, i):
        """encode(): the first call after the prologue (the block is about to be mapped and sorted)"""
        self.exits['notfull'] += 1
        nb = s.mem.get(('S', 'nblock'))
        nbl = lin(nb) if isinstance(nb, (int, Lin)) else None
        oknb = nbl is not None and nbl.c == {'NB0': 1} and nbl.k == s.w
        self.record('flush', i, oknb, 'block length is %r after %d store(s) when the block goes to the sorter' % (nb, s.w), s)
        ok = s.n != 4
        self.record('flush', i, ok, 'a run of four copies is open (length %r) but its count byte has not been stored when '
                    'the block goes to the sorter' % (s.T,), s)

    def carry(self, s, rs):
        """the state this return leaves for the next call, as an entry state"""
        e = self.initial()
        r0 = s.iv['R0']
        e.iv['R0'] = (r0[0] - s.w, r0[1] - s.w)
        e.n = s.n
        if s.n >= 1:
            e.c = 'car'
            e.mem[('S', 'rle_character')] = Byte('car')
        if s.n == 4:
            t0 = s.iv['T0'] if isinstance(s.T, Lin) else (0, 0)
            tl = lin(s.T)
            e.iv['T0'] = (t0[0] + tl.k, t0[1] + tl.k) if tl.c else (tl.k, tl.k)
            e.T = Lin(0, {'T0': 1})
            e.mem[('S', 'rle_state')] = Lin(0, {'T0': 1})
            kind = 'T'
        else:
            e.mem[('S', 'rle_state')] = rs
            kind = rs
        self.carry_out.setdefault(kind, []).append((e.iv['R0'], e.iv['T0'] if s.n == 4 else None))

    # ------------------------------------------------------------------ exploration
    def explore(self, entry):
        fn = self.fn
        self._prime(entry)
        seen = set()
        work = [(entry, fn.entry.name, 0, True)]
        while work:
            s, blk, idx, fresh = work.pop()
            b = fn.blocks[blk]
            if fresh:
                if b.insns and b.insns[0].op == 'phi':
                    vals = {}
                    for i in b.insns:
                        if i.op != 'phi':
                            break
                        for v, pb in i.extra['incoming']:
                            if pb == s.pred:
                                vals[i.res] = self.val(s, v)
                                break
                        else:
                            raise AnalysisBroken('rleabs: phi without edge from %s' % s.pred)
                    s.regs.update(vals)
                self.gc(s, blk)
                k = self.key(s, blk)
                if k in seen:
                    continue
                seen.add(k)
                self.visited += 1
                if self.visited > self.max_states:
                    self.truncated.append('state budget (%d) exhausted' % self.max_states)
                    return len(seen)
                ahead = [v.off.k - s.acc for r, v in s.regs.items()
                         if isinstance(v, Ptr) and v.kind == 'I' and isinstance(v.off, Lin) and not v.off.c]
                if ahead and max(ahead) > 6:
                    # the read pointer runs ever further ahead of what reaches the block: not followed any further
                    self.truncated.append('read pointer %d bytes ahead of the block contents at %s' % (max(ahead), blk))
                    continue
                s.trace.append(blk)
                if len(s.trace) > 40:
                    del s.trace[:-40]
            insns = b.insns
            n = len(insns)
            j = idx
            try:
                try:
                    self.absorb(s)
                except Fork as f:
                    for alt in f.alts:
                        s2 = s.clone()
                        alt(s2)
                        work.append((s2, blk, j, False))
                    continue
                while j < n:
                    i = insns[j]
                    if i.op == 'phi':
                        j += 1
                        continue
                    if i.op == 'br':
                        t = i.extra['targets']
                        if len(t) == 1:
                            nxt = t[0]
                        else:
                            c = self.val(s, i.ops[0])
                            if not isinstance(c, int):
                                raise AnalysisBroken('rleabs: branch on %r (%s)' % (c, fn.loc(i)))
                            nxt = t[0] if c & 1 else t[1]
                        s.pred = blk
                        work.append((s, nxt, 0, True))
                        break
                    if i.op == 'switch':
                        c = self.val(s, i.ops[0])
                        if not isinstance(c, int):
                            raise AnalysisBroken('rleabs: switch on %r (%s)' % (c, fn.loc(i)))
                        nxt = i.extra['default']
                        for cv, tgt in i.extra['cases']:
                            if cv == c:
                                nxt = tgt
                        s.pred = blk
                        work.append((s, nxt, 0, True))
                        break
                    if i.op == 'ret':
                        self.at_return(s, i)
                        break
                    if i.op == 'unreachable':
                        break
                    if i.op == 'call' and (i.extra.get('callee') in ('__assert_fail', 'abort')):
                        self.exits['abort'] += 1
                        if not self.final:
                            self.record('assert', i, False, 'the assertion at this line fails on an inhabited path', s)
                        break
                    if self.final and i.op == 'call' and not (i.extra.get('callee') or '').startswith('llvm.'):
                        self.at_boundary(s, i)
                        break
                    self.step(s, i)
                    j += 1
                    if i.op in ('store', 'icmp'):
                        self.absorb(s)
            except Fork as f:
                for alt in f.alts:
                    s2 = s.clone()
                    alt(s2)
                    work.append((s2, blk, j, False))
            except Violation:
                pass
        return len(seen)

    # ------------------------------------------------------------------ fixpoint over the carried state
    def entry_for(self, kind, r0, t0):
        e = self.initial()
        e.iv['R0'] = r0
        if kind == 'T':
            e.n, e.c = 4, 'car'
            e.iv['T0'] = t0
            e.T = Lin(0, {'T0': 1})
            e.mem[('S', 'rle_state')] = Lin(0, {'T0': 1})
            e.mem[('S', 'rle_character')] = Byte('car')
            e.entry = 'open run of length %d..%d carried over, room %s..%s' % (t0[0], t0[1], r0[0], r0[1])
        else:
            e.n = kind
            e.mem[('S', 'rle_state')] = kind
            if kind >= 1:
                e.c = 'car'
                e.mem[('S', 'rle_character')] = Byte('car')
            e.entry = 'run state %d carried over, room %s..%s' % (kind, r0[0], r0[1])
        return e

    def run(self):
        """explore from the fresh encoder, then from the hull of every state a 'not full' return leaves, to a fixpoint"""
        self.explore(self.initial())
        entries = {}
        rounds = 0
        while True:
            rounds += 1
            changed = []
            for kind, lst in self.carry_out.items():
                if not (kind == 'T' or (isinstance(kind, int) and 0 <= kind <= 3)):
                    raise AnalysisBroken('rleabs: carried run state %r' % (kind,))
                r0 = (min(x[0][0] for x in lst), max(x[0][1] for x in lst))
                t0 = (min(x[1][0] for x in lst), max(x[1][1] for x in lst)) if kind == 'T' else None
                old = entries.get(kind)
                if old is not None:
                    r0 = (min(r0[0], old[0][0]), max(r0[1], old[0][1]))
                    if kind == 'T':
                        t0 = (min(t0[0], old[1][0]), max(t0[1], old[1][1]))
                if old != (r0, t0):
                    entries[kind] = (r0, t0)
                    changed.append(kind)
            self.carry_out = {}
            if not changed:
                break
            if rounds > 8:
                raise AnalysisBroken('rleabs: carried-state fixpoint does not settle')
            for kind in changed:
                r0, t0 = entries[kind]
                self.explore(self.entry_for(kind, r0, t0))
        self.entries = entries
        self.rounds = rounds
        if self.truncated and not any(r[1] for r in self.results.values()):
            raise AnalysisBroken('rleabs: exploration of %s cut short (%s) without a verdict' % (self.fn.name, self.truncated[0]))
        return entries

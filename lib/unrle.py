"""Abstract interpretation of the run-length expander emit() (decode.c) against the un-RLE automaton of the format.

Same machinery as lib/rleabs.py (a disjunctive abstract interpreter: intervals split only at the code's own
comparisons, a partition of input bytes filled in only where the code compares, a ghost automaton advanced by the
code's own stores), with the roles reversed: the input is the inverse-BWT chain (`c = p = t[p >> 8]` reads the next
byte), the output is the caller's buffer, and the ghost is the *expander*:

   data mode:   a stored byte must be the next input byte not yet interpreted; n counts equal bytes in a row;
                after the fourth equal byte the next input byte is a COUNT, not data;
   count mode:  nothing may be stored before the count byte has been read; if the input ends here the block is
                malformed (ERR_RUNLEN) -- and only here;
   repeat mode: exactly COUNT further copies of the run byte, then a fresh run starts (n = 0).

Quantities kept symbolic: bytes still readable (AV0), free output bytes (M0), the count (a byte value, 0..255), which
input bytes are equal.  Entry states: the state decode() leaves (rle_state 0), then -- to a fixpoint -- every state a
MORE return saves for the next call (resume state, pending byte or remaining count, run byte), so the resume switch
is checked against the main loop's suspension points.
"""
from irdb import AnalysisBroken
import rleabs
from rleabs import Lin, lin, TOP, Byte, Ptr, Fork, Violation, State, INF, Crc

RULES = {
    'space': 'every store into the output buffer is at the fill cursor and within the space the caller offered',
    'read': 'the inverse-BWT chain is followed one step per read, only while input is left (a was tested)',
    'data': 'outside a repeat, the byte stored is the next input byte not yet interpreted; nothing is stored between '
            'the fourth equal byte and its count',
    'repeat': 'after four equal bytes the next input byte is taken as a count and exactly that many further copies '
              'of the run byte are stored',
    'runlen': 'ERR_RUNLEN is returned exactly when the input ends between the fourth equal byte and its count',
    'ok': 'OK is returned only when the input is exhausted, everything read has been interpreted, no repeat is '
          'outstanding and no count is owed; *buf_sz is the space really left',
    'crc': 'the block CRC handed back (rle_crc at MORE, the inverted crc at OK) covers exactly the bytes stored, each '
           'folded in with the CRC() step',
    'more': 'MORE is returned only with the buffer full; the saved resume state, pending byte / remaining count, run '
            'byte, chain position and input count describe exactly where the expander stands',
}


class Link:
    """the chain word after j reads of this call (its low byte is the byte read last)"""
    __slots__ = ('j', 'sh')

    def __init__(self, j, sh=False):
        self.j = j
        self.sh = sh        # True: already shifted right by 8 (an index into tt)

    def __repr__(self):
        return 'link%d%s' % (self.j, '>>8' if self.sh else '')


class Unrle(rleabs.Engine):
    def __init__(self, prog, fn, codes, max_states=300000):
        self.prog, self.fn, self.m = prog, fn, fn.module
        self.final = False
        self.max_states = max_states
        self.results = {}
        self.exits = {'ok': 0, 'more': 0, 'err': 0, 'abort': 0, 'full': 0, 'notfull': 0}
        self.visited = 0
        self.events = {'data': set(), 'rep': set()}
        self.carry_out = {}
        self.truncated = []
        self.codes = codes
        self.struct = self._struct_of(fn.params[0][0])
        self.fields = self.m.field_names(self.struct) or []
        for need in ('rle_state', 'rle_char', 'rle_prev', 'rle_avail', 'rle_index', 'tt'):
            if need not in self.fields:
                raise AnalysisBroken('unrle: %s has no field %s' % (self.struct, need))
        self.ret_live = set()     # what a return leaves in *ds is judged at the return itself
        self.key_fields = ('rle_state', 'rle_char', 'rle_prev', 'rle_avail', 'rle_index')
        self.live = self._liveness()
        self.memlive = self._mem_liveness()
        self.sname = fn.params[0][1]
        self.bufname = self.szname = None
        for ty, nm in fn.params[1:]:
            if ty == ('ptr', ('int', 8)) and self.bufname is None:
                self.bufname = nm
            elif ty[0] == 'ptr' and ty[1][0] == 'int' and self.szname is None:
                self.szname = nm
        if self.bufname is None or self.szname is None:
            raise AnalysisBroken('unrle: %s does not take (state, buffer, size pointer)' % fn.name)
        self.inname = None
        self.others = []

    # ------------------------------------------------------------------ entry states
    def entry(self, k, mode='data', n=0, pend=False, d_is_run=False, pend_eq=None, rc=None):
        s = State()
        s.regs, s.mem = {}, {}
        s.n, s.c, s.T, s.w, s.acc = n, None, None, 0, 0
        s.iv = {'R0': (1, INF), 'AV0': (0, INF), 'M0': (1, INF), 'T0': (4, 258), 'NB0': (0, INF), 'CAP': (1, INF)}
        s.cls, s.ne = {}, set()
        s.trace, s.marks, s.pred = [], set(), None
        s.gh = {'mode': mode, 'r': 0, 'base': 1 if pend else 0}
        s.mem[('S', 'rle_state')] = k
        s.mem[('S', 'rle_avail')] = Lin(0, {'AV0': 1})
        s.mem[('S', 'rle_index')] = Link(0)
        s.mem[('S', 'tt')] = Ptr('TT', None)
        s.mem[('S', 'rle_crc')] = Crc(0)
        s.mem[('P', self.szname)] = Lin(0, {'M0': 1})
        # what the fields hold when they carry nothing: some earlier byte, unrelated to everything
        s.mem[('S', 'rle_char')] = Byte('stale_c')
        s.mem[('S', 'rle_prev')] = Byte('stale_d')
        if n >= 1 or mode in ('count', 'rep'):
            s.c = 'car'
        if d_is_run:
            s.mem[('S', 'rle_prev')] = Byte('car')
        if isinstance(pend_eq, tuple) and pend_eq[0] == 'char':
            s.mem[('S', 'rle_char')] = pend_eq[1]
            pend_eq = None
        if pend:
            s.mem[('S', 'rle_char')] = Byte(('in', 0))
            if pend_eq is not None and s.c is not None:
                s.set_eq(('in', 0), 'car', pend_eq)
        elif mode == 'rep':
            s.iv['RC0'] = rc
            s.mem[('S', 'rle_char')] = Lin(0, {'RC0': 1})
            s.T = Lin(0, {'RC0': 1})
        s.entry = 'resume state %d (%s mode, %d equal byte(s) stored%s%s%s)' % (
            k, mode, n, ', a byte read but not stored' if pend else '',
            ', remaining count %s..%s' % rc if rc else '', ', run byte in rle_prev' if d_is_run else '')
        return s

    def _prime(self, s):
        s.regs[self.sname] = Ptr('S', ())
        s.regs[self.bufname] = Ptr('B', Lin(0))
        s.regs[self.szname] = Ptr('P', self.szname)

    def absorb(self, s):
        return

    # ------------------------------------------------------------------ liveness of *ds fields (return: caller's view)
    def _mem_liveness(self):
        fn = self.fn
        use, kill = {}, {}
        for b in fn.blocks.values():
            u, k = set(), set()
            for i in b.insns:
                if i.op == 'load':
                    f = self._field_of(i.ops[0])
                    if f and f not in k:
                        u.add(f)
                elif i.op == 'store':
                    f = self._field_of(i.ops[1])
                    if f:
                        k.add(f)
            use[b.name], kill[b.name] = u, k
        live = {b: set() for b in fn.blocks}
        changed = True
        while changed:
            changed = False
            for b in fn.blocks.values():
                out = set()
                for x in b.succs:
                    out |= live[x]
                if b.term.op == 'ret':
                    out = set(self.ret_live)
                new = use[b.name] | (out - kill[b.name])
                if new != live[b.name]:
                    live[b.name] = new
                    changed = True
        return live

    # ------------------------------------------------------------------ canonical key
    def _canon_val(self, s, v, num):
        if isinstance(v, Crc):
            if v.n == 0 and v.st == 'v' and s.w > 1:
                return ('c0',)
            return ('c', v.n - s.w, v.st, num(v.b) if v.b is not None else None)
        if isinstance(v, Ptr) and v.kind == 'G' and isinstance(v.off, tuple) and v.off[0] == 'crcidx':
            return ('G', 'crcidx', v.off[1] - s.w, num(v.off[2]))
        if isinstance(v, Link):
            if v.j == 0 and s.gh['r'] > 1:
                return ('L0',)          # the chain word the call started from (an anchor)
            return ('L', v.j - s.gh['r'], v.sh)
        if isinstance(v, Ptr) and v.kind == 'B' and isinstance(v.off, Lin) and not v.off.c:
            if v.off.k == 0 and s.w > 1:
                return ('b0',)
            return ('b', v.off.k - s.w)
        if isinstance(v, Lin):
            v = s.norm(v, keep=('R0', 'M0', 'AV0'))
        if isinstance(v, Lin):
            c = v.c
            if c == {'AV0': 1} and v.k == 0 and s.gh['r'] > 1:
                return ('a0',)
            if c == {'M0': 1} and v.k == 0 and s.w > 1:
                return ('m0',)
            # constants relative to the space / input really left, and to the ghost's remaining count
            kk = v.k + c.get('M0', 0) * s.w + c.get('AV0', 0) * s.gh['r']
            rest = {x: a for x, a in c.items() if x not in ('M0', 'AV0')}
            T = s.norm(s.T, keep=('R0', 'M0', 'AV0')) if isinstance(s.T, Lin) else s.T
            if isinstance(T, Lin) and rest and rest == T.c:
                return ('r', kk - T.k, c.get('M0', 0), c.get('AV0', 0))
            return ('l', kk, c.get('M0', 0), c.get('AV0', 0)) + self._lin_key(s, Lin(0, rest), num)[1:]
        if isinstance(v, Ptr) and v.kind == 'TT':
            return ('TT', None if v.off is None else v.off - s.gh['r'])
        return rleabs.Engine._canon_val(self, s, v, num)

    def _lin_key(self, s, v, num):
        out = []
        for sym, a in sorted(v.c.items()):
            if sym.startswith('v:'):
                out.append(('v', num(eval(sym[2:])), a))
            else:
                out.append((sym, a))
        return (v.k, tuple(out))

    def key(self, s, blk):
        live = self.live[blk]
        nums = {}

        def num(i):
            r = s.rep(i)
            if r not in nums:
                nums[r] = len(nums)
            return nums[r]
        runc = num(s.c) if s.c is not None else None
        ml = self.memlive[blk]
        mem = tuple((repr(k), self._canon_val(s, v, num)) for k, v in sorted(s.mem.items(), key=repr)
                    if (k[0] == 'S' and k[1] in ml and k[1] in self.key_fields) or k[0] == 'P')
        regs = tuple((r, self._canon_val(s, s.regs[r], num)) for r in sorted(s.regs) if r in live)
        low = s.acc
        pend = sorted({i for i in list(s.cls) + list(s.cls.values()) + [x for pr in s.ne for x in pr]
                       if isinstance(i, tuple) and i[1] >= low}, key=lambda i: i[1])
        part = tuple((i[1] - s.acc, num(i)) for i in pend)
        nes = tuple(sorted(tuple(sorted(nums[r] for r in pr)) for pr in s.ne if all(r in nums for r in pr)))
        av, m0 = s.iv['AV0'], s.iv['M0']
        ivs = ((av[0] - s.gh['r'], av[1] - s.gh['r']), (m0[0] - s.w, m0[1] - s.w))
        T = s.norm(s.T) if isinstance(s.T, Lin) else s.T
        tk = ('R',) + tuple(s.rng(T)) if isinstance(T, Lin) else T
        def cs(sym):
            if sym.startswith('v:'):
                return ('v', num(eval(sym[2:])))
            return sym
        rel = tuple(sorted((repr(cs(q[1])), repr(cs(q[2])),
                            q[3] + (s.w if q[1] == 'M0' else 0) - (s.w if q[2] == 'M0' else 0)
                            + (s.gh['r'] if q[1] == 'AV0' else 0) - (s.gh['r'] if q[2] == 'AV0' else 0), t)
                           for q, t in s.gh.get('rel', ())))
        vivs = tuple(sorted((repr(cs(sym)), iv) for sym, iv in s.iv.items() if sym.startswith('v:') or sym == 'RC0'))
        lo = s.gh.get('lastout')
        lok = (lo[0] - s.w, num(lo[1])) if lo is not None and lo[0] >= s.w - 1 else None
        return (blk, s.pred if self._has_phi(blk) else None, regs, mem, s.n, runc, tk, ivs, part, nes,
                s.gh['mode'], s.gh['base'] + s.gh['r'] - s.acc, rel, vivs, lok)

    def gc(self, s, blk):
        keep = set()
        live = self.live[blk]
        for r, v in s.regs.items():
            if r in live:
                self._ids_of(v, keep)
        ml = self.memlive[blk]
        if self.fn.blocks[blk].term.op == 'ret':
            ml = set(self.key_fields)       # the return is judged on what *ds holds
        for k, v in s.mem.items():
            if k[0] != 'S' or k[1] in ml:
                self._ids_of(v, keep)
        if s.c is not None:
            keep.add(s.c)
        allids = set(s.cls) | set(s.cls.values()) | {x for pr in s.ne for x in pr}
        for i in allids:
            if isinstance(i, tuple) and i[1] >= s.acc:
                keep.add(i)
        groups = {}
        for i in keep:
            groups.setdefault(s.rep(i), []).append(i)
        newrep, cls = {}, {}
        for r, grp in groups.items():
            head = min(grp, key=repr)
            newrep[r] = head
            for i in grp:
                if i != head:
                    cls[i] = head
        ne = set()
        for pr in s.ne:
            pr = list(pr)
            if len(pr) == 2 and pr[0] in newrep and pr[1] in newrep:
                ne.add(frozenset((newrep[pr[0]], newrep[pr[1]])))
        s.cls, s.ne = cls, ne
        s.regs = {r: v for r, v in s.regs.items() if r in live}
        # quantities nothing refers to any more
        used = {'v:%r' % (i,) for i in keep}
        # what is known about the value of a byte read and not yet interpreted (a count) must survive
        used |= {'v:%r' % (('in', j),) for j in range(s.acc, s.gh['base'] + s.gh['r'])}
        for v in list(s.regs.values()) + [v for k, v in s.mem.items() if k[0] != 'S' or k[1] in ml] + [s.T]:
            if isinstance(v, Lin):
                used |= set(v.c)
        for sym in [x for x in s.iv if (x.startswith('v:') or x == 'RC0') and x not in used]:
            del s.iv[sym]
        if 'rel' in s.gh:
            s.gh['rel'] = tuple((q, t) for q, t in s.gh['rel'] if q[1] in s.iv and q[2] in s.iv and
                                (not q[1].startswith('v:') or q[1] in used) and (not q[2].startswith('v:') or q[2] in used)
                                and not all(s.iv[x][0] == s.iv[x][1] for x in (q[1], q[2]) if x not in ('M0', 'AV0')))

    # ------------------------------------------------------------------ values
    def num(self, s, b):
        """the numeric value of an input byte (0..255) as a symbolic quantity"""
        sym = 'v:%r' % (b.id,)
        if sym not in s.iv:
            s.iv[sym] = (0, 255)
        return Lin(0, {sym: 1})

    def binop(self, s, i):
        a, b = self.val(s, i.ops[0]), self.val(s, i.ops[1])
        if isinstance(a, Link) and i.op == 'lshr' and b == 8 and not a.sh:
            return Link(a.j, True)
        if i.op == 'xor':
            for x, y in ((a, b), (b, a)):
                if isinstance(x, Crc) and x.st == 'shl' and isinstance(y, Crc) and y.st == 'tab' and x.n == y.n:
                    # s = (s << 8) ^ crc_table[(s >> 24) ^ byte]: the byte must be the one just stored at position n
                    lo = s.gh.get('lastout')
                    if lo is not None and lo[0] == x.n and (lo[1] == y.b or s.eq(lo[1], y.b) is True):
                        return Crc(x.n + 1)
                    return TOP
                if isinstance(x, Crc) and x.st == 'v' and isinstance(y, int) and (y & 0xFFFFFFFF) == 0xFFFFFFFF:
                    return Crc(x.n, 'inv')
        if i.op in ('add', 'sub'):
            if isinstance(a, Byte) and isinstance(b, (int, Lin)):
                a = self.num(s, a)
            if isinstance(b, Byte) and isinstance(a, (int, Lin)):
                b = self.num(s, b)
            if isinstance(a, (int, Lin)) and isinstance(b, (int, Lin)) and not (isinstance(a, int) and isinstance(b, int)):
                return s.norm(lin(a).add(b, 1 if i.op == 'add' else -1).simp(), keep=('R0', 'M0', 'AV0'))
        if any(isinstance(x, Link) for x in (a, b)):
            return TOP
        return rleabs.Engine.binop(self, s, i)

    def icmp(self, s, i):
        a, b = self.val(s, i.ops[0]), self.val(s, i.ops[1])
        if isinstance(a, Byte) and isinstance(b, (int, Lin)) or isinstance(b, Byte) and isinstance(a, (int, Lin)):
            pred = i.extra['pred']
            base = {'eq': 'eq', 'ne': 'ne', 'ugt': 'gt', 'sgt': 'gt', 'uge': 'ge', 'sge': 'ge', 'ult': 'lt',
                    'slt': 'lt', 'ule': 'le', 'sle': 'le'}[pred]
            x = self.num(s, a) if isinstance(a, Byte) else lin(a)
            y = self.num(s, b) if isinstance(b, Byte) else lin(b)
            return s.decide(x.add(y, -1), base)
        if isinstance(a, (int, Lin)) and isinstance(b, (int, Lin)) and not (isinstance(a, int) and isinstance(b, int)):
            pred = i.extra['pred']
            base = {'eq': 'eq', 'ne': 'ne', 'ugt': 'gt', 'sgt': 'gt', 'uge': 'ge', 'sge': 'ge', 'ult': 'lt',
                    'slt': 'lt', 'ule': 'le', 'sle': 'le'}[pred]
            bits = self._bits(i.extra.get('cty'))
            if isinstance(b, int):
                b = rleabs._sgn(b, bits)
            if isinstance(a, int):
                a = rleabs._sgn(a, bits)
            return s.decide(lin(a).add(b, -1), base)
        return rleabs.Engine.icmp(self, s, i)

    def step(self, s, i):
        if i.op in ('zext', 'sext', 'trunc') and i.ops[0][0] == 'reg':
            v = self.val(s, i.ops[0])
            if isinstance(v, Link):
                if i.op == 'trunc' and i.ty == ('int', 8) and not v.sh:
                    if v.j < 1:
                        raise AnalysisBroken('unrle: the low byte of the carried chain word is used as data (%s)' %
                                             self.fn.loc(i))
                    s.regs[i.res] = Byte(('in', s.gh['base'] + v.j - 1))
                else:
                    s.regs[i.res] = v
                return
        return rleabs.Engine.step(self, s, i)

    def gep(self, s, i):
        base = self.val(s, i.ops[0])
        if isinstance(base, Ptr) and base.kind == 'TT':
            idx = self.val(s, i.ops[1])
            if base.off is None and isinstance(idx, Link) and idx.sh and len(i.ops) == 2:
                return Ptr('TT', idx.j)
            raise AnalysisBroken('unrle: tt indexed by %r (%s)' % (idx, self.fn.loc(i)))
        return rleabs.Engine.gep(self, s, i)

    def load(self, s, p, i):
        if isinstance(p, Ptr) and p.kind == 'TT':
            r = s.gh['r']
            ok = p.off == r and s.holds(Lin(-r, {'AV0': 1}), 'gt')
            self.record('read', i, ok, ('the chain is followed from the word of read %s while %d read(s) have been made'
                                        % (p.off, r)) if p.off != r else
                        'the chain is followed although no test shows that input is left (left: %s)' %
                        self._ivs(s, 'AV0', r), s)
            if not ok:
                raise Violation('read', 'chain read')
            s.gh['r'] = r + 1
            return Link(r + 1)
        if isinstance(p, Ptr) and p.kind == 'S' and len(p.off) == 1 and ('S', p.off[0]) in s.mem:
            return s.mem[('S', p.off[0])]
        return rleabs.Engine.load(self, s, p, i)

    def store(self, s, v, p, i):
        if isinstance(p, Ptr) and p.kind == 'B':
            return self.out_store(s, v, p, i)
        return rleabs.Engine.store(self, s, v, p, i)

    # ------------------------------------------------------------------ the ghost expander
    def avail_bytes(self, s):
        """input bytes read but not yet interpreted"""
        return s.gh['base'] + s.gh['r'] - s.acc

    def take_count(self, s):
        if s.gh['mode'] == 'count' and self.avail_bytes(s) >= 1:
            s.T = self.num(s, Byte(('in', s.acc)))
            s.acc += 1
            s.gh['mode'] = 'rep'

    def out_store(self, s, v, p, i):
        l = lin(p.off)
        at = not l.c and l.k == s.w
        ok = at and s.holds(Lin(-s.w, {'M0': 1}), 'gt')
        self.take_count(s)
        if s.gh['mode'] == 'rep':
            more = s.decide(lin(s.T), 'gt')        # may fork
            if not more:
                s.gh['mode'], s.n, s.c, s.T = 'data', 0, None, None
        if isinstance(v, Byte):
            # settle what the code left open
            if s.gh['mode'] == 'rep':
                if s.eq(v.id, s.c) is None:
                    self._fork_eq(v.id, s.c)
            elif s.gh['mode'] == 'data' and self.avail_bytes(s) >= 1:
                nid = ('in', s.acc)
                if v.id != nid and s.eq(v.id, nid) is None:
                    self._fork_eq(v.id, nid)
                if s.n >= 1 and s.c is not None and (v.id == nid or s.eq(v.id, nid)) and s.eq(nid, s.c) is None:
                    self._fork_eq(nid, s.c)
        self.record('space', i, ok, ('store at buf[%s] while %d byte(s) have been stored' % (l, s.w)) if not at else
                    'store with %s byte(s) of space left' % self._ivs(s, 'M0', s.w), s)
        if not ok:
            raise Violation('space', 'store without space')
        mode = s.gh['mode']
        if isinstance(v, Byte):
            s.gh['lastout'] = (s.w, v.id)
        if mode == 'rep':
            self.events['rep'].add(self.fn.loc(i))
            okr = isinstance(v, Byte) and s.eq(v.id, s.c) is True
            self.record('repeat', i, okr, 'a repeat is outstanding (%r copies) but the value stored (%r) is not the run '
                        'byte' % (s.T, v), s)
            if not okr:
                raise Violation('repeat', 'wrong repeat')
            s.T = s.norm(lin(s.T).add(-1).simp(), keep=('R0', 'M0', 'AV0'))
            s.w += 1
            return
        if mode == 'count':
            self.record('data', i, False, 'four equal bytes have been stored and the count has not been read, but '
                        'another byte (%r) is stored' % (v,), s)
            raise Violation('data', 'store in count mode')
        # data mode
        self.events['data'].add(self.fn.loc(i))
        nid = ('in', s.acc)
        okd = isinstance(v, Byte) and self.avail_bytes(s) >= 1 and (v.id == nid or s.eq(v.id, nid) is True)
        self.record('data', i, okd, 'the value stored (%r) is not the next input byte not yet interpreted (%d read, %d '
                    'interpreted)' % (v, s.gh['base'] + s.gh['r'], s.acc), s)
        if not okd:
            raise Violation('data', 'wrong data byte')
        if s.n >= 1 and s.c is not None and s.eq(nid, s.c):
            s.n += 1
        else:
            s.n, s.c = 1, nid
        if s.n == 4:
            s.gh['mode'] = 'count'
        s.acc += 1
        s.w += 1

    # ------------------------------------------------------------------ returns
    def at_return(self, s, i):
        rv = self.val(s, i.ops[0]) if i.ops else None
        if not isinstance(rv, int):
            raise AnalysisBroken('unrle: return value %r' % (rv,))
        name = {v: k for k, v in self.codes.items()}.get(rv)
        self.take_count(s)
        if s.gh['mode'] == 'rep':
            more = s.decide(lin(s.T), 'gt')        # may fork
            if not more:
                s.gh['mode'], s.n, s.c, s.T = 'data', 0, None, None
        mode = s.gh['mode']
        r = s.gh['r']
        left0 = s.holds(Lin(-r, {'AV0': 1}), 'eq')
        pend = self.avail_bytes(s)
        sz = s.mem.get(('P', self.szname))
        szn = s.norm(sz) if isinstance(sz, Lin) else sz
        if name == 'ERR_RUNLEN':
            self.exits['err'] += 1
            ok = mode == 'count' and pend == 0 and left0
            self.record('runlen', i, ok, 'ERR_RUNLEN returned in %s mode with %d equal byte(s) stored, %d byte(s) read '
                        'and not interpreted, input left %s' % (mode, s.n, pend, self._ivs(s, 'AV0', r)), s)
            return
        if name == 'OK':
            self.exits['ok'] += 1
            ok = left0 and pend == 0 and mode == 'data'
            self.record('runlen' if mode == 'count' else 'ok', i, ok,
                        ('the block ends right after four equal bytes (its count is missing) but OK is returned'
                         if mode == 'count' and left0 and pend == 0 else
                         'OK returned in %s mode, %d byte(s) read and not interpreted, input left %s, repeat '
                         'outstanding %r' % (mode, pend, self._ivs(s, 'AV0', r), s.T)), s)
            fin = s.mem.get(('S', 'crc'))
            self.record('crc', i, isinstance(fin, Crc) and fin.st == 'inv' and fin.n == s.w,
                        'ds->crc is set from %r, the bytes stored are [0,%d)' % (fin, s.w), s)
            want = s.norm(Lin(-s.w, {'M0': 1}))
            oks = isinstance(szn, (int, Lin)) and lin(szn).key() == lin(want).key()
            self.record('ok', i, oks, '*buf_sz left as %r, the space really left is %r' % (szn, want), s)
            return
        if name == 'MORE':
            self.exits['more'] += 1
            full = s.holds(Lin(-s.w, {'M0': 1}), 'eq')
            oks = full and szn == 0
            self.record('more', i, oks, 'MORE returned with %s byte(s) of space left and *buf_sz = %r' %
                        (self._ivs(s, 'M0', s.w), szn), s)
            k = s.mem.get(('S', 'rle_state'))
            av = s.mem.get(('S', 'rle_avail'))
            ix = s.mem.get(('S', 'rle_index'))
            ch = s.mem.get(('S', 'rle_char'))
            pv = s.mem.get(('S', 'rle_prev'))
            cr = s.mem.get(('S', 'rle_crc'))
            self.record('crc', i, isinstance(cr, Crc) and cr.st == 'v' and cr.n == s.w,
                        'rle_crc saved as %r, the bytes stored are [0,%d)' % (cr, s.w), s)
            okk = isinstance(k, int) and 0 <= k <= 5
            okav = isinstance(av, (int, Lin)) and lin(s.norm(lin(av))).key() == lin(s.norm(Lin(-r, {'AV0': 1}))).key()
            okix = isinstance(ix, Link) and ix.j == r and not ix.sh
            self.record('more', i, okk and okav and okix, 'saved resume state %r, input count %r (really left: AV0-%d), '
                        'chain position %r (reads made: %d)' % (k, av, r, ix, r), s)
            if pend > 1 or not (okk and okav and okix and oks):
                if pend > 1:
                    self.record('more', i, False, '%d bytes read and not interpreted at a MORE return' % pend, s)
                return
            d_is_run = isinstance(pv, Byte) and s.c is not None and s.eq(pv.id, s.c) is True
            desc = None
            if pend == 1:
                okc = isinstance(ch, Byte) and (ch.id == ('in', s.acc) or s.eq(ch.id, ('in', s.acc)) is True)
                self.record('more', i, okc, 'a byte has been read and not stored, but rle_char holds %r' % (ch,), s)
                if not okc:
                    return
                pe = s.eq(('in', s.acc), s.c) if s.c is not None else None
                desc = (k, mode, s.n, True, d_is_run, pe)
                rc = None
            elif mode == 'rep':
                T = s.norm(s.T)
                okc = isinstance(ch, (int, Lin)) and lin(s.norm(lin(ch))).key() == lin(T).key()
                self.record('more', i, okc and d_is_run, 'a repeat of %r copies is outstanding; rle_char holds %r, rle_prev '
                            '%s the run byte' % (T, ch, 'holds' if d_is_run else 'does not hold'), s)
                if not (okc and d_is_run):
                    return
                desc = (k, 'rep', 0, False, True, None)
                rc = s.rng(lin(T))
            else:
                chn = s.norm(ch) if isinstance(ch, Lin) else ch
                # a count that is exactly used up may be left in rle_char (state 4 resumed with nothing to repeat)
                desc = (k, mode, s.n, False, d_is_run, ('char', chn) if isinstance(chn, int) else None)
                rc = None
            self.carry_out.setdefault(desc, []).append(rc)
            return
        self.record('more', i, False, 'return value %r is none of OK, MORE, ERR_RUNLEN' % rv, s)

    # ------------------------------------------------------------------ fixpoint
    def run(self):
        entries = {}
        self.explore(self.entry(0))
        rounds = 0
        while True:
            rounds += 1
            changed = []
            for desc, lst in self.carry_out.items():
                rc = None
                if desc[1] == 'rep':
                    rc = (min(x[0] for x in lst), max(x[1] for x in lst))
                    if desc in entries:
                        rc = (min(rc[0], entries[desc][0]), max(rc[1], entries[desc][1]))
                if desc not in entries or entries[desc] != rc:
                    entries[desc] = rc
                    changed.append(desc)
            self.carry_out = {}
            if not changed:
                break
            if rounds > 10:
                raise AnalysisBroken('unrle: carried-state fixpoint does not settle')
            for desc in changed:
                k, mode, n, pend, d_is_run, pe = desc
                self.explore(self.entry(k, mode, n, pend, d_is_run, pe, entries[desc]))
        self.entries = entries
        self.rounds = rounds
        if self.truncated and not any(r[1] for r in self.results.values()):
            raise AnalysisBroken('unrle: exploration of %s cut short (%s) without a verdict' %
                                 (self.fn.name, self.truncated[0]))
        return entries

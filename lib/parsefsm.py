"""Tabulation of the stream/block header automaton parse() (parse.c) from its IR, and the format's automaton.

One step of parse() = the body of its `while (OK == bits_need(bs, 16))` loop for one 16-bit word: a function of
(ps->state, word, ps->stream_mode, ps->stored_crc, ps->computed_crc, ps->bs100k) giving either a return code or the
next state, plus the cells it writes.  The step is loop-free; its dependence on `word` is through comparisons with
constants, so the classes {c-1, c, c+1 : c a constant of the function} + {0, 0xFFFF} cover every behaviour (the
thorough tier tabulates all 65536 words per state)."""
import cfg
from frag import Frag, Ptr, Unknown
from irdb import broken, enumerators

STATE_NAMES = ['STREAM_MAGIC_1', 'STREAM_MAGIC_2', 'BLOCK_MAGIC_1', 'BLOCK_MAGIC_2', 'BLOCK_MAGIC_3',
               'BLOCK_CRC_1', 'BLOCK_CRC_2', 'EOS_2', 'EOS_3', 'EOS_CRC_1', 'EOS_CRC_2']

M32 = 0xFFFFFFFF


def bswap32(x):
    return int.from_bytes((x & M32).to_bytes(4, 'little'), 'big')


class ParseStep:
    def __init__(self, prog):
        self.prog = prog
        self.f = prog.func('parse', 'parse')
        self.E = enumerators(self.f.module)
        for n in STATE_NAMES + ['OK', 'MORE', 'FINISH', 'ERR_HEADER', 'ERR_STRMCRC', 'ERR_EOF']:
            if n not in self.E:
                broken('parse.c: enumerator %s vanished' % n)
        lp = cfg.loops(self.f)
        sw = [i for i in self.f.insns() if i.op == 'switch' and any(i.block.name in body for body in lp.values())]
        if len(sw) != 1:
            broken('parse(): expected exactly one switch on the parser state inside the word loop')
        self.switch = sw[0]
        heads = [h for h, body in lp.items() if self.switch.block.name in body]
        if len(heads) != 1:
            broken('parse(): the state switch is not inside exactly one loop')
        self.head = heads[0]
        self.accept = None
        # constants `word`-class breakpoints: every integer literal compared in the function
        ks = set()
        for i in self.f.insns():
            if i.op == 'icmp':
                for o in i.ops:
                    if o[0] == 'int' and 0 <= o[1] <= 0xFFFF:
                        ks.add(o[1])
            if i.op == 'switch':
                pass
        # a range test written as `word - LO > N` compares a shifted word: its class boundaries are LO and LO + N
        offs = {0}
        for i in self.f.insns():
            if i.op in ('add', 'sub'):
                for o in i.ops:
                    if o[0] == 'int' and -0x10000 <= o[1] <= 0x10000 and o[1] not in (0, 1, -1):
                        offs.add(o[1] & 0xFFFF)
                        offs.add((-o[1]) & 0xFFFF)
        pts = {0, 0xFFFF}
        for k in ks | {0}:
            for off in offs:
                for x in (k - 1, k, k + 1):
                    pts.add((x + off) & 0xFFFF)
        self.breakpoints = sorted(pts)

    def step(self, state, word, stream_mode=0, stored=0, computed=0, bs100k=9, live=48, eof=0, tail=None,
             have_data=True, fill=0x5A5A5A5A5A5A):
        """returns dict(result=('ret', code) | ('next',) | ('unknown', why), state=..., writes={cell: value})"""
        f = self.f
        buff = ((word << 48) | (fill & ((1 << 48) - 1))) & ((1 << 64) - 1) if live >= 16 else 0
        if live >= 16:
            buff = (buff >> (64 - live)) << (64 - live)
        mem = {}

        def put(root, fld, v):
            mem[(('param', root), (fld,))] = v
        put('ps', 'state', state)
        put('ps', 'stream_mode', stream_mode)
        put('ps', 'stored_crc', stored)
        put('ps', 'computed_crc', computed)
        put('ps', 'bs100k', bs100k)
        put('bs', 'live', live)
        put('bs', 'buff', buff if tail is None else tail[0])
        put('bs', 'eof', eof)
        put('bs', 'limit', Ptr(('inbuf',), (1 if have_data else 0,)))
        put('bs', 'data', Ptr(('inbuf',), (0,)))
        if tail is not None:
            mem[(('inbuf',), (0,))] = tail[1]
        fr = Frag(self.prog, f, mem=mem, intrinsics={'ntohl': bswap32, 'htonl': bswap32})
        seen = [0]

        def stop(ins, fr_):
            if ins.block.name == self.head and ins is next(x for x in ins.block.insns if x.op not in ('phi', 'dbg')):
                seen[0] += 1
                return seen[0] > 1
            return False
        try:
            r = fr.run(self.head, stop=stop)
        except Unknown as e:
            return {'result': ('unknown', str(e)), 'fr': fr, 'state': None, 'stored': None, 'computed': None,
                    'bs100k': None, 'hd_crc': None, 'hd_bs100k': None, 'garbage': None, 'live': None, 'buff': None}
        out = {'fr': fr}
        out['result'] = ('ret', r[1]) if r[0] == 'ret' else ('next',)

        def get(root, fld):
            return fr.mem.get((('param', root), (fld,)))
        out['state'] = get('ps', 'state')
        out['stored'] = get('ps', 'stored_crc')
        out['computed'] = get('ps', 'computed_crc')
        out['bs100k'] = get('ps', 'bs100k')
        out['hd_crc'] = get('hd', 'crc')
        out['hd_bs100k'] = get('hd', 'bs100k')
        out['garbage'] = fr.mem.get((('param', 'garbage'), ()))
        out['live'] = get('bs', 'live')
        out['buff'] = get('bs', 'buff')
        out['written'] = {k for k, v, i in fr.stores}
        return out


def reference_step(E, sname, word, stream_mode, stored, computed, bs100k):
    """The bzip2 container format, one 16-bit word at a time.  Returns dict of expected observable effects:
    ret (code name or None), state (name, or 'ACCEPT'), and the data effects that matter."""
    r = {'ret': None}
    if sname == 'STREAM_MAGIC_1':
        if word != 0x425A:
            return {'ret': 'FINISH', 'garbage': 16, 'final': True}
        return {'ret': None, 'state': 'STREAM_MAGIC_2'}
    if sname == 'STREAM_MAGIC_2':
        if not 0x6831 <= word <= 0x6839:
            return {'ret': 'FINISH', 'garbage': 32, 'final': True}
        return {'ret': None, 'state': 'BLOCK_MAGIC_1', 'bs100k': word - 0x6830}
    if sname == 'BLOCK_MAGIC_1':
        if word == 0x3141:
            return {'ret': None, 'state': 'BLOCK_MAGIC_2'}
        if word == 0x1772:
            return {'ret': None, 'state': 'EOS_2'}
        return {'ret': 'ERR_HEADER'}
    if sname == 'BLOCK_MAGIC_2':
        return {'ret': None, 'state': 'BLOCK_MAGIC_3'} if word == 0x5926 else {'ret': 'ERR_HEADER'}
    if sname == 'BLOCK_MAGIC_3':
        return {'ret': None, 'state': 'BLOCK_CRC_1'} if word == 0x5359 else {'ret': 'ERR_HEADER'}
    if sname == 'BLOCK_CRC_1':
        return {'ret': None, 'state': 'BLOCK_CRC_2', 'stored_lo16': word}
    if sname == 'BLOCK_CRC_2':
        crc = ((stored << 16) | word) & M32
        comb = (((computed << 1) | (computed >> 31)) ^ crc) & M32
        return {'ret': 'OK', 'state': 'BLOCK_MAGIC_1', 'hd_crc': crc, 'hd_bs100k': bs100k, 'computed': comb}
    if sname == 'EOS_2':
        return {'ret': None, 'state': 'EOS_3'} if word == 0x4538 else {'ret': 'ERR_HEADER'}
    if sname == 'EOS_3':
        return {'ret': None, 'state': 'EOS_CRC_1'} if word == 0x5090 else {'ret': 'ERR_HEADER'}
    if sname == 'EOS_CRC_1':
        return {'ret': None, 'state': 'EOS_CRC_2', 'stored_lo16': word}
    if sname == 'EOS_CRC_2':
        full = ((stored << 16) | word) & M32
        if full != computed:
            return {'ret': 'ERR_STRMCRC'}
        if stream_mode:
            return {'ret': 'FINISH', 'garbage': 0, 'final': True}
        return {'ret': None, 'state': 'STREAM_MAGIC_1', 'computed': 0, 'align': True}
    raise ValueError(sname)


def compare(ps, sname, word, stream_mode, stored, computed, bs100k, live=48):
    """-> list of disagreement strings (empty = agrees)"""
    E = ps.E
    got = ps.step(E[sname], word, stream_mode, stored, computed, bs100k, live=live)
    want = reference_step(E, sname, word, stream_mode, stored, computed, bs100k)
    bad = []
    if got['result'][0] == 'unknown':
        return ['not tabulated: ' + got['result'][1]]
    if want['ret'] is None:
        if got['result'] != ('next',):
            bad.append('returns %r where the format continues' % (got['result'],))
    else:
        if got['result'] != ('ret', E[want['ret']]):
            bad.append('result %r, format says return %s' % (got['result'], want['ret']))
    if bad:
        return bad
    if 'state' in want and got['state'] != E[want['state']]:
        bad.append('next state %r, format says %s' % (got['state'], want['state']))
    if want.get('final'):
        # no further word may be interpreted: the state must be outside the automaton's states
        if got['state'] in [E[n] for n in STATE_NAMES]:
            bad.append('state after FINISH is still a live state (%r)' % got['state'])
        if got['garbage'] != want['garbage']:
            bad.append('garbage %r, want %d' % (got['garbage'], want['garbage']))
    if 'bs100k' in want and got['bs100k'] != want['bs100k']:
        bad.append('level %r, want %d' % (got['bs100k'], want['bs100k']))
    if 'stored_lo16' in want and (got['stored'] is None or got['stored'] & 0xFFFF != want['stored_lo16']):
        bad.append('stored word %r, want %#x' % (got['stored'], want['stored_lo16']))
    for k in ('hd_crc', 'hd_bs100k', 'computed'):
        if k in want and got[k] != want[k]:
            bad.append('%s %r, want %#x' % (k, got[k], want[k]))
    exp_live = live - 16
    if want.get('align'):
        exp_live -= exp_live % 8
    if got['live'] != exp_live:
        bad.append('bits left %r, want %d' % (got['live'], exp_live))
    return bad

"""Upper bounds of unsigned index expressions (provenance trees) by structural induction, for the index-closure rule:
an index into a constant table must be provably smaller than the table's dimension."""
from irdb import init_ints
from prov import strip_casts

BIG = 1 << 64


def _pow2ceil(n):
    p = 1
    while p <= n:
        p <<= 1
    return p - 1


class UB:
    def __init__(self, prog, P):
        self.prog, self.P = prog, P
        self._tmax = {}

    def table_max(self, module, gname):
        k = (module.unit, gname)
        if k not in self._tmax:
            g = module.globals.get(gname)
            if g is None or g.init is None:
                self._tmax[k] = None
            else:
                try:
                    self._tmax[k] = max(init_ints(g.init))
                except Exception:
                    self._tmax[k] = None
        return self._tmax[k]

    def field_bound(self, sname, fidx, depth, chain=False):
        """max over all stores in this unit to field #fidx of struct sname (None when some store is unbounded or the
        field may be written through memcpy/memset of the whole struct)"""
        key = (sname, fidx)
        cache = self.__dict__.setdefault('_fb', {})
        if key in cache:
            if cache[key] == 'INPROG':
                # the field's own value met again while bounding what is stored into it: carried unchanged
                # (through merges and width changes only) it adds nothing; through arithmetic it is unbounded
                return 0 if chain else None
            return cache[key]
        cache[key] = 'INPROG'
        from prov import Prov
        m = self.P.m
        best = 0
        found = False
        for f in m.funcs.values():
            P = self.P if f is self.P.fn else Prov(self.prog, f)
            sub = UB(self.prog, P)
            sub.__dict__['_fb'] = cache
            for i in f.insns():
                if i.op != 'store':
                    continue
                a = P.addr(i.ops[1])
                if a[2] and a[2][-1][0] == 'f' and a[2][-1][1] == sname and a[2][-1][2] == fidx:
                    found = True
                    u = sub.ub(P.expr(i.ops[0]), depth + 1)
                    vt = i.extra.get('vty')
                    if vt and vt[0] == 'int':
                        u = min(u, (1 << vt[1]) - 1)
                    best = max(best, u)
        cache[key] = best if found and best < BIG else None
        return cache[key]

    def width(self, e):
        """bit width of the value, when the expression node carries it (default 64)"""
        k = e[0]
        if k in ('phi', 'load') and e[2].ty and e[2].ty[0] == 'int':
            return e[2].ty[1]
        if k == 'trunc':
            return e[1]
        if k == 'ext':
            return e[2]
        if k == 'call' and e[2].ty and e[2].ty[0] == 'int':
            return e[2].ty[1]
        if k == 'bin':
            return max(self.width(e[2]), self.width(e[3])) if e[1] not in ('shl',) else self.width(e[2])
        if k == 'const':
            return 64
        return 64

    def ub(self, e, depth=0, seen=None, pure=frozenset(), chain=True):
        """`pure`: phis on the path to here through phi inputs only (a value merely carried round a loop adds nothing)"""
        seen = seen if seen is not None else set()
        if depth > 30:
            return BIG
        k = e[0]
        if k == 'const':
            return e[1] if e[1] >= 0 else BIG
        if k == 'ext':
            inner = self.ub(e[3], depth + 1, seen, pure if e[1] == 'zext' else frozenset(), chain and e[1] == 'zext')
            if e[1] == 'zext':
                return inner
            return inner if inner < (1 << 31) else BIG
        if k == 'trunc':
            return min(self.ub(e[2], depth + 1, seen, pure, chain), (1 << e[1]) - 1)
        if k == 'cast':
            return BIG
        if k == 'bin':
            op = e[1]
            a = self.ub(e[2], depth + 1, seen, frozenset(), False)
            b = self.ub(e[3], depth + 1, seen, frozenset(), False)
            if op == 'and':
                return min(a, b)
            if op in ('or', 'xor'):
                return _pow2ceil(max(a, b)) if max(a, b) < BIG else BIG
            if op == 'lshr':
                sh = strip_casts(e[3])
                w = self.width(e[2])
                src = min(a, (1 << w) - 1)
                if sh[0] == 'const':
                    return src >> sh[1]
                return src
            if op == 'add':
                return a + b if a < BIG and b < BIG else BIG
            if op == 'mul':
                return a * b if a < BIG and b < BIG else BIG
            if op == 'urem':
                return b - 1 if 0 < b < BIG else BIG
            if op == 'udiv':
                dv = strip_casts(e[3])
                return a // dv[1] if dv[0] == 'const' and dv[1] > 0 and a < BIG else a
            if op == 'shl':
                sh = strip_casts(e[3])
                return (a << sh[1]) if sh[0] == 'const' and a < BIG and sh[1] < 64 else BIG
            if op == 'sub':
                return a if a < BIG and strip_casts(e[3])[0] == 'const' and strip_casts(e[3])[1] >= 0 and False else BIG
            return BIG
        if k == 'select':
            return max(self.ub(e[2], depth + 1, seen, frozenset(), chain), self.ub(e[3], depth + 1, seen, frozenset(), chain))
        if k == 'phi':
            bits = e[2].ty[1] if e[2].ty and e[2].ty[0] == 'int' else 64
            if e[1] in pure:
                return 0                        # carried unchanged round the loop: bounded by the other inputs
            if e[1] in seen:
                return (1 << bits) - 1          # loop-carried through arithmetic: only the type bounds it
            seen = seen | {e[1]}
            m = 0
            for x, _ in self.P.phi_inputs(e):
                m = max(m, self.ub(x, depth + 1, seen, pure | {e[1]}, chain))
            return min(m, (1 << bits) - 1)
        if k == 'load':
            ins = e[2]
            ty = ins.ty
            bits = ty[1] if ty and ty[0] == 'int' else 64
            a = e[1]
            if a[1][0] == 'G':
                gname = a[1][1].split(':')[-1]
                mod = self.P.m
                own = self.prog.global_owner(mod, gname)
                if own is not None and (own.const or gname == 'crc_table') and own.init is not None:
                    try:
                        return max(init_ints(own.init))
                    except Exception:
                        pass
            # a struct field reached through a pointer: bounded by everything the unit ever stores into that field
            if a[2] and a[2][-1][0] == 'f' and a[1][0] == 'V':
                fb = self.field_bound(a[2][-1][1], a[2][-1][2], depth, chain)
                if fb is not None:
                    return min(fb, (1 << bits) - 1)
            return (1 << bits) - 1
        if k == 'call':
            ty = e[2].ty
            return (1 << ty[1]) - 1 if ty and ty[0] == 'int' else BIG
        if k == 'param':
            return BIG
        if k == 'icmp':
            return 1
        return BIG


def eval_expr(e, env):
    """value of a provenance tree under an assignment of its leaves: env maps ('phi', name) / ('load', key) /
    ('param', name) to ints (64-bit two's complement arithmetic; comparisons yield 0/1)"""
    M = (1 << 64) - 1

    def sg(v, bits=64):
        v &= (1 << bits) - 1
        return v - (1 << bits) if v >> (bits - 1) else v
    k = e[0]
    if k == 'const':
        return e[1] & M
    if k == 'null':
        return 0
    if k == 'phi':
        return env[('phi', e[1])] & M
    if k == 'param':
        return env[('param', e[2])] & M
    if k == 'load':
        from prov import addr_key
        return env[('load', addr_key(e[1]))] & M
    if k == 'ext':
        v = eval_expr(e[3], env)
        return v if e[1] == 'zext' else sg(v, 32) & M
    if k == 'trunc':
        return eval_expr(e[2], env) & ((1 << e[1]) - 1)
    if k == 'cast':
        return eval_expr(e[2], env)
    if k == 'select':
        return eval_expr(e[2], env) if eval_expr(e[1], env) & 1 else eval_expr(e[3], env)
    if k == 'icmp':
        a, b = eval_expr(e[2], env), eval_expr(e[3], env)
        p = e[1]
        return int({'eq': a == b, 'ne': a != b, 'ult': a < b, 'ule': a <= b, 'ugt': a > b, 'uge': a >= b,
                    'slt': sg(a) < sg(b), 'sle': sg(a) <= sg(b), 'sgt': sg(a) > sg(b), 'sge': sg(a) >= sg(b)}[p])
    if k == 'bin':
        a, b = eval_expr(e[2], env), eval_expr(e[3], env)
        op = e[1]
        if op == 'add':
            return (a + b) & M
        if op == 'sub':
            return (a - b) & M
        if op == 'mul':
            return (a * b) & M
        if op == 'and':
            return a & b
        if op == 'or':
            return a | b
        if op == 'xor':
            return a ^ b
        if op == 'shl':
            return (a << (b & 63)) & M
        if op == 'lshr':
            return a >> (b & 63)
        if op == 'ashr':
            return (sg(a) >> (b & 63)) & M
        if op in ('sdiv', 'udiv'):
            if b == 0:
                raise KeyError('division by zero')
            if op == 'udiv':
                return a // b
            q = abs(sg(a)) // abs(sg(b))
            return (q if (sg(a) < 0) == (sg(b) < 0) else -q) & M
        if op in ('urem',):
            return a % b
    raise KeyError('cannot evaluate %r' % (k,))

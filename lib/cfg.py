"""CFG utilities over irdb.Func: reachability with removed edges (cuts), dominators,
post-dominators, loops, constant-phi edge threading."""
from irdb import broken


def succs(fn, b):
    return fn.blocks[b].succs


def reachable(fn, start=None, removed_edges=(), removed_blocks=(), succ_fn=None):
    """set of block names reachable from start (default entry) not using removed edges/blocks"""
    start = start or fn.entry.name
    rem = set(removed_edges)
    rb = set(removed_blocks)
    if start in rb:
        return set()
    seen = {start}
    st = [start]
    while st:
        b = st.pop()
        ss = succ_fn(b) if succ_fn else fn.blocks[b].succs
        for s in ss:
            if (b, s) in rem or s in rb or s in seen:
                continue
            seen.add(s)
            st.append(s)
    return seen


def reaches(fn, src, dst, removed_edges=(), removed_blocks=()):
    """can control get from block src to block dst (src == dst counts only via a cycle unless same block)"""
    return dst in reachable(fn, src, removed_edges, removed_blocks)


def find_path(fn, src, dst, removed_edges=(), removed_blocks=()):
    """a shortest block path src..dst or None"""
    rem = set(removed_edges)
    rb = set(removed_blocks)
    if src in rb:
        return None
    prev = {src: None}
    q = [src]
    qi = 0
    while qi < len(q):
        b = q[qi]
        qi += 1
        if b == dst:
            path = []
            while b is not None:
                path.append(b)
                b = prev[b]
            return path[::-1]
        for s in fn.blocks[b].succs:
            if (b, s) in rem or s in rb or s in prev:
                continue
            prev[s] = b
            q.append(s)
    return None


def dominators(fn):
    """dict block -> set of dominators (including itself); unreachable blocks omitted"""
    entry = fn.entry.name
    reach = reachable(fn)
    order = [b for b in fn.blocks if b in reach]
    dom = {b: set(order) for b in order}
    dom[entry] = {entry}
    changed = True
    while changed:
        changed = False
        for b in order:
            if b == entry:
                continue
            ps = [p for p in fn.blocks[b].preds if p in reach]
            new = set(order)
            for p in ps:
                new &= dom[p]
            new = new | {b}
            if new != dom[b]:
                dom[b] = new
                changed = True
    return dom


def exit_blocks(fn, kinds=('ret',)):
    return [b.name for b in fn.blocks.values() if b.term.op in kinds]


def postdominators(fn, exits=None):
    """post-dominators w.r.t. the given exit blocks (default: blocks ending in ret).
    Blocks that cannot reach an exit are omitted."""
    exits = exits if exits is not None else exit_blocks(fn)
    # reverse reachability from exits
    can = set(exits)
    st = list(exits)
    while st:
        b = st.pop()
        for p in fn.blocks[b].preds:
            if p not in can:
                can.add(p)
                st.append(p)
    order = [b for b in fn.blocks if b in can]
    pd = {b: set(order) for b in order}
    for e in exits:
        pd[e] = {e}
    changed = True
    while changed:
        changed = False
        for b in order:
            if b in exits:
                continue
            ss = [s for s in fn.blocks[b].succs if s in can]
            new = set(order)
            for s in ss:
                new &= pd[s]
            new = new | {b}
            if new != pd[b]:
                pd[b] = new
                changed = True
    return pd


def insn_dominates(fn, a, b, dom=None):
    """does instruction a dominate instruction b (same function)"""
    dom = dom or dominators(fn)
    if a.block is b.block:
        return a.idx < b.idx
    return b.block.name in dom and a.block.name in dom[b.block.name]


def back_edges(fn):
    dom = dominators(fn)
    out = []
    for b in fn.blocks.values():
        if b.name not in dom:
            continue
        for s in b.succs:
            if s in dom[b.name]:
                out.append((b.name, s))
    return out


def natural_loop(fn, back_edge):
    tail, head = back_edge
    body = {head, tail}
    st = [tail]
    while st:
        b = st.pop()
        if b == head:
            continue
        for p in fn.blocks[b].preds:
            if p not in body:
                body.add(p)
                st.append(p)
    return body


def loops(fn):
    """dict head -> set of blocks (merged natural loops per head)"""
    out = {}
    for be in back_edges(fn):
        out.setdefault(be[1], set()).update(natural_loop(fn, be))
    return out


def must_pass(fn, src_block, dst_blocks, through_blocks):
    """every path from src_block to any of dst_blocks passes one of through_blocks
    (src itself in through_blocks counts).  True also when dst is unreachable."""
    if src_block in through_blocks:
        return True
    r = reachable(fn, src_block, removed_blocks=through_blocks)
    return not any(d in r for d in dst_blocks)


def calls_in_block(b, name):
    return [i for i in b.insns if i.op == 'call' and i.extra.get('callee') == name]


def blocks_calling(fn, names):
    if isinstance(names, str):
        names = {names}
    out = set()
    for b in fn.blocks.values():
        for i in b.insns:
            if i.op == 'call' and i.extra.get('callee') in names:
                out.add(b.name)
    return out


# --------------------------------------------------------------------------
# constant-phi edge threading
# --------------------------------------------------------------------------

def threaded_successors(fn):
    """Return a successor map {block: [succ,...]} in which edges into a block whose only real work is
    'phi i1 [const, pred]...; br i1 %phi' are redirected for predecessors that supply a constant.
    Result maps (pred) -> list of successors, where the short-circuit block is bypassed for constant edges.
    Implemented as an edge-level relation: succ_map[b] is a list of (succ, via) where via is None or the
    bypassed block name."""
    redirect = {}   # (pred, blk) -> target
    for b in fn.blocks.values():
        real = [i for i in b.insns if i.op != 'dbg']
        if len(real) < 2:
            continue
        term = real[-1]
        if term.op != 'br' or len(term.extra['targets']) != 2 or not term.ops or term.ops[0][0] != 'reg':
            continue
        # the block must consist of phis and pure casts/tests only (no side effect is skipped by threading an edge
        # past it): `bool b = x || y; if (b)` lowers to phi; zext; trunc; br
        if any(i.op not in ('phi', 'zext', 'sext', 'trunc', 'icmp') for i in real[:-1]):
            continue
        invert = False
        reg = term.ops[0][1]
        phi = None
        defs = {i.res: i for i in real[:-1]}
        guard = 0
        while reg in defs and guard < 8:
            guard += 1
            d = defs[reg]
            if d.op == 'phi':
                phi = d
                break
            if d.op in ('zext', 'sext', 'trunc') and d.ops[0][0] == 'reg':
                reg = d.ops[0][1]
                continue
            if d.op == 'icmp' and d.extra['pred'] in ('ne', 'eq') and d.ops[1] in (('int', 0), ('zero',)) and d.ops[0][0] == 'reg':
                if d.extra['pred'] == 'eq':
                    invert = not invert
                reg = d.ops[0][1]
                continue
            break
        if phi is None:
            continue
        for v, pred in phi.extra['incoming']:
            if v[0] == 'int':
                truth = bool(v[1]) != invert
                tgt = term.extra['targets'][0] if truth else term.extra['targets'][1]
                redirect[(pred, b.name)] = tgt
    sm = {}
    for b in fn.blocks.values():
        out = []
        for s in b.succs:
            t = redirect.get((b.name, s))
            out.append(t if t is not None else s)
        sm[b.name] = out
    return sm, redirect

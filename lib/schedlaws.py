"""Conservation laws of the three scheduler modes (compression, expansion, -cdf copy) and the machinery
that instantiates balance.Balance for them.  Used by C11 (token laws), C13 (object laws), C19 (copy mode),
C10 (discard paths).

Every counter below is anchored in the source; a counter, queue, allocation or release site that appears in
task code and belongs to no law makes the analysis *broken* (exit 2), so the tables cannot silently rot."""
import balance, cfg
from irdb import broken
from prov import strip_ext, strip_casts, addr_key, path_key, render

# Functions treated as atomic object effects (their bodies are checked separately by C13.init_free_agree)
ATOMIC = {'decoder_init': {'M:decoder': +1}, 'decoder_free': {'M:decoder': -1}}

# allocation classes that are governed by a protocol rather than by a counting law (reason each)
PROTOCOL_CLASSES = {
    'M:expand:struct.unord_blk': 'shared by parser and retriever, released by the two-party `complete` protocol '
                                 '(rule C13.owned_field)',
    'M:decode:struct.retriever_internal_state': 'internal state of a decoder object: released early by retrieve() on '
                                                'success, otherwise by decoder_free (rule C13.init_free_agree)',
    'M:decode:struct.decoder_state.tt': 'part of a decoder object (decoder_init/decoder_free are atomic in the laws)',
}

MODES = {
    'compression': {
        'token': {
            'W': {'G:work_units': 1, 'G:compress:trans_q.size': 1, 'P:compress:unfinished_work': 1},
            'O': {'G:out_slots': 1, 'G:compress:reord_q.size': 1, 'G:process:output_q.size': 1},
            'I': {'G:in_slots': 1, 'G:compress:coll_q.size': 1},
        },
        'object': {
            'OBJ.work_blk': {'M:compress:struct.work_blk': 1, 'G:compress:trans_q.size': -1,
                             'G:compress:reord_q.size': -1, 'P:compress:unfinished_work': -1},
            'OBJ.in_blk': {'M:compress:struct.in_blk': 1, 'G:compress:coll_q.size': -1},
            'OBJ.encoder': {'M:compress:struct.encoder_state': 1, 'G:compress:trans_q.size': -1,
                            'P:compress:unfinished_work': -1},
            'OBJ.outbuf': {'M:compress:struct.work_blk.buffer': 1, 'F:compress:on_write_complete': 1,
                           'G:compress:reord_q.size': -1, 'G:process:output_q.size': -1},
            'OBJ.srcbuf': {'M:process:source_thread_proc': 1, 'F:process:source_release_buffer': 1, 'G:in_slots': 1},
        },
    },
    'expansion': {
        'token': {
            'W': {'G:work_units': 1, 'G:expand:retr_q.size': 1, 'G:expand:emit_q.size': 1},
            'O': {'G:out_slots': 1, 'G:expand:reord_q.size': 1, 'G:process:output_q.size': 1},
            'I': {'G:in_slots': 1, 'M:expand:struct.in_blk': 1},
        },
        'object': {
            'OBJ.decoder': {'M:decoder': 1, 'G:expand:retr_q.size': -1, 'G:expand:emit_q.size': -1},
            'OBJ.retr_blk': {'M:expand:struct.retr_blk': 1, 'G:expand:retr_q.size': -1},
            'OBJ.emit_blk': {'M:expand:struct.emit_blk': 1, 'G:expand:emit_q.size': -1},
            'OBJ.out_blk': {'M:expand:struct.out_blk': 1, 'G:expand:reord_q.size': -1, 'G:process:output_q.size': -1},
            'OBJ.scan_task': {'M:expand:struct.detached_bitstream': 1, 'G:expand:scan_q.size': -1},
            'OBJ.srcbuf': {'M:process:source_thread_proc': 1, 'F:process:source_release_buffer': 1, 'G:in_slots': 1},
        },
    },
    'process:copy.pseudo_process': {
        'token': {
            'O': {'G:out_slots': 1, 'G:process:output_q.size': 1},
        },
        'object': {
            'OBJ.srcbuf': {'M:process:source_thread_proc': 1, 'F:process:source_release_buffer': 1, 'G:in_slots': 1},
        },
    },
}

# queues that carry no token of their own (bounded through the thresholds / by construction); they must still be
# recognised so that a new queue cannot appear unnoticed
TOKENLESS_QUEUES = {
    'expansion': ['G:expand:input_q.size', 'G:expand:scan_q.size', 'G:expand:order_q.size', 'G:expand:unord_q.size'],
    'compression': [],
    'process:copy.pseudo_process': [],
}


def _cast_src_type(fn, v):
    """for a value that is a bitcast of a typed pointer, the source pointee type name"""
    if v[0] != 'reg':
        return None
    ins = fn.defs.get(v[1])
    while ins is not None and ins.op == 'bitcast':
        fty = ins.extra.get('fty')
        if fty and fty[0] == 'ptr' and fty[1][0] == 'named':
            return fty[1][1]
        if ins.ops[0][0] != 'reg':
            return None
        ins = fn.defs.get(ins.ops[0][1])
    return None


def malloc_class(fn, P, ins):
    """allocation class of an xmalloc call: by the struct type the result is cast to, else by the field it is
    stored into, else by the allocating function"""
    unit = fn.module.unit
    res = ins.res
    if res is None:
        return 'M:%s:%s' % (unit, fn.name)
    names = {res}
    casts = []
    grew = True
    while grew:
        grew = False
        for i in fn.insns():
            if i.op == 'bitcast' and i.ops[0][0] == 'reg' and i.ops[0][1] in names and i.res not in names:
                names.add(i.res)
                casts.append(i)
                grew = True
    for c in casts:
        if c.ty[0] == 'ptr' and c.ty[1][0] == 'named':
            return 'M:%s:%s' % (unit, c.ty[1][1])
    for i in fn.insns():
        if i.op == 'store' and i.ops[0][0] == 'reg' and i.ops[0][1] in names:
            a = P.addr(i.ops[1])
            if a[2] and a[2][-1][0] == 'f':
                st = a[2][-1]
                if a[1][0] == 'G':
                    return 'M:%s%s' % (a[1][1], path_key(a[2]))
                return 'M:%s:%s.%s' % (unit, st[1], st[3] or st[2])
    return 'M:%s:%s' % (unit, fn.name)


def free_class(fn, P, ins):
    unit = fn.module.unit
    v = ins.ops[0]
    t = _cast_src_type(fn, v)
    if t is not None:
        return 'M:%s:%s' % (unit, t)
    e = strip_casts(P.expr(v))
    if e[0] == 'load' and e[1][2] and e[1][2][-1][0] == 'f':
        st = e[1][2][-1]
        if e[1][1][0] == 'G':
            return 'M:%s%s' % (e[1][1][1], path_key(e[1][2]))
        return 'M:%s:%s.%s' % (unit, st[1], st[3] or st[2])
    if e[0] == 'param':
        return 'F:%s:%s' % (unit, fn.name)
    if e[0] == 'call':
        return 'M:%s:%s' % (unit, fn.name)
    return 'F:%s:%s?' % (unit, fn.name)


class ModeLaws:
    def __init__(self, prog, A, mode, kinds=('token', 'object')):
        self.prog = prog
        self.A = A
        self.mode = mode
        if mode not in MODES:
            broken('no law table for process mode %s (a new struct process was added?)' % mode)
        laws = {}
        for k in kinds:
            laws.update(MODES[mode][k])
        self.lawset = balance.LawSet(laws)
        e = A.engine

        def resolver(fn, ins):
            n = ins.extra.get('callee')
            if n in ATOMIC:
                return []
            return e.targets_mode(mode, fn, ins)

        def m_eff(fn, P, ins):
            return {malloc_class(fn, P, ins): +1}

        def f_eff(fn, P, ins):
            return {free_class(fn, P, ins): -1}

        extra = dict(ATOMIC)
        extra['xmalloc'] = m_eff
        extra['free'] = f_eff
        self.bal = balance.Balance(prog, A.cg, self.lawset, resolver=resolver, extra_effects=extra)
        self.resolver = resolver
        # roots of this mode
        slots = e.modes[mode]
        self.tasks = []
        self.ready = []
        for v in slots.values():
            if isinstance(v, tuple) and v[0] == 'tasks':
                self.tasks = list(v[1].get(2, []))
                self.ready = list(v[1].get(1, []))
        self.callbacks = {}
        for idx, name in ((1, 'init'), (2, 'uninit'), (3, 'finished'), (4, 'on_block'), (5, 'on_written')):
            v = slots.get(idx, [])
            if isinstance(v, list) and v:
                self.callbacks[name] = v[0]
        self.thread_fns = [A.model.classes[c]['fn'] for c in sorted(A.mode_classes[mode])
                           if not A.model.creates.get(c)]

    def reach(self, roots=None):
        """functions reachable in this mode from the run functions (mode-resolved indirect calls)"""
        roots = roots or [f for _, f in self.run_fns()]
        seen = {}
        st = list(roots)
        while st:
            f = st.pop()
            if f.qname in seen:
                continue
            seen[f.qname] = f
            for ins in f.calls():
                n = ins.extra.get('callee')
                for t in self.A.engine.targets_mode(self.mode, f, ins):
                    if t.qname not in seen:
                        st.append(t)
        return seen

    def run_fns(self):
        """functions whose every path must be law-neutral in this mode"""
        return [('task', f) for f in self.tasks] + [('thread', f) for f in self.thread_fns]

    def check(self, ctx, rule, only_laws=None):
        ls = self.lawset
        idx = [i for i, n in enumerate(ls.names) if only_laws is None or n in only_laws]
        n_ok = 0
        for kind, f in self.run_fns():
            try:
                summ = self.bal.summary(f)
            except balance.Unbalanced as u:
                ctx.ob(rule, '%s %s [%s]: loop neutral' % (kind, f.name, self.mode), u.fn.loc(), False,
                       '%s: %s' % (u.fn.name, u.msg))
                continue
            for i in idx:
                bad = sorted({v[i] for v in summ if v[i] != 0})
                ctx.ob(rule, '%s %s [%s]: law %s = %s' % (kind, f.name, self.mode, ls.names[i], _form(ls.laws[ls.names[i]])),
                       f.loc(), not bad and len(summ) > 0,
                       'net 0 on every path (%d explored states)' % self.bal.paths.get(f.qname, 0) if not bad
                       else 'some path changes the law sum by %s' % bad, evals=max(1, self.bal.paths.get(f.qname, 1)))
                n_ok += 1
        # predicates are pure w.r.t. the laws
        for f in self.ready + ([self.callbacks['finished']] if 'finished' in self.callbacks else []):
            try:
                summ = self.bal.summary(f)
            except balance.Unbalanced as u:
                ctx.ob(rule, 'predicate %s [%s]' % (f.name, self.mode), f.loc(), False, u.msg)
                continue
            ctx.ob(rule, 'predicate %s [%s] changes no resource' % (f.name, self.mode), f.loc(),
                   summ == frozenset([ls.zero()]), '%s' % sorted(summ))
        # no absolute store to a law counter inside run code
        for fn, ins, key in self.bal.absolute:
            ctx.ob(rule, 'counter %s overwritten in %s [%s]' % (key, fn.name, self.mode), fn.loc(ins), False,
                   'run-time code assigns an absolute value to a conserved counter')
        return n_ok

    def unknown_effects(self):
        """allocation / queue / counter effects in code of this mode that belong to no law"""
        unknown = []
        ls = self.lawset
        for ck, sites in self.bal.effect_sites.items():
            if ck not in ls.counters and ck not in PROTOCOL_CLASSES:
                for fn, ins, amt in sites:
                    unknown.append((ck, fn, ins))
        return unknown


def _form(form):
    parts = []
    for k, w in sorted(form.items()):
        name = k.split(':', 1)[1] if ':' in k else k
        if k.startswith('P:'):
            name = '[%s!=NULL]' % name
        elif k.startswith('M:'):
            name = '#' + name
        elif k.startswith('F:'):
            name = '#freed@' + name
        parts.append(('+' if w > 0 else '-') + name)
    return ' '.join(parts).lstrip('+')


def queue_sizes_written(prog, A, mode_laws):
    """all global '.size' fields and plain counters stored to in the run code of a mode: anti-vacuity"""
    seen = {}
    reach = mode_laws.reach()
    for f in list(reach.values()):
        P = A.cg.prov(f)
        for ins in f.insns():
            if ins.op == 'store':
                a = P.addr(ins.ops[1])
                if a[1][0] == 'G' and a[2] and a[2][-1][0] == 'f' and a[2][-1][3] == 'size':
                    seen.setdefault('G:' + a[1][1] + path_key(a[2]), (f, ins))
    return seen

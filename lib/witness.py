"""Compile-time witnesses: a generated translation unit `#include`s the repository's own .c file and states each
obligation as a _Static_assert, so the compiler evaluates the repo's real macros, types and sizeof.  One deliberately
false assertion per TU is the positive control.  An error that is not one of our assertions (undeclared identifier,
no such member) means an anchor vanished: AnalysisBroken."""
import re
from irdb import broken


def check(ctx, unit, asserts, prelude=''):
    """asserts: [(name, C constant expression)] -> {name: True/False}"""
    b = ctx.build()
    lines = ['#include "%s/src/%s.c"' % (ctx.root, unit), prelude]
    for k, (name, expr) in enumerate(asserts):
        lines.append('_Static_assert(%s, "VP%d");' % (expr, k))
    lines.append('_Static_assert(0, "VPCONTROL");')
    rc, err = b.witness('\n'.join(lines) + '\n', name='wit_' + unit)
    failed = set()
    control = False
    other = []
    for l in err.split('\n'):
        m = re.search(r'error: static_assert failed(?: due to requirement [^"]*)? "VP(\w+)"', l)
        if m:
            if m.group(1) == 'CONTROL':
                control = True
            else:
                failed.add(int(m.group(1)))
        elif 'error:' in l:
            other.append(l.strip())
    if other:
        broken('witness TU for %s.c does not compile (anchor vanished?): %s' % (unit, other[:2]))
    if not control:
        broken('witness TU for %s.c: the positive control did not fail' % unit)
    return {name: (k not in failed) for k, (name, expr) in enumerate(asserts)}


def values(ctx, unit, exprs):
    """compile-time integer values of C expressions, by bisection-free trick: _Static_assert(expr == N) is not
    available without N, so use the error text of `char vp[(expr)] ; _Static_assert(sizeof vp == -1)`?  Simpler:
    enum probes printed through -Xclang -ast-dump are heavy; instead compare against candidates supplied by the
    caller -- see check()."""
    raise NotImplementedError

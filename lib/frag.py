"""Finite-domain evaluation of loop-free (or boundedly iterating) IR fragments.

Some clauses are about a *table-driven transition function*: a few table look-ups, a range test and an update
(the delta-code step of retrieve(), the selector unary code, the closed-form dummy table of
generate_prefix_code()).  Their domain is finite and small (64 patterns x 32 lengths; 257 alphabet sizes), so the
transition function can be tabulated completely from the IR and compared, entry by entry, with a reference
computed independently -- the same kind of obligation as the scanner-table equivalence of C14, except that the
table is implicit in straight-line code.  This module tabulates: it propagates constants through the SSA
instructions of the fragment for one abstract input state at a time (registers and memory cells named by
canonical address), following only the branch the constants select.  It is not an execution of lbzip2: no
function of the program is called, no input file exists, and anything outside the fragment's closed domain
(an unknown load, a call, a pointer escaping) stops the evaluation with AnalysisBroken.
"""
from irdb import broken, init_ints, type_count


class Unknown(Exception):
    pass


def _mask(bits):
    return (1 << bits) - 1


def _signed(v, bits):
    v &= _mask(bits)
    return v - (1 << bits) if v >> (bits - 1) else v


def _bits(ty):
    if ty and ty[0] == 'int':
        return ty[1]
    if ty and ty[0] == 'ptr':
        return 64
    raise Unknown('width of type %r' % (ty,))


class Ptr:
    __slots__ = ('root', 'path', 'es')

    def __init__(self, root, path=(), es=None):
        self.root = root
        self.path = tuple(path)
        self.es = es        # size in bytes of the element the last (integer) path step counts, if known

    def key(self):
        return (self.root, self.path)

    def __eq__(self, o):
        return isinstance(o, Ptr) and self.key() == o.key()

    def __hash__(self):
        return hash(self.key())

    def __repr__(self):
        return 'Ptr(%s%s)' % (self.root, ''.join('[%s]' % p for p in self.path))


class Frag:
    """One evaluation.  regs: initial register values (name -> int | Ptr); mem: initial memory
    ((root, path) -> value); oracle(key, insn) -> value for loads of cells not in mem (raise Unknown to refuse)."""

    def __init__(self, prog, fn, regs=None, mem=None, oracle=None, max_steps=4000, intrinsics=None):
        self.prog = prog
        self.fn = fn
        self.m = fn.module
        self.regs = dict(regs or {})
        self.mem = dict(mem or {})
        self.oracle = oracle
        self.max_steps = max_steps
        self.trace = []
        self.stores = []
        self.steps = 0
        self.lazy_defs = []
        self.intrinsics = intrinsics or {}
        self._flat = {}

    # ---- values
    def val(self, v, ty=None):
        k = v[0]
        if k == 'int':
            return v[1]
        if k == 'zero' or k == 'null':
            return 0
        if k == 'reg':
            if v[1] not in self.regs:
                return self._lazy(v[1])
            return self.regs[v[1]]
        if k == 'glob':
            return Ptr(('G', v[1]))
        if k == 'cgep':
            base = self.val(v[2])
            return self._gep(base, [self.val(i) for i in v[3]], v[1])
        if k == 'ccast':
            return self.val(v[2])
        if k == 'undef':
            raise Unknown('undef value')
        raise Unknown('value kind %r' % (v,))

    def _lazy(self, name, depth=0):
        """value of a register defined outside the fragment: parameters are opaque objects; address computations
        and loads are evaluated on demand (a load goes to the oracle); anything else is unknown"""
        for t, pn in self.fn.params:
            if pn == name:
                self.regs[name] = Ptr(('param', name)) if t[0] == 'ptr' else self._param(name)
                return self.regs[name]
        ins = self.fn.defs.get(name)
        if ins is None or depth > 20:
            raise Unknown('register %%%s has no value in this fragment' % name)
        if ins.op == 'alloca':
            # a local object of the enclosing function: an opaque region of its own
            self.regs[name] = Ptr(('A', name))
            return self.regs[name]
        if ins.op in ('getelementptr', 'bitcast', 'load', 'zext', 'sext', 'trunc', 'ptrtoint', 'inttoptr'):
            self.lazy_defs.append(ins)
            self.step(ins)
            return self.regs[name]
        raise Unknown('register %%%s (defined by %s outside the fragment) has no value' % (name, ins.op))

    def _param(self, name):
        if self.oracle:
            return self.oracle((('param', name), ()), None)
        raise Unknown('scalar parameter %s' % name)

    def _resolve(self, ty):
        if ty[0] == 'named':
            fields = self.m.structs.get(ty[1])
            if fields is None:
                raise Unknown('unknown struct %s' % ty[1])
            return ('struct', fields, ty[1])
        return ty

    def _fname(self, sname, n):
        names = self.m.field_names(sname)
        if names and n < len(names):
            return names[n]
        return '#%d' % n

    def _gep(self, base, idx, sty=None):
        """path steps: int (array element / pointer step) or field name (str)"""
        if not isinstance(base, Ptr):
            raise Unknown('getelementptr on a non-pointer')
        path = list(base.path)
        first, rest = idx[0], idx[1:]
        if isinstance(first, Ptr):
            raise Unknown('pointer used as index')
        es = base.es
        if first != 0:
            if path and isinstance(path[-1], int):
                path[-1] = path[-1] + first
            else:
                path.append(first)
                es = self._sizeof(sty)
        ty = sty
        for i in rest:
            if isinstance(i, Ptr):
                raise Unknown('pointer used as index')
            if ty is None:
                path.append(i)
                continue
            ty = self._resolve(ty)
            if ty[0] == 'struct':
                path.append(self._fname(ty[2], i) if len(ty) > 2 and ty[2] else '#%d' % i)
                ty = ty[1][i]
            elif ty[0] in ('array', 'vec'):
                path.append(i)
                ty = ty[2]
                es = self._sizeof(ty)
            else:
                raise Unknown('gep into non-aggregate %r' % (ty,))
        return Ptr(base.root, path, es if path and isinstance(path[-1], int) else None)

    def _sizeof(self, ty):
        if ty is None:
            return None
        if ty[0] == 'int':
            return max(1, ty[1] // 8)
        if ty[0] == 'ptr':
            return 8
        if ty[0] == 'array':
            e = self._sizeof(ty[2])
            return None if e is None else e * ty[1]
        return None

    def load(self, p, ins):
        if not isinstance(p, Ptr):
            raise Unknown('load through a non-pointer')
        k = p.key()
        if k in self.mem:
            return self.mem[k]
        if p.root[0] == 'G':
            g = self.m.globals.get(p.root[1])
            if g is not None and g.const and g.init is not None:
                return self._const_elem(g, p.path)
        if self.oracle:
            v = self.oracle(k, ins)
            self.mem[k] = v
            return v
        raise Unknown('load of unknown cell %r' % (k,))

    def _const_elem(self, g, path):
        ty = g.ty
        flat = self._flat.get(g.name)
        if flat is None:
            flat = self._flat[g.name] = init_ints(g.init)
        off = 0
        for i in path:
            if ty[0] != 'array':
                raise Unknown('indexing into non-array constant %s' % g.name)
            n, ety = ty[1], ty[2]
            if not 0 <= i < n:
                raise Unknown('OUT-OF-BOUNDS index %d into %s (dimension %d)' % (i, g.name, n))
            off += i * type_count(ety)
            ty = ety
        if ty[0] == 'array':
            raise Unknown('aggregate load from %s' % g.name)
        return flat[off]

    # ---- execution
    def run(self, block, idx=0, prev=None, stop=None):
        """Evaluates from instruction idx of `block`.  stop(insn, self) -> truthy ends the evaluation *before*
        the instruction.  Returns ('ret', value) | ('stop', insn) | ('unreachable', insn)."""
        b = self.fn.blocks[block]
        while True:
            # phis first (parallel assignment)
            if idx == 0:
                newv = {}
                for ins in b.insns:
                    if ins.op != 'phi':
                        continue
                    if prev is None:
                        if ins.res not in self.regs:
                            pass        # value must have been supplied by the caller if it is used
                        continue
                    for v, src in ins.extra['incoming']:
                        if src == prev:
                            try:
                                newv[ins.res] = self.val(v)
                            except Unknown:
                                newv.pop(ins.res, None)
                                self.regs.pop(ins.res, None)
                            break
                self.regs.update(newv)
            nxt = None
            for ins in b.insns[idx:]:
                if ins.op in ('phi', 'dbg'):
                    continue
                self.steps += 1
                if self.steps > self.max_steps:
                    raise Unknown('fragment does not terminate within %d steps' % self.max_steps)
                if stop is not None and stop(ins, self):
                    return ('stop', ins)
                r = self.step(ins)
                if r is not None:
                    if r[0] == 'goto':
                        nxt = r[1]
                        break
                    return r
            if nxt is None:
                raise Unknown('fell off block %s' % b.name)
            prev, b, idx = b.name, self.fn.blocks[nxt], 0

    def step(self, ins):
        op = ins.op
        R = self.regs
        if op == 'br':
            t = ins.extra['targets']
            if len(t) == 1:
                return ('goto', t[0])
            c = self.val(ins.ops[0])
            return ('goto', t[0] if c & 1 else t[1])
        if op == 'switch':
            v = self.val(ins.ops[0])
            for cv, tgt in ins.extra['cases']:
                if cv == v:
                    return ('goto', tgt)
            return ('goto', ins.extra['default'])
        if op == 'ret':
            return ('ret', self.val(ins.ops[0]) if ins.ops else None)
        if op == 'unreachable':
            return ('unreachable', ins)
        if op == 'alloca':
            R[ins.res] = Ptr(('alloca', ins.res))
            return None
        if op == 'load':
            R[ins.res] = self.load(self.val(ins.ops[0]), ins)
            return None
        if op == 'store':
            p = self.val(ins.ops[1])
            if not isinstance(p, Ptr):
                raise Unknown('store through a non-pointer')
            v = self.val(ins.ops[0])
            if not isinstance(v, Ptr):
                v &= _mask(_bits(ins.extra['vty']))
            self.mem[p.key()] = v
            self.stores.append((p.key(), v, ins))
            return None
        if op == 'getelementptr':
            R[ins.res] = self._gep(self.val(ins.ops[0]), [self.val(i) for i in ins.ops[1:]], ins.extra['sty'])
            return None
        if op in ('bitcast', 'inttoptr', 'ptrtoint', 'addrspacecast'):
            R[ins.res] = self.val(ins.ops[0])
            return None
        if op == 'trunc':
            R[ins.res] = self.val(ins.ops[0]) & _mask(_bits(ins.ty))
            return None
        if op == 'zext':
            R[ins.res] = self.val(ins.ops[0]) & _mask(_bits(ins.extra['fty']))
            return None
        if op == 'sext':
            R[ins.res] = _signed(self.val(ins.ops[0]), _bits(ins.extra['fty'])) & _mask(_bits(ins.ty))
            return None
        if op == 'icmp':
            a, b = self.val(ins.ops[0]), self.val(ins.ops[1])
            pred = ins.extra['pred']
            if isinstance(a, Ptr) or isinstance(b, Ptr):
                if pred == 'eq':
                    R[ins.res] = int(a == b)
                elif pred == 'ne':
                    R[ins.res] = int(a != b)
                else:
                    raise Unknown('ordered pointer comparison')
                return None
            w = _bits(ins.extra['cty'])
            ua, ub = a & _mask(w), b & _mask(w)
            sa, sb = _signed(a, w), _signed(b, w)
            R[ins.res] = int({'eq': ua == ub, 'ne': ua != ub, 'ult': ua < ub, 'ule': ua <= ub, 'ugt': ua > ub,
                              'uge': ua >= ub, 'slt': sa < sb, 'sle': sa <= sb, 'sgt': sa > sb, 'sge': sa >= sb}[pred])
            return None
        if op == 'select':
            R[ins.res] = self.val(ins.ops[1]) if self.val(ins.ops[0]) & 1 else self.val(ins.ops[2])
            return None
        if op in ('add', 'sub', 'mul', 'and', 'or', 'xor', 'shl', 'lshr', 'ashr', 'udiv', 'sdiv', 'urem', 'srem'):
            w = _bits(ins.ty)
            a, b = self.val(ins.ops[0]), self.val(ins.ops[1])
            if op == 'sub' and isinstance(a, Ptr) and isinstance(b, Ptr) and a.root == b.root and a.path and b.path \
                    and a.path[:-1] == b.path[:-1] and isinstance(a.path[-1], int) and isinstance(b.path[-1], int) \
                    and (a.es or b.es):
                R[ins.res] = ((a.path[-1] - b.path[-1]) * (a.es or b.es)) & _mask(w)     # pointer difference in bytes
                return None
            if isinstance(a, Ptr) or isinstance(b, Ptr):
                raise Unknown('arithmetic on a pointer')
            a &= _mask(w)
            b &= _mask(w)
            if op in ('shl', 'lshr', 'ashr') and b >= w:
                raise Unknown('SHIFT-OUT-OF-RANGE by %d on i%d at line %s' % (b, w, ins.line))
            if op in ('udiv', 'sdiv', 'urem', 'srem') and b == 0:
                raise Unknown('DIVISION-BY-ZERO at line %s' % ins.line)
            if op == 'add':
                r = a + b
            elif op == 'sub':
                r = a - b
            elif op == 'mul':
                r = a * b
            elif op == 'and':
                r = a & b
            elif op == 'or':
                r = a | b
            elif op == 'xor':
                r = a ^ b
            elif op == 'shl':
                r = a << b
            elif op == 'lshr':
                r = a >> b
            elif op == 'ashr':
                r = _signed(a, w) >> b
            elif op == 'udiv':
                r = a // b
            elif op == 'urem':
                r = a % b
            else:
                sa, sb = _signed(a, w), _signed(b, w)
                q = abs(sa) // abs(sb)
                if (sa < 0) != (sb < 0):
                    q = -q
                r = q if op == 'sdiv' else sa - q * sb
            R[ins.res] = r & _mask(w)
            return None
        if op == 'call':
            callee = ins.extra.get('callee') or ''
            if callee.startswith('llvm.expect'):
                R[ins.res] = self.val(ins.ops[0])
                return None
            if callee in self.intrinsics:
                r = self.intrinsics[callee](*[self.val(o) for o in ins.ops])
                if ins.res is not None:
                    R[ins.res] = r
                return None
            if callee.startswith('llvm.memcpy') or callee.startswith('llvm.memmove'):
                dst, src, n = self.val(ins.ops[0]), self.val(ins.ops[1]), self.val(ins.ops[2])
                if not (isinstance(dst, Ptr) and isinstance(src, Ptr)) or isinstance(n, Ptr) or n > 4096:
                    raise Unknown('memcpy with non-constant operands')

                def elem(p, i):
                    path = list(p.path)
                    if path and isinstance(path[-1], int):
                        path[-1] += i
                    else:
                        path.append(i)
                    return Ptr(p.root, path, 1)
                for i in range(n):
                    v = self.load(elem(src, i), ins)
                    self.mem[elem(dst, i).key()] = v
                    self.stores.append((elem(dst, i).key(), v, ins))
                return None
            if callee.startswith('llvm.memset'):
                dst, v, n = self.val(ins.ops[0]), self.val(ins.ops[1]), self.val(ins.ops[2])
                if not isinstance(dst, Ptr) or isinstance(n, Ptr) or n > 4096:
                    raise Unknown('memset with non-constant operands')
                for i in range(n):
                    path = list(dst.path)
                    if path and isinstance(path[-1], int):
                        path[-1] += i
                    else:
                        path.append(i)
                    self.mem[(dst.root, tuple(path))] = v & 0xFF
                return None
            raise Unknown('call to %s inside an evaluated fragment' % callee)
        raise Unknown('opcode %s inside an evaluated fragment' % op)

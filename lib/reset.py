"""Must-definition analysis for global locations (R6 per-run reset).

MS(f)     = set of global locations stored on *every* path entry->return of f (callee summaries included)
MD_at(f,i)= locations stored on every path from f's entry to instruction i
A definition of (G, path) covers every location (G, path + q)."""
import cfg
from irdb import broken
from prov import strip_casts, strip_ext, path_key


def loc_of(a):
    """address expr -> (gkey, path tuple of names/ints/'*') or None"""
    if a[1][0] != 'G':
        return None
    out = []
    for st in a[2]:
        if st[0] == 'f':
            out.append(st[3] if st[3] else '#%d' % st[2])
        else:
            out.append(st[1] if isinstance(st[1], int) else '*')
    return (a[1][1], tuple(out))


def covers(defs, loc):
    g, p = loc
    for (dg, dp) in defs:
        if dg == g and '*' not in dp and p[:len(dp)] == dp:
            return True
    return False


def lkey(loc):
    return loc[0] + ''.join(('.%s' % x) if isinstance(x, str) and x != '*' else '[%s]' % x for x in loc[1])


class MustDef:
    def __init__(self, prog, cg, resolver):
        self.prog = prog
        self.cg = cg
        self.resolver = resolver
        self.memo = {}
        self.inprog = set()

    def _gen(self, fn, P, ins):
        """locations certainly stored by this instruction"""
        if ins.op == 'store':
            l = loc_of(P.addr(ins.ops[1]))
            return {l} if l and '*' not in l[1] else set()
        if ins.op == 'call':
            n = ins.extra.get('callee') or ''
            if n.startswith('llvm.memcpy') or n.startswith('llvm.memset') or n.startswith('llvm.memmove'):
                e = P.expr(ins.ops[0])
                if e[0] == 'addr':
                    l = loc_of(e)
                    return {l} if l and '*' not in l[1] else set()
                return set()
            ts = self.resolver(fn, ins)
            if not ts:
                return set()
            res = None
            for t in ts:
                s = self.summary(t)
                # sret/out-parameter binding: a callee that fills *param on every path defines the bound global
                s = set(s) | self._param_defs(fn, P, ins, t)
                res = s if res is None else (res & s)
            return res or set()
        return set()

    def _param_defs(self, fn, P, ins, callee):
        """if the callee stores through pointer parameter k on every path (whole object or fields) and the argument
        is the address of a global, the corresponding global locations are defined"""
        out = set()
        pd = self.param_summary(callee)
        for k, fields in pd.items():
            if k < len(ins.ops):
                a = P.expr(ins.ops[k])
                if a[0] == 'addr':
                    base = loc_of(a)
                    if base and '*' not in base[1]:
                        for fp in fields:
                            out.add((base[0], base[1] + fp))
        return out

    def param_summary(self, fn):
        """{param index: set of field paths stored through that pointer param on every path}"""
        k = ('P', fn.qname)
        if k in self.memo:
            return self.memo[k]
        if k in self.inprog:
            return {}
        self.inprog.add(k)
        P = self.cg.prov(fn)

        def gen(ins):
            out = set()
            if ins.op == 'store':
                a = P.addr(ins.ops[1])
                if a[1][0] == 'V' and a[1][1][0] == 'param':
                    p = _pp(a[2])
                    if p is not None:
                        out.add((a[1][1][1], p))
                if a[1][0] == 'A' and a[1][1] in [pn for _, pn in fn.params]:
                    p = _pp(a[2])
                    if p is not None:
                        out.add(([pn for _, pn in fn.params].index(a[1][1]), p))
            elif ins.op == 'call' and (ins.extra.get('callee') or '').startswith('llvm.mem'):
                e = P.expr(ins.ops[0])
                if e[0] == 'addr' and e[1][0] == 'V' and e[1][1][0] == 'param':
                    p = _pp(e[2])
                    if p is not None:
                        out.add((e[1][1][1], p))
                if e[0] == 'addr' and e[1][0] == 'A' and e[1][1] in [pn for _, pn in fn.params]:
                    p = _pp(e[2])
                    if p is not None:
                        out.add(([pn for _, pn in fn.params].index(e[1][1]), p))
            return out
        res = self._flow(fn, gen)
        self.inprog.discard(k)
        d = {}
        for (pi, p) in res:
            d.setdefault(pi, set()).add(p)
        self.memo[k] = d
        return d

    def summary(self, fn):
        k = fn.qname
        if k in self.memo:
            return self.memo[k]
        if k in self.inprog:
            return frozenset()
        self.inprog.add(k)
        P = self.cg.prov(fn)
        res = self._flow(fn, lambda ins: self._gen(fn, P, ins))
        self.inprog.discard(k)
        self.memo[k] = frozenset(res)
        return self.memo[k]

    def _flow(self, fn, gen, want=None, exits=None):
        """forward must-dataflow; returns the set at returns (intersection over return blocks), or, if `want` is an
        instruction, the set just before it; `exits` restricts the return blocks considered"""
        TOP = None
        IN = {b: TOP for b in fn.blocks}
        entry = fn.entry.name
        IN[entry] = frozenset()
        gens = {}
        work = [entry]
        OUT = {}
        while work:
            bn = work.pop()
            cur = set(IN[bn])
            blk = fn.blocks[bn]
            for ins in blk.insns:
                if ins.op in ('dbg', 'phi'):
                    continue
                if want is not None and ins is want:
                    OUT[('want', bn)] = frozenset(cur)
                g = gens.get(id(ins))
                if g is None:
                    g = gen(ins)
                    gens[id(ins)] = g
                cur |= g
            out = frozenset(cur)
            if OUT.get(bn) == out:
                continue
            OUT[bn] = out
            for s in blk.succs:
                new = out if IN[s] is TOP else (IN[s] & out)
                if IN[s] is TOP or new != IN[s]:
                    IN[s] = new
                    if s not in work:
                        work.append(s)
        if want is not None:
            r = OUT.get(('want', want.block.name))
            return set(r) if r is not None else set()
        rets = [b.name for b in fn.blocks.values() if b.term.op == 'ret' and b.name in OUT]
        if exits is not None:
            rets = [b for b in exits if b in OUT]
        res = None
        for b in rets:
            res = set(OUT[b]) if res is None else (res & OUT[b])
        return res or set()

    def at(self, fn, ins):
        """locations defined on every path from fn's entry to ins"""
        P = self.cg.prov(fn)
        return self._flow(fn, lambda i: self._gen(fn, P, i), want=ins)

    def at_exits(self, fn, blocks):
        P = self.cg.prov(fn)
        return self._flow(fn, lambda i: self._gen(fn, P, i), exits=blocks)


def _pp(path):
    out = []
    for st in path:
        if st[0] == 'f':
            out.append(st[3] if st[3] else '#%d' % st[2])
        elif isinstance(st[1], int):
            out.append(st[1])
        else:
            return None
    return tuple(out)

"""Conservation-law engine (R3).

A *law* is a linear form over resource counters: global integer counters, sizes of global queues, and
indicators [global pointer != NULL].  For a function the engine computes, path-sensitively in the nullness
of the tracked pointer holders, the set of net law vectors over all entry->return paths; loops must be
neutral (otherwise the vector set does not stabilise, which is reported).  Callee effects are applied through
memoised summaries; indirect calls are resolved by the caller-supplied resolver (per process mode)."""
import cfg
from irdb import broken
from prov import Prov, addr_key, strip_ext, strip_casts, render, path_key

CAP = 48     # more distinct vectors than this at one block => a loop that is not neutral


class Unbalanced(Exception):
    def __init__(self, fn, block, msg):
        self.fn = fn
        self.block = block
        self.msg = msg


class LawSet:
    def __init__(self, laws, holders=()):
        """laws: {name: {counter_key: weight}}; counter_key is an address key such as 'G:work_units' or
        'G:compress:trans_q.size' or 'P:compress:unfinished_work' (pointer-holder indicator)."""
        self.names = sorted(laws)
        self.laws = laws
        self.counters = {}
        for ln, form in laws.items():
            for ck, w in form.items():
                self.counters.setdefault(ck, {})[ln] = w
        self.holders = {ck[2:] for ck in self.counters if ck.startswith('P:')}

    def delta(self, ck, amount):
        return tuple(self.counters.get(ck, {}).get(ln, 0) * amount for ln in self.names)

    def zero(self):
        return tuple(0 for _ in self.names)


def vadd(a, b):
    return tuple(x + y for x, y in zip(a, b))


class Balance:
    def __init__(self, prog, cg, lawset, resolver=None, extra_effects=None):
        self.prog = prog
        self.cg = cg
        self.ls = lawset
        self.resolver = resolver or (lambda fn, ins: cg.targets(fn, ins))
        self.memo = {}
        self.inprog = set()
        self.absolute = []      # (fn, ins, counter) absolute stores to law counters
        self.effect_sites = {}  # counter -> list of (fn, ins, amount)
        self.extra_effects = extra_effects or {}   # callee name -> {counter: amount} (library/objects)
        self.paths = {}         # fn.qname -> number of (block,state) pairs explored

    # ---------------------------------------------------------------
    def summary(self, fn):
        """frozenset of net vectors over all paths entry->ret; raises Unbalanced"""
        k = fn.qname
        if k in self.memo:
            return self.memo[k]
        if k in self.inprog:
            return frozenset([self.ls.zero()])
        if not self._relevant(fn):
            self.memo[k] = frozenset([self.ls.zero()])
            return self.memo[k]
        self.inprog.add(k)
        P = self.cg.prov(fn)
        entry = fn.entry.name
        # state: (vector, facts) ; facts = frozenset of (key, 'N'|'NN') ; key = ssa name or 'H:'+holder
        start = (self.ls.zero(), frozenset())
        # SSA values tested by more than one branch: the second test repeats the outcome of the first (as long as
        # the value has not been recomputed), e.g. `ok = ...; if (ok) fetch; unlock; return ok` inlined into a loop
        from codecrules import _cond_root
        nroot = {}
        for b0 in fn.blocks.values():
            t0 = b0.term
            if t0.op == 'br' and len(t0.extra['targets']) == 2 and t0.ops:
                r0 = _cond_root(fn, t0.ops[0])
                if r0 is not None:
                    nroot[r0[0]] = nroot.get(r0[0], 0) + 1
        multi = {r for r, n in nroot.items() if n >= 2}
        defblock = {}
        if multi:
            for b0 in fn.blocks.values():
                for i0 in b0.insns:
                    if i0.res in multi:
                        defblock[i0.res] = b0.name
        inset = {entry: {(start, None)}}
        seen = {entry: {start}}
        work = [(entry, start, None)]
        exits = set()
        explored = 0
        while work:
            bn, st, pred = work.pop()
            explored += 1
            blk = fn.blocks[bn]
            if multi and any(kk.startswith('B:') and defblock.get(kk[2:]) == bn for kk, _ in st[1]):
                st = (st[0], frozenset((kk, vv) for kk, vv in st[1]
                                       if not (kk.startswith('B:') and defblock.get(kk[2:]) == bn)))
            states = [st]
            # phi facts: copy nullness of the incoming value
            if pred is not None:
                vec, facts = st
                fd = dict(facts)
                newf = {}
                for ins in blk.insns:
                    if ins.op != 'phi':
                        if ins.op == 'dbg':
                            continue
                        break
                    for v, pb in ins.extra['incoming']:
                        if pb == pred:
                            n = self._nullness(P, v, fd)
                            if n:
                                newf[ins.res] = n
                            elif ins.res in fd:
                                newf[ins.res] = None
                for kk, vv in newf.items():
                    if vv is None:
                        fd.pop(kk, None)
                    else:
                        fd[kk] = vv
                states = [(vec, frozenset(fd.items()))]
            for ins in blk.insns:
                if ins.op in ('dbg', 'phi'):
                    continue
                nxt = []
                for s in states:
                    nxt.extend(self._transfer(fn, P, ins, s))
                states = nxt
                if not states:
                    break
            t = blk.term
            if t.op == 'ret':
                for s in states:
                    exits.add(s[0])
                continue
            for s0 in states:
                succs = [(x, s0) for x in blk.succs]
                if t.op == 'br' and len(t.extra['targets']) == 2:
                    pol = self._branch_null(P, t.ops[0], dict(s0[1]))
                    if pol is not None:
                        succs = [(t.extra['targets'][0 if pol else 1], s0)]
                    elif multi and t.ops:
                        r0 = _cond_root(fn, t.ops[0])
                        if r0 is not None and r0[0] in multi:
                            known = dict(s0[1]).get('B:' + r0[0])
                            succs = []
                            for side, tgt in ((True, t.extra['targets'][0]), (False, t.extra['targets'][1])):
                                val = side == r0[1]
                                if known is not None and (known == 'T') != val:
                                    continue
                                succs.append((tgt, (s0[0], frozenset(set(s0[1]) | {('B:' + r0[0], 'T' if val else 'F')}))))
                for sn, s in succs:
                    ss = seen.setdefault(sn, set())
                    if s not in ss:
                        ss.add(s)
                        if len({x[0] for x in ss}) > CAP:
                            self.inprog.discard(k)
                            raise Unbalanced(fn, sn, 'law sums do not stabilise at block %s (line %s): a loop through it '
                                                     'is not neutral; sample vectors %s over laws %s' % (
                                                         sn, fn.blocks[sn].first_line,
                                                         sorted({x[0] for x in ss})[:4], self.ls.names))
                        work.append((sn, s, bn))
        self.inprog.discard(k)
        res = frozenset(exits)
        self.memo[k] = res
        self.paths[k] = explored
        return res

    def _relevant(self, fn):
        """does fn (transitively) contain an effect on a law counter / holder / extra effect?"""
        if not hasattr(self, '_rel'):
            direct = set()
            callers = {}
            allf = list(self.prog.all_funcs())
            for f in allf:
                P = self.cg.prov(f)
                for i in f.insns():
                    if i.op == 'store':
                        a = P.addr(i.ops[1])
                        if a[1][0] == 'G':
                            key = 'G:' + a[1][1] + path_key(a[2])
                            if key in self.ls.counters or (not a[2] and a[1][1] in self.ls.holders):
                                direct.add(f.qname)
                    elif i.op == 'call':
                        if i.extra.get('callee') in self.extra_effects:
                            direct.add(f.qname)
                        try:
                            ts = self.resolver(f, i)
                        except Exception:
                            ts = []
                        for t in ts:
                            callers.setdefault(t.qname, set()).add(f.qname)
            rel = set(direct)
            st = list(direct)
            while st:
                x = st.pop()
                for c in callers.get(x, ()):
                    if c not in rel:
                        rel.add(c)
                        st.append(c)
            self._rel = rel
        return fn.qname in self._rel

    # ---------------------------------------------------------------
    def _nullness(self, P, v, fd):
        if v[0] == 'null':
            return 'N'
        if v[0] == 'reg':
            if v[1] in fd:
                return fd[v[1]]
            e = strip_casts(P.expr(v))
            if e[0] == 'call' and e[1] in ('xmalloc',):
                return 'NN'
            if e[0] == 'load' and e[1][1][0] == 'V':
                # element of a global queue's root array: only non-NULL pointers are ever enqueued
                b = strip_ext(e[1][1][1])
                if b[0] == 'load' and b[1][1][0] == 'G' and b[1][2] and b[1][2][-1][0] == 'f' \
                        and b[1][2][-1][3] == 'root':
                    return 'NN'
        return None

    def _branch_null(self, P, cond, fd):
        """if the branch condition is a null test of a value with known nullness -> polarity of the true edge"""
        if cond[0] != 'reg':
            return None
        ins = P.fn.defs.get(cond[1])
        depth = 0
        neg = False
        while ins is not None and depth < 6:
            depth += 1
            if ins.op == 'icmp' and ins.extra['pred'] in ('eq', 'ne'):
                a, b = ins.ops
                if b[0] == 'null' or a[0] == 'null':
                    x = a if b[0] == 'null' else b
                    n = self._nullness(P, x, fd)
                    if n is None:
                        return None
                    r = (n == 'N') if ins.extra['pred'] == 'eq' else (n == 'NN')
                    return (not r) if neg else r
                # (x != 0) wrappers around i1/ints
                if b == ('int', 0) and a[0] == 'reg':
                    if ins.extra['pred'] == 'eq':
                        neg = not neg
                    ins = P.fn.defs.get(a[1])
                    continue
                return None
            if ins.op in ('zext', 'sext', 'trunc') and ins.ops[0][0] == 'reg':
                ins = P.fn.defs.get(ins.ops[0][1])
                continue
            return None
        return None

    def _transfer(self, fn, P, ins, st):
        vec, facts = st
        op = ins.op
        if op == 'load':
            a = P.addr(ins.ops[0])
            if a[1][0] == 'G' and not a[2] and a[1][1] in self.ls.holders:
                h = 'H:' + a[1][1]
                fd = dict(facts)
                if h in fd:
                    fd[ins.res] = fd[h]
                    return [(vec, frozenset(fd.items()))]
                out = []
                for n in ('N', 'NN'):
                    f2 = dict(fd)
                    f2[h] = n
                    f2[ins.res] = n
                    out.append((vec, frozenset(f2.items())))
                return out
            return [st]
        if op == 'store':
            a = P.addr(ins.ops[1])
            if a[1][0] != 'G':
                return [st]
            key = 'G:' + a[1][1] + path_key(a[2])
            if not a[2] and a[1][1] in self.ls.holders:
                h = 'H:' + a[1][1]
                ck = 'P:' + a[1][1]
                fd = dict(facts)
                newn = self._nullness(P, ins.ops[0], fd)
                olds = [fd[h]] if h in fd else ['N', 'NN']
                news = [newn] if newn else ['N', 'NN']
                out = []
                for o in olds:
                    for nn in news:
                        f2 = dict(fd)
                        f2[h] = nn
                        if ins.ops[0][0] == 'reg':
                            f2[ins.ops[0][1]] = nn
                        d = (1 if nn == 'NN' else 0) - (1 if o == 'NN' else 0)
                        self.effect_sites.setdefault(ck, []).append((fn, ins, d))
                        out.append((vadd(vec, self.ls.delta(ck, d)), frozenset(f2.items())))
                return out
            if key in self.ls.counters:
                v = strip_ext(P.expr(ins.ops[0]))
                amt = None
                if v[0] == 'bin' and v[1] in ('add', 'sub'):
                    x, y = strip_ext(v[2]), strip_ext(v[3])
                    if x[0] == 'load' and x[1] == a and y[0] == 'const':
                        amt = y[1] if v[1] == 'add' else -y[1]
                if amt is None:
                    self.absolute.append((fn, ins, key))
                    return [st]
                self.effect_sites.setdefault(key, []).append((fn, ins, amt))
                return [(vadd(vec, self.ls.delta(key, amt)), facts)]
            return [st]
        if op == 'call':
            name = ins.extra.get('callee')
            if name in self.extra_effects:
                eff = self.extra_effects[name]
                if callable(eff):
                    eff = eff(fn, P, ins)
                v2 = vec
                for ck, amt in (eff or {}).items():
                    self.effect_sites.setdefault(ck, []).append((fn, ins, amt))
                    v2 = vadd(v2, self.ls.delta(ck, amt))
                vec = v2
            targets = self.resolver(fn, ins)
            if not targets:
                if name in self.prog.noreturn:
                    return []
                return [(vec, facts)]
            outs = []
            # a callee may change holders: forget holder facts if it touches them
            for t in targets:
                for cv in self.summary(t):
                    outs.append((vadd(vec, cv), self._forget(facts, t)))
            # de-duplicate
            return list(dict.fromkeys(outs))
        return [st]

    def _forget(self, facts, callee):
        if not self.ls.holders:
            return facts
        # conservative: callee that (transitively) stores to a holder invalidates its fact
        if not hasattr(self, '_touch'):
            self._touch = {}
        k = callee.qname
        if k not in self._touch:
            touched = set()
            for f in self.cg.reachable_funcs([callee]).values():
                P = self.cg.prov(f)
                for i in f.insns():
                    if i.op == 'store':
                        a = P.addr(i.ops[1])
                        if a[1][0] == 'G' and not a[2] and a[1][1] in self.ls.holders:
                            touched.add(a[1][1])
            self._touch[k] = touched
        t = self._touch[k]
        if not t:
            return facts
        return frozenset((kk, vv) for kk, vv in facts if not (kk.startswith('H:') and kk[2:] in t))

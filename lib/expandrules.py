"""Rules over expand.c's tasks that several properties share (C05, C07, C10, C15): where error codes, CRCs and the
declared block size are examined, and what may happen to a block afterwards.  Each analysis explores the task's
CFG path-sensitively over a small abstract state (pathsens.Explorer) and returns plain facts; the property modules
turn them into obligations under their own rule names."""
import cfg
from irdb import broken, enumerators
from prov import Prov, strip_casts, strip_ext, addr_key, path_key, render, cmp_norm, peel_cond
from pathsens import Explorer, OTHER


def _load_key(e):
    e = strip_ext(e)
    return addr_key(e[1]) if e[0] == 'load' else None


def _is_field(a, field, root_contains=None):
    pk = path_key(a[2])
    if not (pk == '.' + field or pk.endswith('.' + field)):
        return False
    return root_contains is None or root_contains in addr_key(a)


def codes(E):
    """every enumerator of the codec's result enum (OK .. ERR_EOF) + OTHER (any value outside it)"""
    names = ['OK', 'MORE', 'FINISH'] + sorted((n for n in E if n.startswith('ERR_')), key=lambda n: E[n])
    return [E[n] for n in names] + [OTHER]


def is_err(E, v):
    return v == OTHER or v not in (E['OK'], E['MORE'], E['FINISH'])


def callee(ins):
    return ins.extra.get('callee') or ''


_ROLE_CACHE = {}


def ord_local(prog):
    """name of do_reorder()'s local copy of the order head: the local that receives the element taken from order_q"""
    k = (id(prog), 'ord')
    if k not in _ROLE_CACHE:
        f = prog.func('expand', 'do_reorder')
        P = Prov(prog, f)
        names = set()
        for i in f.insns():
            if i.op == 'call' and callee(i).startswith('llvm.memcpy'):
                d, s = memcpy_dst_src(P, i)
                if d and d.startswith('A:') and '.' not in d and s and s.startswith('V(G:expand:order_q.root)'):
                    names.add(d[2:])
        if len(names) != 1:
            broken('do_reorder(): cannot identify the local copy of the order head (candidates %s)' % sorted(names))
        _ROLE_CACHE[k] = names.pop()
    return _ROLE_CACHE[k]


def head_local(prog):
    """name of do_parse()'s local header record: the local whose .hdr is handed to parse()"""
    k = (id(prog), 'head')
    if k not in _ROLE_CACHE:
        f = prog.func('expand', 'do_parse')
        P = Prov(prog, f)
        pc = list(f.calls('parse'))
        if len(pc) != 1:
            broken('do_parse(): expected one call to parse()')
        hd = P.expr(pc[0].ops[1])
        if hd[0] != 'addr' or hd[1][0] != 'A' or path_key(hd[2]) != '.hdr':
            broken('do_parse(): the header argument of parse() is not the .hdr of a local record')
        _ROLE_CACHE[k] = hd[1][1]
    return _ROLE_CACHE[k]


def memcpy_dst_src(P, ins):
    if not callee(ins).startswith('llvm.memcpy'):
        return None, None
    d, s = P.expr(ins.ops[0]), P.expr(ins.ops[1])
    return (addr_key(d) if d[0] == 'addr' else render(d)), (addr_key(s) if s[0] == 'addr' else render(s))


# ------------------------------------------------------------------------------------------------
# do_reorder
# ------------------------------------------------------------------------------------------------

def analyse_reorder(prog):
    f = prog.func('expand', 'do_reorder')
    P = Prov(prog, f)
    ORD = 'A:' + ord_local(prog)
    E = enumerators(f.module)
    info = {'f': f, 'crc_tests': [], 'ovf_tests': [], 'other_status_tests': []}

    def is_status(a):
        return _is_field(a, 'status', 'reord_q')

    def crc_fact(c):
        cn = cmp_norm(c)
        if not cn:
            return None
        pred, x, y = cn
        kx, ky = _load_key(x), _load_key(y)
        if kx is None or ky is None:
            return None
        if ky.endswith('.crc') and 'reord_q' in ky:
            kx, ky = ky, kx
        if not (kx.endswith('.crc') and 'reord_q' in kx and ky == ORD + '.hdr.crc'):
            return None
        if pred not in ('eq', 'ne'):
            return None
        # full width: both operands are plain 32-bit loads (strip_ext removed only extensions, never a
        # truncation or a mask)
        info['crc_tests'].append(pred)
        return pred == 'ne'

    def ovf_fact(c):
        cn = cmp_norm(c)
        if not cn:
            return None
        pred, x, y = cn

        def is_blk(e):
            k = _load_key(e)
            return k is not None and k.endswith('.blk_sz') and 'reord_q' in k

        def is_lim(e):
            e = strip_ext(e)
            if e[0] != 'bin' or e[1] != 'mul':
                return False
            a, b_ = strip_ext(e[2]), strip_ext(e[3])
            if a[0] == 'const':
                a, b_ = b_, a
            return b_ == ('const', 100000) and _load_key(a) == ORD + '.hdr.bs100k'
        if is_blk(x) and is_lim(y):
            r = {'ugt': True, 'ule': False}.get(pred)
        elif is_lim(x) and is_blk(y):
            r = {'ult': True, 'uge': False}.get(pred)
        else:
            return None
        if r is not None:
            info['ovf_tests'].append(pred)
        return r

    def bogus_fact(c):
        # head-of-line comparison of reord_q's top with the order head, and emptiness of order_q: tracked only so
        # that the paths are labelled; the C10 rules look at them
        return None

    ex = Explorer(prog, f, {'status': is_status}, [('crc_ne', crc_fact), ('ovf', ovf_fact)], P)
    events = []

    def on_call(ins, st):
        c = callee(ins)
        if c.startswith('llvm.memcpy'):
            d, s = memcpy_dst_src(P, ins)
            if d == ORD and 'order_q.root' in (s or ''):
                st['facts']['committed'] = True
        elif c == 'sink_write_buffer':
            st['facts']['wrote'] = True
            events.append(('write', ins, dict(st['cells']), dict(st['facts'])))
        elif c == 'failf':
            st['facts']['failed'] = True
            events.append(('fail', ins, dict(st['cells']), dict(st['facts'])))
            arg = strip_casts(P.expr(ins.ops[2])) if len(ins.ops) > 2 else None
            info.setdefault('fail_args', []).append(arg)
    init = [{'cells': {'status': v}, 'facts': {}} for v in codes(E)]
    exits = ex.explore(init, on_call)
    info['events'] = events
    info['exits'] = exits
    info['E'] = E
    info['P'] = P
    return info


def reorder_obligations(ctx, prog, pfx, parts=('write', 'fatal', 'crc', 'size')):
    info = analyse_reorder(prog)
    f, E = info['f'], info['E']
    writes = [e for e in info['events'] if e[0] == 'write']
    ctx.floor(pfx + ' do_reorder: calls to sink_write_buffer explored', len(writes), 1)
    site = f.loc(writes[0][1])
    bad = []
    for _, ins, cells, facts in writes:
        s = cells.get('status')
        if 'size' in parts and facts.get('ovf') is not False:
            bad.append('written although the declared-size test `blk_sz > ord.hdr.bs100k*100000` is %s (status %s)' % (
                'true' if facts.get('ovf') else 'not applied on this path', s))
        if 'write' in parts and s not in (E['OK'], E['MORE']):
            bad.append('written with status %s' % s)
        if 'crc' in parts and s == E['OK'] and facts.get('crc_ne') is not False:
            bad.append('a finished block (status OK) is written although `oblk->crc != ord.hdr.crc` is %s' % (
                'true' if facts.get('crc_ne') else 'not tested on this path (or not on all 32 bits of both fields)'))
    if 'write' in parts or 'crc' in parts or 'size' in parts:
        ctx.ob(pfx + '.reorder.write_only_good', 'sink_write_buffer() in do_reorder() is reached only for a block '
               'that is OK/MORE, within its stream\'s declared size and (when finished) with matching CRC', site,
               not bad, '; '.join(sorted(set(bad))) or '%d abstract states reach the writer' % len(writes),
               evals=len(writes))
    if 'fatal' in parts:
        bad = []
        n = 0
        for kind, blk, st in info['exits']:
            if not st['facts'].get('committed'):
                continue
            n += 1
            s = st['cells'].get('status')
            if kind == 'ret' and not st['facts'].get('wrote'):
                bad.append('returns at %s without writing or failing (status %s)' % (blk, s))
            if kind == 'unreachable' and not st['facts'].get('failed'):
                bad.append('dead end at %s without failf' % blk)
        fails = [e for e in info['events'] if e[0] == 'fail']
        # every erroneous state must end in failf: starting states OTHER and the two stores of error codes
        reached_fail = {c.get('status') for _, _, c, _ in fails}
        for need in codes(E):
            if need in (E['OK'], E['MORE']):
                continue
            if need not in reached_fail:
                bad.append('no path with status %s reaches failf' % need)
        ctx.ob(pfx + '.reorder.errors_fatal', 'after taking the order head, do_reorder() either writes the block or '
               'calls failf(); every error status (incl. ERR_OVERFLOW, ERR_BLKCRC) ends in failf', f.loc(fails[0][1]) if fails else f.loc(),
               not bad, '; '.join(sorted(set(bad))) or '%d exits examined' % n, evals=n)
        # the diagnostic names the status
        args = info.get('fail_args', [])
        ok = bool(args) and all(a is not None and a[0] == 'call' and a[1] == 'err2str' for a in args)
        ctx.ob(pfx + '.reorder.diagnostic', 'failf() in do_reorder() prints err2str(status)', f.loc(fails[0][1]) if fails
               else f.loc(), ok, '')
    return info


# ------------------------------------------------------------------------------------------------
# do_emit / do_retrieve: status hand-over
# ------------------------------------------------------------------------------------------------

def analyse_emit(prog):
    f = prog.func('expand', 'do_emit')
    P = Prov(prog, f)
    E = enumerators(f.module)

    def is_estatus(a):
        return _is_field(a, 'status', 'emit_q')

    def is_ostatus(a):
        return _is_field(a, 'status', 'xmalloc')

    def is_emit(e):
        return e[0] == 'call' and e[1] == 'emit'
    ex = Explorer(prog, f, {'estatus': is_estatus, 'ostatus': is_ostatus}, [], P, vals={'emit_rv': is_emit})
    events = []

    def on_call(ins, st):
        c = callee(ins)
        if c == 'emit':
            st['facts']['emitted'] = True
            events.append(('emit', ins, dict(st['cells']), dict(st['facts'])))
        elif c == 'up_heap':
            a0 = render(P.expr(ins.ops[0]))
            if 'reord_q' in a0:
                events.append(('push_reord', ins, dict(st['cells']), dict(st['facts'])))
            elif 'emit_q' in a0:
                events.append(('push_emit', ins, dict(st['cells']), dict(st['facts'])))
        elif c == 'decoder_free':
            st['facts']['freed'] = True
    init = []
    for es in codes(E):
        if es == E['MORE']:
            continue        # do_retrieve never hands over MORE (retrieve_obligations)
        for rv in codes(E):
            init.append({'cells': {'estatus': es, 'emit_rv': rv, 'ostatus': None}, 'facts': {}})
    exits = ex.explore(init, on_call)
    return {'f': f, 'P': P, 'E': E, 'events': events, 'exits': exits}


def emit_obligations(ctx, prog, pfx):
    info = analyse_emit(prog)
    f, E = info['f'], info['E']
    pushes = [e for e in info['events'] if e[0] == 'push_reord']
    ctx.floor(pfx + ' do_emit: pushes to reord_q explored', len(pushes), 2)
    bad = []
    for _, ins, cells, facts in pushes:
        want = cells['estatus'] if cells['estatus'] != E['OK'] else cells['emit_rv']
        if cells.get('ostatus') != want:
            bad.append('retrieve status %s, emit() result %s -> out block status %s' % (
                cells['estatus'], cells['emit_rv'] if cells['estatus'] == E['OK'] else 'n/a', cells.get('ostatus')))
        if bool(facts.get('emitted')) != (cells['estatus'] == E['OK']):
            bad.append('emit() %s for a block whose retrieve status is %s' % (
                'called' if facts.get('emitted') else 'not called', cells['estatus']))
    ctx.ob(pfx + '.emit.status', 'do_emit(): the out block carries the retrieve error, else emit()\'s result; emit() '
           'runs only on successfully retrieved blocks', f.loc(pushes[0][1]), not bad, '; '.join(sorted(set(bad))),
           evals=len(pushes))
    # a block that needs more output space is re-queued, every other one is released
    bad = []
    for _, ins, cells, facts in info['events']:
        pass
    requeue = [e for e in info['events'] if e[0] == 'push_emit']
    for _, ins, cells, facts in requeue:
        st = cells['estatus'] if cells['estatus'] != E['OK'] else cells['emit_rv']
        if st != E['MORE']:
            bad.append('block re-queued to emit_q with status %s' % st)
    ctx.ob(pfx + '.emit.requeue', 'do_emit() re-queues a block to emit_q exactly when its status is MORE',
           f.loc(requeue[0][1]) if requeue else f.loc(), bool(requeue) and not bad, '; '.join(bad))
    return info


def analyse_retrieve(prog):
    f = prog.func('expand', 'do_retrieve')
    P = Prov(prog, f)
    E = enumerators(f.module)

    def is_estatus(a):
        return _is_field(a, 'status', 'xmalloc')

    def is_rv(e):
        return e[0] == 'call' and e[1] == 'retrieve'
    ex = Explorer(prog, f, {'estatus': is_estatus}, [], P, vals={'rv': is_rv})
    events = []

    def on_call(ins, st):
        c = callee(ins)
        if c == 'decode':
            st['facts']['decoded'] = True
        elif c in ('failf', 'fail', 'failx', 'failfx', 'warn', 'warnf', 'warnx', 'warnfx'):
            events.append(('diag', ins, dict(st['cells']), dict(st['facts'])))
        elif c == 'up_heap':
            a0 = render(P.expr(ins.ops[0]))
            if 'emit_q' in a0:
                events.append(('push_emit', ins, dict(st['cells']), dict(st['facts'])))
            elif 'retr_q' in a0:
                events.append(('push_retr', ins, dict(st['cells']), dict(st['facts'])))
    init = [{'cells': {'rv': v, 'estatus': None}, 'facts': {}} for v in codes(E)]
    exits = ex.explore(init, on_call)
    return {'f': f, 'P': P, 'E': E, 'events': events, 'exits': exits}


def retrieve_obligations(ctx, prog, pfx):
    info = analyse_retrieve(prog)
    f, E = info['f'], info['E']
    pe = [e for e in info['events'] if e[0] == 'push_emit']
    ctx.floor(pfx + ' do_retrieve: pushes to emit_q explored', len(pe), 1)
    bad = []
    for _, ins, cells, facts in pe:
        if cells.get('estatus') != cells['rv']:
            bad.append('retrieve() returned %s, emit block status %s' % (cells['rv'], cells.get('estatus')))
        if cells['rv'] == E['MORE']:
            bad.append('an unfinished block (MORE) is handed to the emitter')
        if bool(facts.get('decoded')) != (cells['rv'] == E['OK']):
            bad.append('decode() %s for retrieve() result %s' % ('called' if facts.get('decoded') else 'skipped', cells['rv']))
    ctx.ob(pfx + '.retrieve.status', 'do_retrieve(): retrieve()\'s result is stored unchanged as the block\'s '
           'status; decode() runs exactly for OK; MORE is re-queued, never emitted', f.loc(pe[0][1]), not bad,
           '; '.join(sorted(set(bad))), evals=len(pe))
    pr = [e for e in info['events'] if e[0] == 'push_retr']
    bad = [str(c['rv']) for _, _, c, _ in pr if c['rv'] != E['MORE']]
    ctx.ob(pfx + '.retrieve.requeue', 'do_retrieve() re-queues the job to retr_q only for MORE',
           f.loc(pr[0][1]) if pr else f.loc(), bool(pr) and not bad, ' '.join(bad))
    return info


# ------------------------------------------------------------------------------------------------
# do_parse
# ------------------------------------------------------------------------------------------------

def analyse_parse_task(prog):
    f = prog.func('expand', 'do_parse')
    P = Prov(prog, f)
    E = enumerators(f.module)

    def is_rv(e):
        return e[0] == 'call' and e[1] == 'parse'

    def at_tail(c):
        cn = cmp_norm(c)
        if not cn:
            return None
        pred, x, y = cn
        ks = {_load_key(x), _load_key(y)}
        if ks == {'G:expand:parser_bs.offset', 'G:expand:tail_offs'} and pred in ('eq', 'ne'):
            return pred == 'eq'
        return None

    def in_pad(c):
        cn = cmp_norm(c)
        if not cn:
            return None
        pred, x, y = cn

        def is_live(e):
            return _load_key(e) == 'G:expand:parser_bs.live'

        def is_padbits(e):
            e = strip_ext(e)
            if e[0] == 'bin' and e[1] in ('mul', 'shl'):
                a, b_ = strip_ext(e[2]), strip_ext(e[3])
                if a[0] == 'const':
                    a, b_ = b_, a
                k = 8 if e[1] == 'mul' else 3
                return b_ == ('const', k) and _load_key(a) == 'G:expand:eof_missing'
            return False
        if is_live(x) and is_padbits(y):
            return {'ult': True, 'uge': False}.get(pred)
        if is_padbits(x) and is_live(y):
            return {'ugt': True, 'ule': False}.get(pred)
        return None
    ex = Explorer(prog, f, {}, [('at_tail', at_tail), ('in_pad', in_pad)], P, vals={'rv': is_rv})
    events = []

    def on_call(ins, st):
        c = callee(ins)
        if c.startswith('llvm.memcpy'):
            d, s = memcpy_dst_src(P, ins)
            if 'order_q.root' in (d or ''):
                st['facts']['pushed'] = True
                events.append(('push_order', ins, dict(st['cells']), dict(st['facts']), s))
        elif c == 'failf':
            st['facts']['failed'] = True
            arg = strip_casts(P.expr(ins.ops[2])) if len(ins.ops) > 2 else None
            events.append(('fail', ins, dict(st['cells']), dict(st['facts']), arg))
        elif c == 'source_close':
            st['facts']['closed'] = True
    init = [{'cells': {'rv': v}, 'facts': {}} for v in codes(E)]
    exits = ex.explore(init, on_call)
    return {'f': f, 'P': P, 'E': E, 'events': events, 'exits': exits}


def parse_task_obligations(ctx, prog, pfx):
    info = analyse_parse_task(prog)
    f, E, P = info['f'], info['E'], info['P']
    bad = []
    pushes = [e for e in info['events'] if e[0] == 'push_order']
    ctx.floor(pfx + ' do_parse: pushes to order_q explored', len(pushes), 1)
    for _, ins, cells, facts, src in pushes:
        if cells['rv'] != E['OK']:
            bad.append('a header is pushed on order_q although parse() returned %s' % cells['rv'])
    n = 0
    for kind, blk, st in info['exits']:
        n += 1
        rv = st['cells']['rv']
        fa = st['facts']
        if is_err(E, rv) and not (kind == 'unreachable' and fa.get('failed')):
            bad.append('parse() error code does not end in failf (exit %s at %s)' % (kind, blk))
        if rv == E['OK'] and kind == 'ret' and not fa.get('pushed'):
            bad.append('parse() == OK but no header pushed (exit at %s)' % blk)
        if rv in (E['OK'], E['MORE']) and fa.get('failed'):
            bad.append('failf reached although parse() returned %s' % rv)
    ctx.ob(pfx + '.parse.errors_fatal', 'do_parse(): every result of parse() other than OK/MORE/FINISH ends in '
           'failf(err2str(result)); a header is queued exactly for OK', f.loc(pushes[0][1]), not bad,
           '; '.join(sorted(set(bad))), evals=n)
    # end of input inside the zero padding
    bad = []
    n = 0
    for kind, blk, st in info['exits']:
        if st['cells']['rv'] != E['FINISH']:
            continue
        n += 1
        fa = st['facts']
        if kind == 'ret':
            if 'at_tail' not in fa:
                bad.append('a FINISH path returns without the test `parser_bs.offset == tail_offs`')
            elif fa['at_tail'] and 'in_pad' not in fa:
                bad.append('a FINISH path at the end of input returns without the test `parser_bs.live < 8*eof_missing`')
            elif fa['at_tail'] and fa.get('in_pad'):
                bad.append('stream end inside the zero padding is accepted')
        elif kind == 'unreachable':
            if not (fa.get('at_tail') and fa.get('in_pad') and fa.get('failed')):
                bad.append('FINISH path dies for another reason than the padding test')
    fails = [e for e in info['events'] if e[0] == 'fail' and e[2]['rv'] == E['FINISH']]
    ok_code = bool(fails) and all(a is not None and a[0] == 'call' and a[1] == 'err2str' for _, _, _, _, a in fails)
    ctx.ob(pfx + '.parse.eof_in_padding', 'do_parse() FINISH: a stream that ends inside the zero bytes padded onto the '
           'last input word (offset == tail_offs and live < 8*eof_missing) is a fatal ERR_EOF', f.loc(fails[0][1]) if
           fails else f.loc(), n > 0 and not bad and ok_code, '; '.join(sorted(set(bad))), evals=n)
    return info


# ------------------------------------------------------------------------------------------------
# position comparisons (struct position {major, minor}): facts and their meaning
# ------------------------------------------------------------------------------------------------

_SWAP = {'ult': 'ugt', 'ugt': 'ult', 'ule': 'uge', 'uge': 'ule', 'eq': 'eq', 'ne': 'ne',
         'slt': 'sgt', 'sgt': 'slt', 'sle': 'sge', 'sge': 'sle'}


def pos_fact_matchers(tag, is_a, is_b):
    """fact matchers for comparisons between the major/minor fields of position A and position B.
    is_a/is_b: predicates on the address key of a loaded field *without* its trailing '.major'/'.minor'.
    Fact names: '<tag>:maj:<pred>' / '<tag>:min:<pred>' oriented A pred B."""
    out = []
    for fld in ('major', 'minor'):
        for pred in ('ult', 'ule', 'ugt', 'uge', 'eq', 'ne'):
            def m(c, fld=fld, pred=pred):
                cn = cmp_norm(c)
                if not cn:
                    return None
                p, x, y = cn
                kx, ky = _load_key(x), _load_key(y)
                if kx is None or ky is None or not kx.endswith('.' + fld) or not ky.endswith('.' + fld):
                    return None
                bx, by = kx[:-len(fld) - 1], ky[:-len(fld) - 1]
                if is_a(bx) and is_b(by):
                    pp = p
                elif is_b(bx) and is_a(by):
                    pp = _SWAP.get(p)
                else:
                    return None
                return True if pp == pred else None
            out.append(('%s:%s:%s' % (tag, 'maj' if fld == 'major' else 'min', pred), m))
    return out


def pos_relations(tag, facts):
    """set of relations A ? B in {'LT','EQ','GT'} consistent with the recorded comparison facts"""
    def holds(pred, r):
        return {'ult': r == '<', 'ule': r in '<=', 'ugt': r == '>', 'uge': r in '>=', 'eq': r == '=', 'ne': r != '='}[pred]
    rels = set()
    for maj in '<=>':
        for mn in '<=>':
            ok = True
            for name, val in facts.items():
                if not isinstance(name, str) or not name.startswith(tag + ':'):
                    continue
                _, fld, pred = name.split(':')
                if holds(pred, maj if fld == 'maj' else mn) != val:
                    ok = False
                    break
            if ok:
                r = maj if maj != '=' else mn
                rels.add({'<': 'LT', '=': 'EQ', '>': 'GT'}[r])
    return rels


def drop_facts(st, tag):
    for k in [k for k in st['facts'] if isinstance(k, str) and k.startswith(tag + ':')]:
        del st['facts'][k]


def nonempty_fact(qname):
    """fact: queue `qname` is non-empty (tests of its .size against 0)"""
    def m(c):
        k = _load_key(c)
        if k == 'G:expand:%s.size' % qname:
            return True
        cn = cmp_norm(c)
        if cn:
            p, x, y = cn
            if _load_key(x) == 'G:expand:%s.size' % qname and y == ('const', 0):
                return {'ne': True, 'ugt': True, 'eq': False}.get(p)
        return None
    return ('nonempty:' + qname, m)


def flag_fact(name, key):
    def m(c):
        c = strip_casts(c)
        return True if _load_key(c) == key else None
    return (name, m)


# ------------------------------------------------------------------------------------------------
# reference count protocol of the decompressor's input blocks
# ------------------------------------------------------------------------------------------------

def refcount_obligations(ctx, prog, pfx):
    """An in_blk is shared by input_q and by every attached bit stream.  It may be released (buffer handed back,
    block freed) only by the party that drops the last reference: every release of a queued/attached block is on
    the true edge of `--blk->ref_count == 0`; the count starts at 1 with the push on input_q and is incremented
    only in attach()."""
    m = prog.module('expand')
    rel = []
    for f in m.funcs.values():
        P = Prov(prog, f)
        for c in f.calls('source_release_buffer'):
            a = strip_casts(P.expr(c.ops[0]))
            if a[0] == 'load' and path_key(a[1][2]).endswith('.buffer'):
                rel.append((f, P, c, a))
    ctx.floor(pfx + ' expand.c: releases of a shared input block', len(rel), 1)
    for f, P, c, a in rel:
        base = addr_key(a[1])[:-len('.buffer')]          # the block object
        gs = rules_guards(f, P, c.block.name)
        ok = False
        def is_dec(x):
            x = strip_casts(x)
            if x[0] == 'bin' and x[1] in ('add', 'sub'):
                l, k = strip_casts(x[2]), strip_casts(x[3])
                dec = (x[1] == 'add' and k == ('const', -1)) or (x[1] == 'sub' and k == ('const', 1))
                return dec and l[0] == 'load' and path_key(l[1][2]).endswith('.ref_count') and \
                    addr_key(l[1])[:-len('.ref_count')] == base
            return False
        for b, e, pol in gs:
            core, p2 = peel_cond(e)
            if is_dec(core):
                if (pol == p2) is False:        # edge taken when the decremented count is zero
                    ok = True
                continue
            cn = cmp_norm(core)
            if cn is not None and cn[2] == ('const', 0) and cn[0] in ('eq', 'ne') and is_dec(cn[1]):
                if (cn[0] == 'eq') == (pol == p2):
                    ok = True
        # the block itself is freed under the same guard
        fr = [x for x in f.calls('free') if x.block is c.block]
        ctx.ob(pfx + '.refcount', '%s(): the input buffer is handed back (and its block freed) only when the decremented '
               'reference count reached 0' % f.name, f.loc(c), ok and bool(fr), 'guards: %s' % [render(e)[:60] for _, e, _ in gs][:4])
    # increments only in attach(); initial value 1 in on_input_avail
    incs, inits = [], []
    for f in m.funcs.values():
        P = Prov(prog, f)
        for i in f.insns():
            if i.op == 'store' and path_key(P.addr(i.ops[1])[2]).endswith('.ref_count'):
                v = strip_casts(P.expr(i.ops[0]))
                if v[0] == 'const':
                    inits.append((f.name, v[1]))
                elif v[0] == 'bin' and strip_casts(v[3]) == ('const', 1) and v[1] == 'add':
                    incs.append(f.name)
    ctx.ob(pfx + '.refcount', 'the count starts at 1 (the queue\'s reference) and is incremented only by attach()',
           'src/expand.c', inits == [('on_input_avail', 1)] and incs == ['attach'], 'init %s, increments in %s' % (inits, incs))


def rules_guards(f, P, blk):
    import rules
    return rules.guards(f, P, blk)


# ------------------------------------------------------------------------------------------------
# counters compared with constants: facts named '<counter>><K>'
# ------------------------------------------------------------------------------------------------

def counter_fact(gkeys):
    """matcher for comparisons of a global counter (address key in gkeys) with a constant; the fact is named
    '<key>>K' (counter > K), whatever the spelling of the comparison"""
    def m(c):
        c0 = strip_casts(c)
        k = _load_key(c0)
        if k in gkeys:
            return ('%s>0' % k, True)
        cn = cmp_norm(c0)
        if not cn:
            return None
        p, x, y = cn
        kx = _load_key(x)
        if kx not in gkeys or y[0] != 'const':
            return None
        K = y[1]
        if p == 'ugt':
            return ('%s>%d' % (kx, K), True)
        if p == 'uge' and K >= 1:
            return ('%s>%d' % (kx, K - 1), True)
        if p == 'ult' and K >= 1:
            return ('%s>%d' % (kx, K - 1), False)
        if p == 'ule':
            return ('%s>%d' % (kx, K), False)
        if p == 'ne' and K == 0:
            return ('%s>0' % kx, True)
        if p == 'eq' and K == 0:
            return ('%s>0' % kx, False)
        return None
    return (None, m)


def counters_consistent(facts):
    """monotonicity: c > a true implies c > b true for every b <= a"""
    by = {}
    for name, val in facts.items():
        if isinstance(name, str) and '>' in name and name.split('>')[1].isdigit():
            g, k = name.split('>')
            by.setdefault(g, []).append((int(k), val))
    for g, lst in by.items():
        for k1, v1 in lst:
            for k2, v2 in lst:
                if k1 >= k2 and v1 and not v2:
                    return False
    return True


def counter_gt(facts, key, k):
    """truth of `key > k` as far as the facts on the path determine it (None: not determined)"""
    best = None
    for name, val in facts.items():
        if isinstance(name, str) and name.startswith(key + '>') and name[len(key) + 1:].isdigit():
            kk = int(name[len(key) + 1:])
            if val and kk >= k:
                return True
            if not val and kk <= k:
                best = False
    return best


def eq_fact(name, ka, kb):
    def m(c):
        cn = cmp_norm(c)
        if not cn:
            return None
        p, x, y = cn
        if {_load_key(x), _load_key(y)} == {ka, kb} and p in ('eq', 'ne'):
            return p == 'eq'
        return None
    return (name, m)


def nonnull_fact(name, key):
    def m(c):
        c0 = strip_casts(c)
        if _load_key(c0) == key:
            return True
        cn = cmp_norm(c0)
        if cn and _load_key(cn[1]) == key and cn[2] in (('null',), ('const', 0)) and cn[0] in ('ne', 'eq'):
            return cn[0] == 'ne'
        return None
    return (name, m)


def nonempty_q(unit, q):
    def m(c):
        k = _load_key(c)
        key = 'G:%s:%s.size' % (unit, q)
        if k == key:
            return True
        cn = cmp_norm(c)
        if cn and _load_key(cn[1]) == key and cn[2] == ('const', 0):
            return {'ne': True, 'ugt': True, 'eq': False}.get(cn[0])
        return None
    return ('nonempty:' + q, m)


def predicate_table(prog, unit, fname, facts):
    """[(return value or None, facts)] over every explored path of a ready predicate, inconsistent counter
    combinations removed"""
    f = prog.func(unit, fname)
    P = Prov(prog, f)
    ex = Explorer(prog, f, {}, facts, P)
    rows = []
    for kind, blk, st in ex.explore([{'cells': {}, 'facts': {}}]):
        if kind != 'ret':
            continue
        if not counters_consistent(st['facts']):
            continue
        rows.append((ex.ret_bool(st, blk), st['facts']))
    return f, rows

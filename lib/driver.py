"""Entry point of the static checker.

  check <PROPERTY> [--tier quick|thorough] [--root DIR]
  check replay <report.json>
  check all [--tier ...]

exit 0: every obligation discharged (known findings printed as KNOWN-FINDING lines)
exit 1: at least one 'VIOLATION property=<id> replay=<path>' line
exit 2: analysis broken (anchor vanished, construct not understood, compile failure)
"""
import sys, os, json, time, importlib, traceback, argparse

HERE = os.path.dirname(os.path.abspath(__file__))
VERIF = os.path.dirname(HERE)
sys.path.insert(0, HERE)

import irdb
from irdb import AnalysisBroken


class Ob:
    __slots__ = ('rule', 'instance', 'site', 'ok', 'detail', 'nontrivial', 'path')

    def as_dict(self):
        d = {'rule': self.rule, 'instance': self.instance, 'site': self.site,
             'result': 'discharged' if self.ok else 'VIOLATED', 'detail': self.detail}
        if self.path:
            d['path'] = self.path
        return d


class Ctx:
    def __init__(self, prop, tier, root):
        self.prop = prop
        self.tier = tier
        self.root = root
        self.obs = []
        self.evaluations = 0
        self.notes = []
        self._builds = {}
        self._progs = {}
        self.explanations = []
        self.trusted = ['clang-14 front end and -O0 code generation', 'opt-14 mem2reg',
                        'lib/irdb.py IR reader (exit 2 on any construct it does not understand)']
        self.exhaustive = False
        self.ndebug = os.environ.get('VERIF_NDEBUG', '1') != '0'
        self.extra = {}

    # ---- substrate
    def build(self, ndebug=None):
        ndebug = self.ndebug if ndebug is None else ndebug
        if ndebug not in self._builds:
            self._builds[ndebug] = irdb.Build(self.root, ndebug=ndebug).compile_all()
        return self._builds[ndebug]

    def prog(self, form='ssa', ndebug=None):
        ndebug = self.ndebug if ndebug is None else ndebug
        k = (form, ndebug)
        if k not in self._progs:
            self._progs[k] = irdb.Program(self.build(ndebug), form)
        return self._progs[k]

    def close(self):
        for b in self._builds.values():
            b.close()

    # ---- obligations
    def ob(self, rule, instance, site, ok, detail='', nontrivial=True, path=None, evals=1):
        o = Ob()
        o.rule = rule
        o.instance = instance
        o.site = site
        o.ok = bool(ok)
        o.detail = detail
        o.nontrivial = nontrivial
        o.path = path
        self.obs.append(o)
        self.evaluations += evals
        return o.ok

    def require(self, cond, msg):
        if not cond:
            raise AnalysisBroken(msg)

    def floor(self, what, n, minimum):
        """anti-vacuity: a rule that matched fewer instances than confirmed by hand is broken, not passing"""
        if n < minimum:
            raise AnalysisBroken('%s: found %d instance(s), confirmed floor is %d' % (what, n, minimum))

    def explain(self, text):
        self.explanations.append(text)

    def sample(self, case):
        """an actual case examined by a tabulation/exploration, written out for the evidence"""
        lst = self.extra.setdefault('case_samples', [])
        if len(lst) < 24:
            lst.append(case)


def load_known():
    p = os.path.join(VERIF, 'known_findings.json')
    if not os.path.exists(p):
        return []
    return json.load(open(p)).get('findings', [])


def run_property(prop, tier, root, quiet=False):
    t0 = time.time()
    ctx = Ctx(prop, tier, root)
    status = 0
    broken_msg = None
    ctx2 = None
    try:
        mod = importlib.import_module('props.' + prop.lower())
        mod.run(ctx)
        if not ctx.obs:
            raise AnalysisBroken('no obligations were generated')
        if tier == 'thorough' and not os.environ.get('VERIF_NO_SECOND_CONFIG'):
            # second configuration: asserts enabled (-UNDEBUG): every rule is decided again on that CFG
            ctx2 = Ctx(prop, tier, root)
            ctx2.ndebug = not ctx.ndebug
            mod.run(ctx2)
            for o in ctx2.obs:
                o.instance = o.instance + ' [%s build]' % ('assert-enabled' if not ctx2.ndebug else 'NDEBUG')
                ctx.obs.append(o)
            ctx.evaluations += ctx2.evaluations
            ctx.extra['configurations'] = ['-DNDEBUG (shipped)', '-UNDEBUG (asserts enabled)']
    except AnalysisBroken as e:
        status = 2
        broken_msg = str(e)
    except Exception:
        status = 2
        broken_msg = 'internal error:\n' + traceback.format_exc()
    finally:
        ctx.close()
        if ctx2 is not None:
            ctx2.close()
    # thorough tier: the seeded-fault battery of this property (sensitivity of the rules, recorded in the evidence;
    # a surviving mutant is a weakness of the checker, not a violation of the repository, and does not change
    # the verdict)
    if tier == 'thorough' and status == 0 and root == irdb.repo_root() and not os.environ.get('VERIF_NO_BATTERY'):
        import subprocess, tempfile
        tf = tempfile.NamedTemporaryFile(suffix='.json', delete=False)
        tf.close()
        r = subprocess.run([sys.executable, os.path.join(VERIF, 'selftest', 'run.py'), '--prop', prop, '-j', '12',
                            '--json', tf.name], capture_output=True, text=True,
                           env=dict(os.environ, VERIF_NO_SECOND_CONFIG='1', VERIF_NO_BATTERY='1'))
        try:
            res = json.load(open(tf.name))
        except Exception:
            res = []
        os.unlink(tf.name)
        ctx.extra['seeded_fault_battery'] = {
            'mutants': len(res), 'killed': sum(1 for x in res if x['status'] == 'killed'),
            'skipped': [x['name'] for x in res if x['status'] == 'skipped'],
            'not_killed': [x['name'] for x in res if x['status'] not in ('killed', 'skipped')]}
        ctx.evaluations += len(res)
    wall = time.time() - t0
    known = [k for k in load_known() if k.get('property') == prop and k.get('status') == 'known']
    viol = [o for o in ctx.obs if not o.ok]
    new_viol = []
    lines = []
    for o in viol:
        hit = None
        for k in known:
            if k.get('rule') == o.rule and k.get('instance') == o.instance:
                hit = k
                break
        if hit:
            lines.append('KNOWN-FINDING: property=%s %s [%s %s at %s]' % (prop, hit.get('what_failed', ''), o.rule,
                                                                         o.instance, o.site))
        else:
            new_viol.append(o)
    os.makedirs(os.path.join(VERIF, 'reports'), exist_ok=True)
    os.makedirs(os.path.join(VERIF, 'evidence'), exist_ok=True)
    if status == 0 and new_viol:
        status = 1
        for n, o in enumerate(new_viol):
            rp = os.path.join(VERIF, 'reports', '%s-%d.json' % (prop, n))
            json.dump({'property': prop, 'tier': tier, 'root': root, **o.as_dict(),
                       'replay': './check replay %s' % rp}, open(rp, 'w'), indent=1)
            lines.append('VIOLATION property=%s replay=%s' % (prop, rp))
            lines.append('  rule=%s instance=%s site=%s: %s' % (o.rule, o.instance, o.site, o.detail))
            if o.path:
                lines.append('  path: ' + ' -> '.join(str(x) for x in o.path))
    # evidence
    distinct = len({(o.rule, o.instance) for o in ctx.obs if o.nontrivial})
    by_rule = {}
    for o in ctx.obs:
        r = by_rule.setdefault(o.rule, [0, 0])
        r[0] += 1
        r[1] += 1 if o.ok else 0
    samples = []
    seen_rules = set()
    for o in ctx.obs:       # one sample per rule first, then fill
        if o.rule not in seen_rules:
            seen_rules.add(o.rule)
            samples.append(o.as_dict())
    for o in ctx.obs:
        if len(samples) >= 40:
            break
        d = o.as_dict()
        if d not in samples:
            samples.append(d)
    level = getattr(sys.modules.get('props.' + prop.lower()), 'LEVEL', 'other')
    ev = {
        'property_id': prop,
        'tier': tier,
        'seed': int(os.environ.get('VERIF_SEED', '0') or 0),
        'level': level,
        'coverage': {
            'explanation': ' '.join(ctx.explanations) or 'static rules over LLVM IR of the working tree',
            'obligations': len(ctx.obs),
            'discharged': sum(1 for o in ctx.obs if o.ok),
            'evaluations': ctx.evaluations,
            'distinct_nontrivial': distinct,
            'rule': 'one obligation per (rule, instance) derived from the current IR; evaluations counts the '
                    'individual sites/paths/table entries examined; distinct_nontrivial counts distinct '
                    '(rule, instance) pairs that examined at least one real construct of /repo',
            'samples': samples[:40],
            'checker_cmd': './check %s --tier %s' % (prop, tier),
            'trusted_base': ctx.trusted,
            'exhaustive': bool(ctx.exhaustive),
            'per_rule': {r: {'obligations': v[0], 'discharged': v[1]} for r, v in sorted(by_rule.items())},
            'repo_root': root,
        },
        'assumptions': ctx.notes,
        'wall_s': round(wall, 3),
        'violations': len(new_viol),
    }
    ev['coverage'].update(ctx.extra)
    for cs in ctx.extra.get('case_samples', []):
        ev['coverage']['samples'].append({'case': cs})
    if status == 2:
        ev['coverage']['analysis_broken'] = broken_msg
    if root == irdb.repo_root() and not os.environ.get('VERIF_NO_EVIDENCE'):
        json.dump(ev, open(os.path.join(VERIF, 'evidence', prop + '.json'), 'w'), indent=1)
    if not quiet:
        print('%s tier=%s: %d obligations, %d discharged, %d evaluations, %d distinct instances, %.1fs' % (
            prop, tier, len(ctx.obs), ev['coverage']['discharged'], ctx.evaluations, distinct, wall))
        for r, v in sorted(by_rule.items()):
            print('  %-40s %4d/%-4d' % (r, v[1], v[0]))
        for l in lines:
            print(l)
        if 'seeded_fault_battery' in ctx.extra:
            bt = ctx.extra['seeded_fault_battery']
            print('  seeded-fault battery: %d/%d mutants killed%s' % (bt['killed'], bt['mutants'],
                  (', NOT killed: %s' % bt['not_killed']) if bt['not_killed'] else ''))
        if status == 2:
            print('ANALYSIS-BROKEN property=%s: %s' % (prop, broken_msg))
    return status, ctx, lines, broken_msg


def main(argv):
    ap = argparse.ArgumentParser()
    ap.add_argument('what')
    ap.add_argument('arg', nargs='?')
    ap.add_argument('--tier', default=os.environ.get('VERIF_TIER', 'quick'))
    ap.add_argument('--root', default=irdb.repo_root())
    a = ap.parse_args(argv)
    if a.tier not in ('quick', 'thorough'):
        a.tier = 'quick'
    os.environ['VERIF_REPO_ROOT'] = a.root
    if a.what == 'replay':
        rep = json.load(open(a.arg))
        root = rep.get('root', a.root)
        if not os.path.isdir(root):
            root = a.root           # the scratch copy the report was made on is gone: replay on the current tree
        os.environ['VERIF_NO_EVIDENCE'] = '1'
        st, ctx, lines, _ = run_property(rep['property'], 'quick', root, quiet=True)
        hit = [o for o in ctx.obs if o.rule == rep['rule'] and o.instance == rep['instance']]
        for o in hit:
            print(json.dumps(o.as_dict(), indent=1))
        if not hit:
            print('instance no longer generated')
        sys.exit(1 if any(not o.ok for o in hit) else 0)
    if a.what == 'all':
        worst = 0
        for l in open(os.path.join(VERIF, 'MANIFEST.json')) and json.load(open(os.path.join(VERIF, 'MANIFEST.json')))['checks']:
            st, _, _, _ = run_property(l['property_id'], a.tier, a.root)
            worst = max(worst, st)
        sys.exit(worst)
    st, _, _, _ = run_property(a.what.upper(), a.tier, a.root)
    sys.exit(st)


if __name__ == '__main__':
    main(sys.argv[1:])
